"""Equivalence demo for Element.export_path (C06, r8).

The live method is compared against an inline copy of the ORIGINAL body on
randomly generated parent chains (empty paths in the middle of a chain, missing
parents, elements that never ran Element.__init__, Sample dataclasses, an Image
root), including the ORDER in which path / export_name / parent are read, the
exceptions raised, freshness of the returned list, and the joined output path
produced by ExportManager.make_output_path.
"""
import random
import sys

from smpl_extract.base import Element
from smpl_extract.generalized.sample import Sample
from smpl_extract.structural import ExportManager
from smpl_extract.structural import Image


def original_export_path(self):
    current_path = self.path
    if len(current_path) <= 0:
        return []
    new_path = []
    current_node = self
    while current_node is not None and len(current_node.path) > 0:
        new_path = [current_node.export_name] + new_path
        current_node = current_node.parent
    return new_path


LOG = []


class Traced(Element):
    """Element whose reads are logged, to compare the order of accesses."""
    type_name = "traced"

    def __init__(self, label, name, path, parent, export=None, boom=None):
        super().__init__(path, parent)
        self.label = label
        self.name = name
        self._export_name = export
        self._boom = boom

    @property
    def path(self):
        LOG.append((self.label, "path"))
        if self._boom == "path":
            raise RuntimeError("path boom " + self.label)
        return Element.path.fget(self)

    @property
    def parent(self):
        LOG.append((self.label, "parent"))
        if self._boom == "parent":
            raise KeyError("parent boom " + self.label)
        return Element.parent.fget(self)

    @property
    def export_name(self):
        LOG.append((self.label, "export_name"))
        if self._boom == "export_name":
            raise ValueError("export boom " + self.label)
        return Element.export_name.fget(self)

    def get_info(self):
        raise NotImplementedError


class Bare(Element):
    """Never runs Element.__init__: path/parent fall back to [] / None."""
    name = "bare"

    def __init__(self):
        pass

    def get_info(self):
        raise NotImplementedError


def outcome(fn, element):
    del LOG[:]
    try:
        value = fn(element)
        result = ("ok", type(value).__name__, list(value))
    except Exception as exc:  # noqa: BLE001
        value = None
        result = ("exc", type(exc).__name__, str(exc))
    return result, list(LOG), value


def random_chain(rng, serial):
    """Build a parent chain root-first; return all nodes."""
    depth = rng.randint(1, 7)
    nodes = []
    parent = None
    if rng.random() < 0.3:
        parent = Image(lambda ctx: [])
        parent.name = "image"
        nodes.append(parent)
    elif rng.random() < 0.1:
        parent = Bare()
        nodes.append(parent)
    path = []
    for level in range(depth):
        label = f"n{serial}.{level}"
        name = rng.choice(["A", "a/b", "..", "", "dup", "x L", "é", "C:\\"])
        roll = rng.random()
        if roll < 0.15:
            node_path = []          # stops the walk here
        elif roll < 0.2:
            node_path = None        # Element.__init__ turns it into []
        else:
            path = path + [name]
            node_path = list(path)
        export = rng.choice([None, None, "", "exp " + label, name.strip("/")])
        boom = rng.choice([None] * 12 + ["path", "parent", "export_name"])
        if rng.random() < 0.15:
            node = Sample(name=name, _path=node_path or [], _parent=parent,
                          _export_name=export)
        else:
            node = Traced(label, name, node_path, parent, export, boom)
        nodes.append(node)
        parent = node
    return nodes


def main():
    rng = random.Random(6068)
    manager = ExportManager("/tmp/never-written")
    failures = 0
    checked = 0
    for serial in range(6000):
        for node in random_chain(rng, serial):
            got, got_log, got_value = outcome(lambda e: e.export_path(), node)
            want, want_log, _ = outcome(original_export_path, node)
            checked += 1
            problems = []
            if got != want:
                problems.append("result")
            if got_log != want_log:
                problems.append("order of reads")
            if got_value is not None:
                again = node.export_path() if got[0] == "ok" else None
                if again is got_value:
                    problems.append("list not fresh")
                if isinstance(node, Sample):
                    joined = manager.make_output_path(node)
                    if joined != "/".join(want[2]):
                        problems.append("make_output_path")
            if problems:
                failures += 1
                if failures <= 10:
                    print("MISMATCH", problems, got, want, got_log, want_log)

    # hand-written corner cases
    root = Image(lambda ctx: [])
    root.name = "img"
    vol = Traced("vol", "VOL/1", ["VOL/1"], root, "VOL 1")
    smp = Sample(name="S", _path=["VOL/1", "S"], _parent=vol, _export_name="S (2)")
    orphan = Sample(name="orphan", _path=["orphan"])
    expectations = [
        (root, []), (vol, ["VOL 1"]), (smp, ["VOL 1", "S (2)"]),
        (orphan, ["orphan"]), (Bare(), []), (Sample(), []),
    ]
    for node, want in expectations:
        checked += 1
        got = node.export_path()
        if got != want or got != original_export_path(node):
            failures += 1
            print("MISMATCH fixed case", got, want)
    checked += 1
    if manager.make_output_path(smp) != "VOL 1/S (2)":
        failures += 1
        print("MISMATCH make_output_path", manager.make_output_path(smp))

    print(f"checked {checked} cases, {failures} mismatches")
    return 1 if failures else 0


if __name__ == "__main__":
    sys.exit(main())
