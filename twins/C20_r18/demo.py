"""Equivalence evidence for r18: smpl_extract/akai/data_types.py,
AkaiProgramPriority.__str__ and AkaiVoiceReassign.__str__ (the two enums that
only ProgramHeaderConstruct uses, for the "priority" and "voice_reassign"
fields; `ls` prints str() of the parsed members).

The refactoring replaces the `mapping = {self.X: "..."}; return
mapping.get(self, "Unknown")` dict lookup by a `match self:` statement with one
value pattern per member and a wildcard returning "Unknown".

Inline copies of the ORIGINAL enum classes are compared with the live ones:
  1. str(), format(), f-string, "%s", int(), hash, == for every member, for
     lookups by value and by name, and for invalid values;
  2. the unbound `__str__` called with ints / other objects (same result or
     same exception type);
  3. EnumWrapper(Int8ul, <enum>) on all 256 byte values: text or exception;
  4. ProgramHeaderConstruct on 3000 random 72-byte program headers: the text
     of "priority" / "voice_reassign" (str() and process_value, which `ls`
     uses) against a precomputed table; a header that parses never carries an
     invalid enum byte.
Exit 0 = all agree, 1 = a difference was found.
"""
import enum
import io
import random
import sys

from construct.core import ConstructError
from construct.core import Int8ul

from smpl_extract.akai.data_types import AkaiProgramPriority
from smpl_extract.akai.data_types import AkaiVoiceReassign
from smpl_extract.akai.program import ProgramHeaderConstruct
from smpl_extract.util.constructs import EnumWrapper
from smpl_extract.util.dataclass import process_value


# --------------------------------------------------------------------------
# inline copy of the ORIGINAL implementation
# --------------------------------------------------------------------------
class OrigAkaiProgramPriority(enum.IntEnum):
    LOW     = 0
    NORMAL  = 1
    HIGH    = 2
    HOLD    = 3
    def __str__(self):
        mapping = {
            self.LOW:       "Low",
            self.NORMAL:    "Normal",
            self.HIGH:      "High",
            self.HOLD:      "Hold"
        }
        return mapping.get(self, "Unknown")


class OrigAkaiVoiceReassign(enum.IntEnum):
    OLDEST      = 0
    QUIETEST    = 1
    def __str__(self):
        mapping = {
            self.OLDEST:    "Oldest",
            self.QUIETEST:  "Quietiest"
        }
        return mapping.get(self, "Unknown")


EXPECTED_PRIORITY = {0: "Low", 1: "Normal", 2: "High", 3: "Hold"}
EXPECTED_REASSIGN = {0: "Oldest", 1: "Quietiest"}

failures = []


def outcome(func, *args):
    try:
        value = func(*args)
    except BaseException as e:  # noqa
        return ("exc", type(e).__name__)
    return ("val", type(value).__name__, repr(value))


def check(label, a, b):
    if a != b:
        failures.append((label, a, b))


class Partial:
    """has only some of the member attributes"""
    LOW = 0
    OLDEST = 0
    def __eq__(self, other):
        return False
    def __hash__(self):
        return 1


def main():
    rnd = random.Random(0xC20_18)
    pairs = (
        (OrigAkaiProgramPriority, AkaiProgramPriority, EXPECTED_PRIORITY),
        (OrigAkaiVoiceReassign, AkaiVoiceReassign, EXPECTED_REASSIGN),
    )

    # 1. members
    for orig, live, table in pairs:
        check(("names", live.__name__), [m.name for m in orig], [m.name for m in live])
        check(("values", live.__name__), [int(m) for m in orig], [int(m) for m in live])
        for om, lm in zip(orig, live):
            check(("str", lm.name), str(om), str(lm))
            check(("str-table", lm.name), table[int(lm)], str(lm))
            check(("format", lm.name), format(om), format(lm))
            check(("format-w", lm.name), outcome(format, om, ">12"), outcome(format, lm, ">12"))
            check(("fstring", lm.name), f"{om}|{om!s}", f"{lm}|{lm!s}")
            check(("percent", lm.name), "%s/%d" % (om, om), "%s/%d" % (lm, lm))
            check(("int", lm.name), (int(om), hash(om), om == int(om)), (int(lm), hash(lm), lm == int(lm)))
            check(("by-name", lm.name), str(orig[om.name]), str(live[lm.name]))
            check(("dunder", lm.name), om.__str__(), lm.__str__())
            check(("type-str", lm.name), orig.__str__(om), live.__str__(lm))
        for value in list(range(-3, 260)) + [1.0, 0.0, 2.5, True, False, None, "1", "LOW"]:
            ra = outcome(lambda v: str(orig(v)), value)
            rb = outcome(lambda v: str(live(v)), value)
            check(("lookup", live.__name__, repr(value)), ra, rb)
            if isinstance(value, int) and not isinstance(value, bool) and value in table:
                check(("lookup-table", live.__name__, value), ("val", "str", repr(table[value])), rb)

        # 2. unbound __str__ with foreign arguments
        for arg in [0, 1, 2, 3, 4, -1, 255, 1.0, True, None, "LOW", object(), Partial(), (), []]:
            check(("unbound", live.__name__, repr(type(arg))), outcome(orig.__str__, arg), outcome(live.__str__, arg))
        # members of the *other* enum (have not the attributes of this one)
        other = AkaiVoiceReassign if live is AkaiProgramPriority else AkaiProgramPriority
        other_orig = OrigAkaiVoiceReassign if live is AkaiProgramPriority else OrigAkaiProgramPriority
        for om, lm in zip(other_orig, other):
            check(("cross", live.__name__, lm.name), outcome(orig.__str__, om), outcome(live.__str__, lm))

        # 3. through the construct wrapper
        wa, wb = EnumWrapper(Int8ul, orig), EnumWrapper(Int8ul, live)
        for b in range(256):
            ra = outcome(lambda d: str(wa.parse(d)), bytes([b]))
            rb = outcome(lambda d: str(wb.parse(d)), bytes([b]))
            check(("wrapper", live.__name__, b), ra, rb)
            if b in table:
                check(("wrapper-table", live.__name__, b), ("val", "str", repr(table[b])), rb)
            else:
                check(("wrapper-bad", live.__name__, b), "exc", rb[0])
        check(("wrapper-empty", live.__name__), outcome(wa.parse, b""), outcome(wb.parse, b""))

    # 4. whole program headers (72 bytes: offset 18 = priority, 61 = voice_reassign)
    ok = 0
    for n in range(3000):
        header = bytearray(rnd.randrange(256) for _ in range(72))
        for i in range(3, 15):
            header[i] = rnd.randrange(0, 0x29)       # valid AKAI characters
        header[19] = rnd.randrange(21, 128)           # low_key
        header[20] = rnd.randrange(21, 128)           # high_key
        if n % 5:
            header[18] = rnd.randrange(0, 4)
            header[61] = rnd.randrange(0, 2)
        elif n % 2:
            header[18] = rnd.randrange(0, 8)
        else:
            header[61] = rnd.randrange(0, 4)
        stream = io.BytesIO(bytes(header))
        try:
            parsed = ProgramHeaderConstruct.parse_stream(stream)
        except ConstructError:
            # a random header may be rejected (e.g. an invalid enum byte)
            continue
        ok += 1
        check(("hdr-valid", n), True, header[18] in EXPECTED_PRIORITY and header[61] in EXPECTED_REASSIGN)
        check(("hdr-priority", n), EXPECTED_PRIORITY.get(header[18]), str(parsed.priority))
        check(("hdr-reassign", n), EXPECTED_REASSIGN.get(header[61]), str(parsed.voice_reassign))
        check(("hdr-types", n), (AkaiProgramPriority, AkaiVoiceReassign),
              (type(parsed.priority), type(parsed.voice_reassign)))
        check(("hdr-item-priority", n), EXPECTED_PRIORITY.get(header[18]), process_value(parsed.priority))
        check(("hdr-item-reassign", n), EXPECTED_REASSIGN.get(header[61]), process_value(parsed.voice_reassign))
        check(("hdr-pos", n), 72, stream.tell())
    check("some headers parsed", True, ok > 500)

    if failures:
        for f in failures[:20]:
            print("MISMATCH", f)
        print(f"{len(failures)} mismatches")
        return 1
    print(f"r18 demo: all comparisons agree ({ok} headers parsed)")
    return 0


if __name__ == "__main__":
    sys.exit(main())
