"""Equivalence demo for r14: PartitionAdapter._decode_element
(smpl_extract/akai/partition.py) - the place where an AKAI partition element is
wired to its lazily realised volumes through wrap_child_realization(context).

Part 1 (unit): the live method and an inline copy of the ORIGINAL are called
with the same randomly generated arguments (real ChildInfo tuples with normal
and pathological names, instrumented partition containers that log attribute
reads and may lack `sat`/`volumes`, dict and Container contexts).  Compared:
exception type/message, every attribute of the resulting Partition (identity
of parent / path / routines / sat objects), the order of container reads, and
what happens on the first and second `children` access (call of the wrapped
realiser, context mutation, routine piping, memoisation).

Part 2 (end to end): synthetic AKAI images (several partitions, active and
inactive volumes, duplicate volume names) are parsed with the live adapter and
with the original method monkey-patched in; ls output for many paths (valid or
not, random order, on one image object) and the element attributes must agree.
"""
import contextlib
import io
import random
import sys

from construct.core import Struct
from construct.lib.containers import Container

from smpl_extract.akai import partition as partition_module
from smpl_extract.akai.akai_string import char_ascii_to_akai
from smpl_extract.akai.data_types import AKAI_PARTITION_MAGIC
from smpl_extract.akai.image import AkaiImageParser
from smpl_extract.akai.partition import Partition
from smpl_extract.akai.partition import PartitionAdapter
from smpl_extract.structural import ErrorInvalidPath
from smpl_extract.util.constructs import ChildInfo


# --------------------------------------------------------------------------
# inline copy of the ORIGINAL implementation
# --------------------------------------------------------------------------
def orig_decode_element(self, obj, child_info, context, path):
    del path  # unused
    partition_container = obj

    partition_name = child_info.name
    parent = child_info.parent
    element_path = child_info.next_path
    routines = child_info.routines

    if len(partition_name) > 0 and partition_name[-1] != ":":
        partition_name = partition_name + ":"

    partition = Partition(
        partition_container.sat,
        self.wrap_child_realization(
            partition_container.volumes,
            context
        ),
        partition_name,
        parent,
        element_path,
        routines=routines
    )

    return partition


# --------------------------------------------------------------------------
# part 1
# --------------------------------------------------------------------------
class LoggedContainer:
    def __init__(self, log, attrs):
        object.__setattr__(self, "_log", log)
        object.__setattr__(self, "_attrs", attrs)

    def __getattr__(self, key):
        self._log.append(("read", key))
        try:
            return self._attrs[key]
        except KeyError:
            raise AttributeError(key)


class FakeParent:
    def __init__(self, path):
        self.path = path


NAMES = ["", "A", "A:", ":", "::", "AB", "a:b", "B:", " ", "Z: ", None, 5,
         ["a"], [":"], [], b"A", b"", ("x",), "\u00e9"]


def make_world(rng, seed_case):
    """Deterministic world for one case; called twice per case."""
    r = random.Random(seed_case)
    log = []
    name = r.choice(NAMES)
    parent = None if r.random() < 0.2 else FakeParent(["root"][: r.randint(0, 1)])
    parent_path = parent.path if parent is not None else []
    next_path = parent_path + [name] if isinstance(name, str) else parent_path
    routine_kind = r.randint(0, 3)

    def routine(elements):
        log.append(("routine", list(elements)))
        return elements + ["added"] if routine_kind == 2 else elements

    routines = [{}, {"r": routine}, {"r": routine}, None][routine_kind]
    child_info = ChildInfo(parent=parent, parent_path=parent_path,
                           next_path=next_path, routines=routines, name=name)

    volumes_result = [["v1", "v2"], [], None][r.randint(0, 2)]
    fail_first = r.random() < 0.15
    state = {"calls": 0}

    def f_volumes():
        state["calls"] += 1
        log.append(("f_volumes", state["calls"]))
        if fail_first and state["calls"] == 1:
            raise RuntimeError("volumes not ready")
        return volumes_result

    sat = object()
    attrs = {"sat": sat, "volumes": f_volumes}
    drop = r.random()
    if drop < 0.08:
        del attrs["sat"]
    elif drop < 0.16:
        del attrs["volumes"]
    elif drop < 0.2:
        attrs["sat"] = None
    container = LoggedContainer(log, attrs)
    if r.random() < 0.5:
        context = {"_elem_name": name, "x": 1}
    else:
        context = Container(_elem_name=name, _=Container(y=2))
    return dict(log=log, child_info=child_info, container=container,
                context=context, sat=attrs.get("sat"), parent=parent,
                next_path=next_path, routines=routines)


def describe(world, func, adapter):
    out = []
    try:
        partition = func(adapter, world["container"], world["child_info"],
                         world["context"], "(parsing) -> partition")
    except Exception as e:  # noqa
        out.append(("exc", type(e).__name__, str(e)))
        out.append(("log", list(world["log"])))
        out.append(("context", sorted(world["context"].keys(), key=str)))
        return out
    out.append(("type", type(partition).__name__, partition.type_name))
    out.append(("name", partition.name, partition.safe_name, partition.export_name))
    out.append(("path_is", partition._path is world["next_path"]
                or (not world["next_path"] and partition._path == [])))
    out.append(("path", list(partition.path)))
    out.append(("parent_is", partition._parent is world["parent"]))
    out.append(("routines_is", partition._routines is world["routines"]
                or (not world["routines"] and partition._routines == {})))
    out.append(("f_sat_is", partition._f_sat is world["sat"]))
    out.append(("sat_cache", partition._sat, partition._children))
    out.append(("attrs", sorted(partition.__dict__.keys())))
    out.append(("log_after_decode", list(world["log"])))
    out.append(("context_after_decode", sorted(world["context"].keys(), key=str)))
    for attempt in range(3):
        try:
            children = partition.children if attempt != 1 else partition.volumes
            out.append(("children", attempt, children))
        except Exception as e:  # noqa
            out.append(("children_exc", attempt, type(e).__name__, str(e)))
        out.append(("log", attempt, list(world["log"])))
        ctx = world["context"]
        out.append(("context", attempt, sorted(ctx.keys(), key=str),
                    ctx.get("_elem_parent") is partition,
                    ctx.get("_elem_routines") is partition._routines))
    try:
        out.append(("sat", partition.sat))
    except Exception as e:  # noqa
        out.append(("sat_exc", type(e).__name__))
    return out


def part_one():
    failures = 0
    live_adapter = PartitionAdapter(Struct())
    live = PartitionAdapter._decode_element
    rng = random.Random(1614)
    for case in range(3000):
        seed_case = rng.randrange(1 << 30)
        res_live = describe(make_world(rng, seed_case), live, live_adapter)
        res_orig = describe(make_world(rng, seed_case), orig_decode_element, live_adapter)
        # object() reprs differ between worlds: compare through repr with ids masked
        a = repr(res_live)
        b = repr(res_orig)
        import re
        a = re.sub(r"0x[0-9a-f]+", "0x", a)
        b = re.sub(r"0x[0-9a-f]+", "0x", b)
        if a != b:
            failures += 1
            if failures <= 3:
                print("MISMATCH case", case)
                print("  live:", a)
                print("  orig:", b)
    return 3000, failures


# --------------------------------------------------------------------------
# part 2
# --------------------------------------------------------------------------
def make_partition(num_sectors, volumes=()):
    data = bytearray(num_sectors * 0x2000)
    data[0:2] = num_sectors.to_bytes(2, "little")
    data[4:4 + len(AKAI_PARTITION_MAGIC)] = AKAI_PARTITION_MAGIC
    data[200:202] = b"\x2f\x00"
    for i, (name, volume_type, start) in enumerate(volumes):
        offset = 202 + 16 * i
        data[offset:offset + 12] = bytes(char_ascii_to_akai(name.ljust(12)))
        data[offset + 12:offset + 14] = volume_type.to_bytes(2, "little")
        data[offset + 14:offset + 16] = start.to_bytes(2, "little")
        if volume_type:
            sat_offset = 1802 + 2 * start
            data[sat_offset:sat_offset + 2] = (0xC000).to_bytes(2, "little")
            base = start * 0x2000
            data[base + 8:base + 10] = (0xD747).to_bytes(2, "little")
    return bytes(data)


def make_image(rng):
    blob = b""
    for _ in range(rng.randint(0, 3)):
        n_vol = rng.randint(0, 4)
        num_sectors = 4 + n_vol + rng.randint(0, 1)
        volumes = []
        for v in range(n_vol):
            name = rng.choice(["VOL ONE", "VOL ONE", "DRUMS", "A", "B-L", "B-R", "X.1"])
            volumes.append((name, rng.choice([0, 1, 3]), 4 + v))
        blob += make_partition(num_sectors, volumes)
    if rng.random() < 0.3:
        blob += bytes(rng.randint(1, 300))
    return blob


PATHS = ["", "/", "a", "A", "A:", "a:", "B", "b:/", "C", "D", "A/VOL ONE",
         "a:/vol one", "A/VOL ONE (2)", "A\\DRUMS", "B/A", "A/B-L", "A/nope",
         "A/VOL ONE/x", "nope", "A:/", " a ", "A//", "B:\\X.1"]


def replay(blob, paths):
    out = []
    stream = io.BytesIO(blob)
    image = AkaiImageParser(stream)
    image.set_routines({
        "make_safe_names": image.make_safe_names_routine,
        "make_export_names": image.make_export_names_routine
    })
    for path in paths:
        try:
            item = image.parse_path(path)
        except ErrorInvalidPath as e:
            out.append(("invalid", path, str(e)))
            continue
        out.append(("ls", path, item.get_info().to_string()))
    for partition in image.children:
        out.append((type(partition).__name__, partition.name, partition.path,
                    partition.safe_name, partition.export_name,
                    partition.parent is image, partition._routines is image._routines,
                    type(partition._f_sat).__name__,
                    [(v.name, v.safe_name, v.export_name, v.path, v.type_name,
                      v.parent is partition) for v in partition.volumes]))
    out.append(("bytes_unchanged", stream.getvalue() == blob))
    return out


@contextlib.contextmanager
def original_installed():
    saved = PartitionAdapter._decode_element
    PartitionAdapter._decode_element = orig_decode_element
    try:
        yield
    finally:
        PartitionAdapter._decode_element = saved


def part_two():
    rng = random.Random(16140)
    failures = 0
    cases = 60
    for case in range(cases):
        blob = make_image(rng)
        paths = [rng.choice(PATHS) for _ in range(rng.randint(0, 10))]
        res_live = replay(blob, paths)
        with original_installed():
            res_orig = replay(blob, paths)
        fresh = replay(blob, [])
        if res_live != res_orig or res_live[len(paths):] != fresh:
            failures += 1
            if failures <= 3:
                print("E2E MISMATCH case", case, paths)
                print("  live:", res_live)
                print("  orig:", res_orig)
    return cases, failures


def main():
    n1, f1 = part_one()
    n2, f2 = part_two()
    print("unit cases:", n1, "failures:", f1)
    print("end-to-end cases:", n2, "failures:", f2)
    return 1 if (f1 or f2) else 0


if __name__ == "__main__":
    sys.exit(main())
