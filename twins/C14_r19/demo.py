"""Equivalence demo for r19 (smpl_extract/roland/s7xx/directory_area.py,
DirectoryEntryAdapter._decode - the decoder of one 32 byte Roland directory
record.  It is the element parser of the tolerant SafeListConstruct lists of
DirectoryListConstruct and, through the `directory` pointer of
SampleEntryConstruct, part of every Roland sample record that the tolerant
per-sample loop of PartialEntryAdapter._parse reads).

The refactoring replaces the inner `try: version = ... except: pass` of the
directory-version look-up by `with contextlib.suppress(BaseException):`.

The ORIGINAL method (inline copy below) is patched into the class for one run
and the live method for the other, so that every construct that embeds the
module's DirectoryEntryParser is exercised with both.

 A. unit level: _decode called directly with logging context mappings of many
    shapes (version two levels up, one level up, both, neither, parents that
    are None / ints / strings / lists, contexts that are not subscriptable,
    look-ups that raise KeyError, TypeError, KeyboardInterrupt, SystemExit,
    GeneratorExit, a custom BaseException, an ExceptionGroup or a
    BaseExceptionGroup on the first and/or second look-up), version values 1,
    2, 2.0, True, "2", None and objects with scripted __eq__, and records
    with / without the two link pointers.  Compared: identity of the returned
    object, pointer values afterwards, exception type/text, and the log of
    every context read.
 B. record level: 32 byte records parsed with DirectoryEntryParser below
    parents that carry _dir_version at either level: every value of every
    byte of three base records, truncations, random records.  Then lists of
    records through DirectoryListConstruct (SafeListConstruct) with the damage
    of property C14 confined to one record.  Compared: all fields, exception
    type/text, stream position.
 C. sample records: SampleEntryAdapter(SampleEntryConstruct(i)) on a synthetic
    Roland directory/parameter area with one sample's directory record or
    parameter record damaged (every value of selected bytes, several values of
    all bytes, random multi-byte damage), for directory versions none/1/2.
    Compared: every field of the resulting SampleEntry, names, paths, FAT
    calls, exception type/text, the trace of every seek/read/tell.

Exit 0 when everything agrees, 1 otherwise.
"""
import dataclasses
import io
import random
import struct
import sys
import types
from typing import cast

from construct.core import Computed
from construct.core import Struct
from construct.lib.containers import Container

import smpl_extract.roland.s7xx.directory_area as da
from smpl_extract.roland.s7xx.data_types import SAMPLE_DIRECTORY_AREA_OFFSET
from smpl_extract.roland.s7xx.data_types import SAMPLE_DIRECTORY_ENTRY_SIZE
from smpl_extract.roland.s7xx.data_types import SAMPLE_PARAMETER_AREA_OFFSET
from smpl_extract.roland.s7xx.data_types import SAMPLE_PARAMETER_ENTRY_SIZE
from smpl_extract.roland.s7xx.directory_area import DirectoryEntryAdapter
from smpl_extract.roland.s7xx.directory_area import DirectoryEntryContainer
from smpl_extract.roland.s7xx.directory_area import DirectoryEntryParser
from smpl_extract.roland.s7xx.directory_area import DirectoryListConstruct
from smpl_extract.roland.s7xx.sample_entry import SampleEntry
from smpl_extract.roland.s7xx.sample_entry import SampleEntryAdapter
from smpl_extract.roland.s7xx.sample_entry import SampleEntryConstruct


# ---------------------------------------------------------------- original
def orig_decode(self, obj, context, path):
    container = cast(DirectoryEntryContainer, obj)
    version = 1
    try:
        version = context["_"]["_"]["_dir_version"]
    except:
        try:
            version = context["_"]["_dir_version"]
        except:
            pass
    if version == 2:
        container.backward_link_ptr -= 0x8000
        container.forward_link_ptr -= 0x8000
    return container


LIVE_DECODE = DirectoryEntryAdapter._decode
IMPLS = (("orig", orig_decode), ("live", LIVE_DECODE))

failures = []
checked = 0


def check(cond, msg):
    global checked
    checked += 1
    if not cond:
        failures.append(msg)


class patched:
    def __init__(self, method):
        self.method = method

    def __enter__(self):
        DirectoryEntryAdapter._decode = self.method

    def __exit__(self, *exc):
        DirectoryEntryAdapter._decode = LIVE_DECODE
        return False


# ---------------------------------------------------------------- part A
class CustomBase(BaseException):
    pass


class Ctx:
    """a mapping that logs every read; `script` maps a key to a list of
    outcomes consumed one per read (the last one sticks): ("ret", value) or
    ("raise", factory)"""

    def __init__(self, tag, script, log):
        self.tag = tag
        self.script = {k: list(v) for k, v in script.items()}
        self.log = log

    def __getitem__(self, key):
        self.log.append((self.tag, key))
        if key not in self.script:
            raise KeyError(key)
        outcomes = self.script[key]
        kind, value = outcomes[0]
        if len(outcomes) > 1:
            outcomes.pop(0)
        if kind == "raise":
            raise value()
        return value


class Version:
    """a version object whose comparison with 2 is scripted and logged"""

    def __init__(self, answer, log):
        self.answer = answer
        self.log = log

    def __eq__(self, other):
        self.log.append(("eq", other))
        if isinstance(self.answer, type) and issubclass(self.answer, BaseException):
            raise self.answer("eq fails")
        return self.answer

    __hash__ = None


RAISERS = {
    "KeyError": lambda: KeyError("k"),
    "TypeError": lambda: TypeError("t"),
    "IndexError": lambda: IndexError("i"),
    "AttributeError": lambda: AttributeError("a"),
    "KeyboardInterrupt": lambda: KeyboardInterrupt(),
    "SystemExit": lambda: SystemExit(3),
    "GeneratorExit": lambda: GeneratorExit(),
    "CustomBase": lambda: CustomBase("c"),
    "StopIteration": lambda: StopIteration(),
    "ExceptionGroup": lambda: ExceptionGroup("g", [KeyError("k"), ValueError("v")]),
    "BaseExceptionGroup": lambda: BaseExceptionGroup(
        "bg", [KeyboardInterrupt(), KeyError("k")]),
    "MemoryError": lambda: MemoryError(),
    "RecursionError": lambda: RecursionError(),
}


def version_values(log):
    return [
        ("1", 1), ("2", 2), ("2.0", 2.0), ("True", True), ("'2'", "2"), ("None", None),
        ("3", 3), ("0x8002", 0x8002), ("[2]", [2]),
        ("eqTrue", Version(True, log)), ("eqFalse", Version(False, log)),
        ("eq1", Version(1, log)), ("eq0", Version(0, log)),
        ("eqRaises", Version(ValueError, log)),
        ("eqRaisesBase", Version(KeyboardInterrupt, log)),
        ("eqNotImplemented", Version(NotImplemented, log)),
    ]


def make_record(kind):
    if kind == "both":
        return types.SimpleNamespace(backward_link_ptr=0x8005, forward_link_ptr=0x8007,
                                     name="REC")
    if kind == "container":
        return Container(backward_link_ptr=0x9000, forward_link_ptr=3, name="REC")
    if kind == "no_backward":
        return types.SimpleNamespace(forward_link_ptr=0x8007)
    if kind == "no_forward":
        return types.SimpleNamespace(backward_link_ptr=0x8007)
    if kind == "string_ptr":
        return types.SimpleNamespace(backward_link_ptr="x", forward_link_ptr=1)
    if kind == "none":
        return None
    raise AssertionError(kind)


def describe_record(rec):
    if isinstance(rec, Container):
        return ("Container", sorted((k, repr(v)) for k, v in rec.items()))
    if isinstance(rec, types.SimpleNamespace):
        return ("ns", sorted((k, repr(v)) for k, v in vars(rec).items()))
    return (type(rec).__name__, repr(rec))


def run_decode(method, build_context, record_kind):
    log = []
    context = build_context(log)
    rec = make_record(record_kind)
    adapter = DirectoryEntryParser
    try:
        got = method(adapter, rec, context, "demo path")
    except BaseException as e:  # noqa: B902
        return ("raise", type(e), str(e), describe_record(rec),
                [x if x[0] != "eq" else ("eq", repr(x[1])) for x in log])
    return ("ok", got is rec, describe_record(rec),
            [x if x[0] != "eq" else ("eq", repr(x[1])) for x in log])


def compare_decode(label, build_context, record_kind="both"):
    a = run_decode(orig_decode, build_context, record_kind)
    b = run_decode(LIVE_DECODE, build_context, record_kind)
    check(a == b, f"decode {label} rec={record_kind}: {str(a)[:400]} != {str(b)[:400]}")
    return b


def part_a():
    record_kinds = ("both", "container", "no_backward", "no_forward", "string_ptr", "none")
    n_versions = len(version_values([]))

    # version found two levels up / one level up / both / neither
    for vi in range(n_versions):
        for rk in record_kinds:
            def two_up(log, vi=vi):
                name, v = version_values(log)[vi]
                top = Ctx("L2", {"_dir_version": [("ret", v)]}, log)
                mid = Ctx("L1", {"_": [("ret", top)]}, log)
                return Ctx("L0", {"_": [("ret", mid)]}, log)

            def one_up(log, vi=vi):
                name, v = version_values(log)[vi]
                top = Ctx("L2", {}, log)
                mid = Ctx("L1", {"_": [("ret", top)], "_dir_version": [("ret", v)]}, log)
                return Ctx("L0", {"_": [("ret", mid)]}, log)

            def one_up_no_grandparent(log, vi=vi):
                name, v = version_values(log)[vi]
                mid = Ctx("L1", {"_dir_version": [("ret", v)]}, log)
                return Ctx("L0", {"_": [("ret", mid)]}, log)

            compare_decode(f"two_up v#{vi}", two_up, rk)
            compare_decode(f"one_up v#{vi}", one_up, rk)
            compare_decode(f"one_up_no_gp v#{vi}", one_up_no_grandparent, rk)
        for vj in range(n_versions):
            def both(log, vi=vi, vj=vj):
                vals = version_values(log)
                top = Ctx("L2", {"_dir_version": [("ret", vals[vi][1])]}, log)
                mid = Ctx("L1", {"_": [("ret", top)],
                                 "_dir_version": [("ret", vals[vj][1])]}, log)
                return Ctx("L0", {"_": [("ret", mid)]}, log)
            compare_decode(f"both v#{vi}/{vj}", both)

    # parents / contexts of other types
    odd = [None, 5, "str", "_", [1], (), {}, {"_": 1}, {"_dir_version": 2},
           {"_": {"_dir_version": 2}}, {"_": {"_": {"_dir_version": 2}}},
           {"_": {"_dir_version": 2, "_": {}}}, {"_": {"_dir_version": 1, "_": {"_dir_version": 2}}},
           b"_", 1.5, object()]
    for ci, ctx_value in enumerate(odd):
        for rk in record_kinds:
            compare_decode(f"odd context #{ci}", lambda log, c=ctx_value: c, rk)
            compare_decode(
                f"odd parent #{ci}",
                lambda log, c=ctx_value: Ctx("L0", {"_": [("ret", c)]}, log), rk
            )
            compare_decode(
                f"odd grandparent #{ci}",
                lambda log, c=ctx_value: Ctx("L0", {"_": [("ret", Ctx(
                    "L1", {"_": [("ret", c)], "_dir_version": [("ret", 2)]}, log))]}, log),
                rk
            )
    # real construct containers
    for version in (None, 1, 2):
        for level in (0, 1, 2, 3):
            def real(log, version=version, level=level):
                chain = [Container() for _ in range(4)]
                for lower, upper in zip(chain, chain[1:]):
                    lower["_"] = upper
                if version is not None:
                    chain[level]["_dir_version"] = version
                return chain[0]
            res = compare_decode(f"real containers v={version} level={level}", real)
            expect_shift = version == 2 and level in (1, 2)
            check(res[0] == "ok" and res[1] is True and dict(res[2][1])["backward_link_ptr"]
                  == repr(0x8005 - (0x8000 if expect_shift else 0)),
                  f"expected shift={expect_shift} for v={version} level={level}: {res}")

    # look-ups that raise: first read of "_" at L0, second read of "_" at L0,
    # "_" at L1, "_dir_version" at L2, "_dir_version" at L1, in combinations
    names = list(RAISERS)
    for n1 in names:
        r1 = ("raise", RAISERS[n1])
        for rk in ("both", "no_backward"):
            compare_decode(f"L0._ always {n1}",
                           lambda log, r1=r1: Ctx("L0", {"_": [r1]}, log), rk)
        for n2 in names:
            r2 = ("raise", RAISERS[n2])

            def first_then_second(log, r1=r1, r2=r2):
                return Ctx("L0", {"_": [r1, r2]}, log)

            def first_raises_then_ok(log, r1=r1, r2=r2, value=2):
                mid = Ctx("L1", {"_dir_version": [("ret", value)]}, log)
                return Ctx("L0", {"_": [r1, ("ret", mid)]}, log)

            def mid_raises(log, r1=r1, r2=r2):
                mid = Ctx("L1", {"_": [r1], "_dir_version": [r2]}, log)
                return Ctx("L0", {"_": [("ret", mid)]}, log)

            def mid_raises_then_found(log, r1=r1, r2=r2):
                mid = Ctx("L1", {"_": [r1], "_dir_version": [("ret", 2)]}, log)
                return Ctx("L0", {"_": [("ret", mid)]}, log)

            def top_raises(log, r1=r1, r2=r2):
                top = Ctx("L2", {"_dir_version": [r1]}, log)
                mid = Ctx("L1", {"_": [("ret", top)], "_dir_version": [r2]}, log)
                return Ctx("L0", {"_": [("ret", mid)]}, log)

            def top_raises_mid_found(log, r1=r1, r2=r2):
                top = Ctx("L2", {"_dir_version": [r1]}, log)
                mid = Ctx("L1", {"_": [("ret", top)], "_dir_version": [("ret", 2)]}, log)
                return Ctx("L0", {"_": [("ret", mid), r2]}, log)

            for build in (first_then_second, first_raises_then_ok, mid_raises,
                          mid_raises_then_found, top_raises, top_raises_mid_found):
                res = compare_decode(f"{build.__name__} {n1}/{n2}", build)
                check(res[0] == "ok" and res[1] is True,
                      f"every look-up failure is swallowed ({build.__name__} {n1}/{n2}): {res}")

    # independent expectations
    res = compare_decode("expect", lambda log: {"_": {"_": {"_dir_version": 2}}})
    check(res[:2] == ("ok", True) and dict(res[2][1]) == {
        "backward_link_ptr": "5", "forward_link_ptr": "7", "name": "'REC'"}, f"v2: {res}")
    res = compare_decode("expect", lambda log: {"_": {"_": {"_dir_version": 1}, "_dir_version": 2}})
    check(dict(res[2][1])["backward_link_ptr"] == repr(0x8005), f"outer wins: {res}")


# ---------------------------------------------------------------- part B
def dir_record(name, ftype, fat_entry, nclusters, attrs=0, fwd=0, back=0, link=0,
               reserved=0):
    rec = name.ljust(16, "\0").encode("ascii") + bytes([ftype, attrs]) \
        + struct.pack("<HHHIHH", fwd, back, link, reserved, fat_entry, nclusters)
    assert len(rec) == 32
    return rec


def parse_context(stream, **items):
    """a context container carrying what Construct.parse_stream / Struct._parse
    put into theirs"""
    c = Container(**items)
    c._params = items.get("_", c).get("_params", c) if isinstance(items.get("_"), Container) else c
    c._root = c._params
    c._parsing = True
    c._building = False
    c._sizing = False
    c._subcons = None
    c._io = stream
    return c


def describe_dir(c):
    if not isinstance(c, Container):
        return (type(c).__name__, repr(c))
    return [(k, type(v).__name__, repr(v)) for k, v in c.items() if k != "_io"]


def run_single(data, where, version, index=7, start=0):
    stream = io.BytesIO(bytes(data))
    stream.seek(start)
    top = parse_context(stream, marker="top")
    mid = parse_context(stream, _=top, marker="mid")
    if version is not None:
        (top if where == "top" else mid)["_dir_version"] = version
        if where == "both":
            top["_dir_version"] = 1 if version == 2 else 2
    context = parse_context(stream, _=mid, _index=index)
    try:
        c = DirectoryEntryParser._parse(stream, context, "demo")
    except BaseException as e:  # noqa: B902
        return ("raise", type(e), str(e), stream.tell())
    return ("ok", describe_dir(c), stream.tell())


def run_list(data, count, version, where):
    """records listed through the module's DirectoryListConstruct, nested so
    that the version sits one or two levels above the record context"""
    lst = DirectoryListConstruct(count)
    if where == "one_up":
        outer = Struct("_dir_version" / Computed(version), "entries" / lst)
        pick = lambda c: c.entries   # noqa: E731
    elif where == "two_up":
        outer = Struct("_dir_version" / Computed(version),
                       "inner" / Struct("entries" / lst))
        pick = lambda c: c.inner.entries   # noqa: E731
    elif where == "three_up":
        outer = Struct("_dir_version" / Computed(version),
                       "inner" / Struct("inner" / Struct("entries" / lst)))
        pick = lambda c: c.inner.inner.entries   # noqa: E731
    else:
        outer = Struct("entries" / lst)
        pick = lambda c: c.entries   # noqa: E731
    stream = io.BytesIO(bytes(data))
    try:
        c = outer.parse_stream(stream)
    except BaseException as e:  # noqa: B902
        return ("raise", type(e), str(e), stream.tell())
    entries = pick(c)
    return ("ok", type(entries).__name__, [describe_dir(e) for e in entries],
            stream.tell())


def both_impls(fn, *args, **kw):
    out = []
    for _name, method in IMPLS:
        with patched(method):
            out.append(fn(*args, **kw))
    return out


def part_b():
    rng = random.Random(0xC14)
    bases = [
        dir_record("SAMPLE 1", 0x44, 12, 3, attrs=1, fwd=0x8002, back=0x8001, link=9),
        dir_record("", 0x00, 0, 0),
        dir_record("PERF \x7f~", 0x41, 0xFFFF, 0xFFFF, attrs=0xFF, fwd=0xFFFF, back=0x7FFF,
                   link=0xFFFF, reserved=0xDEADBEEF),
    ]
    settings = [("mid", None), ("mid", 1), ("mid", 2), ("top", 2), ("both", 2), ("both", 1)]
    for bi, base in enumerate(bases):
        for where, version in settings:
            a, b = both_impls(run_single, base, where, version)
            check(a == b, f"single base{bi} {where} {version}: {a} != {b}")
            for n in range(0, 32, 3):
                a, b = both_impls(run_single, base[:n], where, version)
                check(a == b, f"truncated base{bi}[:{n}] {where} {version}: {a} != {b}")
        for off in range(32):
            for value in range(256):
                d = bytearray(base)
                d[off] = value
                where, version = settings[(off + value) % len(settings)]
                a, b = both_impls(run_single, d, where, version)
                check(a == b, f"base{bi}[{off}]={value:#x} {where} {version}: {a} != {b}")
    for _ in range(2000):
        d = bytes(rng.getrandbits(8) & (0x7F if i < 16 and rng.random() < 0.9 else 0xFF)
                  for i in range(32))
        where, version = rng.choice(settings)
        a, b = both_impls(run_single, d, where, version, start=0)
        check(a == b, f"random single: {a} != {b}")
    a, b = both_impls(run_single, b"\xee" * 5 + bases[0], "top", 2, start=5)
    check(a == b and b[0] == "ok" and b[2] == 37, f"offset record: {a} != {b}")

    # expectations
    res = run_single(bases[0], "top", 2)
    d = {k: v for k, _t, v in res[1]}
    check(res[0] == "ok" and d["forward_link_ptr"] == "2" and d["backward_link_ptr"] == "1"
          and d["name"] == "'SAMPLE 1'" and d["index"] == "7" and d["fat_entry"] == "12",
          f"version 2 record: {res}")
    res = run_single(bases[0], "mid", None)
    d = {k: v for k, _t, v in res[1]}
    check(d["forward_link_ptr"] == repr(0x8002) and d["backward_link_ptr"] == repr(0x8001),
          f"version 1 record: {res}")

    # lists with one damaged record
    count = 6
    table = b"".join(
        dir_record("ENTRY %d" % i, 0x40 + i % 5, 20 + i, 2, fwd=0x8000 + i, back=0x8000 + i + 1)
        for i in range(count)
    )
    list_settings = [("none", None), ("one_up", 2), ("two_up", 2), ("three_up", 2),
                     ("one_up", 1), ("two_up", 1)]
    for where, version in list_settings:
        a, b = both_impls(run_list, table, count, version, where)
        check(a == b, f"list good {where} {version}: {str(a)[:300]} != {str(b)[:300]}")
        for n in (0, 31, 32, 100, 6 * 32 - 1):
            a, b = both_impls(run_list, table[:n], count, version, where)
            check(a == b, f"list truncated {n} {where}: {str(a)[:300]} != {str(b)[:300]}")
    target = 2
    for off in range(32):
        values = range(256) if off in (0, 15, 16, 18, 19, 20, 21, 28) else \
            (0x00, 0x01, 0x44, 0x7F, 0x80, 0xFF)
        for value in values:
            d = bytearray(table)
            d[target * 32 + off] = value
            where, version = list_settings[(off + value) % len(list_settings)]
            a, b = both_impls(run_list, d, count, version, where)
            check(a == b, f"list [{off}]={value:#x} {where}: {str(a)[:300]} != {str(b)[:300]}")
    for _ in range(500):
        d = bytearray(table)
        base = rng.randrange(count) * 32
        for _ in range(rng.randrange(2, 10)):
            d[base + rng.randrange(32)] = rng.getrandbits(8)
        where, version = rng.choice(list_settings)
        a, b = both_impls(run_list, d, count, version, where)
        check(a == b, f"list random damage {where}: {str(a)[:300]} != {str(b)[:300]}")
    # (the last record is damaged here: a record that fails half way leaves the
    # list reader inside the record, which is existing behaviour and the same
    # for both implementations - it is covered by the comparisons above)
    d = bytearray(table)
    d[(count - 1) * 32] = 0xFF
    res = run_list(d, count, 2, "two_up")
    names = [dict((k, v) for k, _t, v in e)["name"] for e in res[2]]
    check(res[0] == "ok" and names == ["'ENTRY %d'" % i for i in range(count - 1)],
          f"a damaged name drops that record: {names}")
    fwd = [dict((k, v) for k, _t, v in e)["forward_link_ptr"] for e in res[2]]
    check(fwd == [repr(i) for i in range(count - 1)], f"v2 pointers: {fwd}")
    res = run_list(table, count, 1, "two_up")
    fwd = [dict((k, v) for k, _t, v in e)["forward_link_ptr"] for e in res[2]]
    check(fwd == [repr(0x8000 + i) for i in range(count)], f"v1 pointers: {fwd}")


# ---------------------------------------------------------------- part C
class TracingFile(io.BytesIO):

    def __init__(self, data):
        super().__init__(data)
        self.trace = []

    def tell(self):
        pos = super().tell()
        self.trace.append(("tell", pos))
        return pos

    def seek(self, *args):
        pos = super().seek(*args)
        self.trace.append(("seek", args, pos))
        return pos

    def read(self, *args):
        data = super().read(*args)
        self.trace.append(("read", args, len(data)))
        return data


class FakeFat:
    def __init__(self, log, bad=()):
        self.log = log
        self.bad = set(bad)

    def get_file(self, *args, **kwargs):
        self.log.append(("get_file", args, sorted(kwargs.items())))
        if args and args[0] in self.bad:
            raise IndexError("no such chain %r" % (args[0],))
        return ("file", args, tuple(sorted(kwargs.items())))


class Parent:
    path = ["IMG", "PERF", "PATCH", "PARTIAL"]


def describe_sample(entry, parent):
    if not isinstance(entry, SampleEntry):
        return ("not-a-sample-entry", type(entry))
    out = []
    for f in dataclasses.fields(entry):
        v = getattr(entry, f.name)
        if f.name == "_parent":
            v = ("parent-is", v is parent, type(v).__name__)
        out.append((f.name, type(v).__name__, v))
    out.append(("name", entry.name))
    out.append(("path", entry.path))
    return out


def param_record(name, loop_mode, cluster_top, nclusters, options, key):
    rec = name.ljust(16, "\0").encode("ascii")
    for point in (0x100, 0x2000, 0x30FF, 0x4000, 0x5001):
        rec += struct.pack("<I", point)
    rec += bytes([loop_mode, 1, 2, 3]) + struct.pack("<HH", cluster_top, nclusters)
    rec += bytes([options, key, 0, 0])
    assert len(rec) == SAMPLE_PARAMETER_ENTRY_SIZE, len(rec)
    return rec


NUM = 6
IMAGE_SIZE = SAMPLE_PARAMETER_AREA_OFFSET + SAMPLE_PARAMETER_ENTRY_SIZE * (NUM + 2)


def make_image():
    buf = bytearray(IMAGE_SIZE)
    for i in range(NUM):
        d = dir_record("SAMPLE %d" % i, 0x44, 10 + i, 3, fwd=0x8000 + i, back=0x8010 + i)
        off = SAMPLE_DIRECTORY_AREA_OFFSET + i * SAMPLE_DIRECTORY_ENTRY_SIZE
        buf[off:off + len(d)] = d
        p = param_record("PARAM %d" % i, i % 7, i % 3, 3, 0x01 | ((i % 2) << 4), 60 + i)
        off = SAMPLE_PARAMETER_AREA_OFFSET + i * SAMPLE_PARAMETER_ENTRY_SIZE
        buf[off:off + len(p)] = p
    return buf


def run_sample(data, index, dir_version=None, version_where="up"):
    stream = TracingFile(bytes(data))
    log = []
    fat = FakeFat(log, bad=(0xFFFF,))
    parent = Parent()
    up = parse_context(stream, _elem_parent=parent, _elem_routines={}, fat=fat)
    context = parse_context(stream, _=up, _index=index)
    if dir_version is not None:
        (up if version_where == "up" else context)["_dir_version"] = dir_version
    adapter = SampleEntryAdapter(SampleEntryConstruct(index))
    seen = []
    try:
        entry = adapter._parse(stream, context, "demo")
    except BaseException as e:  # noqa: B902
        return ("raise", type(e), str(e), list(log), list(stream.trace))
    return ("ok", describe_sample(entry, parent), list(log), list(stream.trace), seen)


def part_c():
    rng = random.Random(0x19C)
    good = make_image()
    versions = [(None, "up"), (1, "up"), (2, "up"), (2, "ctx"), (1, "ctx")]
    for index in list(range(NUM + 2)) + [0x1FFF, 0x2000, -1]:
        for dv, where in versions:
            a, b = both_impls(run_sample, good, index, dv, where)
            check(a == b, f"sample good idx={index} {dv} {where}: {str(a)[:300]} != {str(b)[:300]}")
    a, b = both_impls(run_sample, good[:SAMPLE_DIRECTORY_AREA_OFFSET + 40], 1, 2)
    check(a == b, "sample truncated")

    target = 2
    doff = SAMPLE_DIRECTORY_AREA_OFFSET + target * SAMPLE_DIRECTORY_ENTRY_SIZE
    poff = SAMPLE_PARAMETER_AREA_OFFSET + target * SAMPLE_PARAMETER_ENTRY_SIZE
    few = (0x00, 0x44, 0x80, 0xFF)
    full_dir = {0, 16, 19, 21, 28}   # name, type, link pointers (high bytes), fat entry
    full_par = {0, 36, 44}           # name, loop mode, options
    k = 0
    for base, width, full in ((doff, SAMPLE_DIRECTORY_ENTRY_SIZE, full_dir),
                              (poff, SAMPLE_PARAMETER_ENTRY_SIZE, full_par)):
        for off in range(width):
            for value in (range(256) if off in full else few):
                d = bytearray(good)
                d[base + off] = value
                k += 1
                dv, where = versions[k % len(versions)]
                indices = (target, target + 1) if value in few else (target,)
                for idx in indices:
                    a, b = both_impls(run_sample, d, idx, dv, where)
                    check(a == b, f"sample [{base:#x}+{off}]={value:#x} idx={idx} {dv}: "
                                  f"{str(a)[:300]} != {str(b)[:300]}")
    for _ in range(300):
        d = bytearray(good)
        base, width = rng.choice([(doff, SAMPLE_DIRECTORY_ENTRY_SIZE),
                                  (poff, SAMPLE_PARAMETER_ENTRY_SIZE)])
        for _ in range(rng.randrange(2, 10)):
            d[base + rng.randrange(width)] = rng.getrandbits(8)
        dv, where = rng.choice(versions)
        a, b = both_impls(run_sample, d, target, dv, where)
        check(a == b, f"sample random damage: {str(a)[:300]} != {str(b)[:300]}")

    # expectations
    res = run_sample(good, 2, 2)
    check(res[0] == "ok", f"good sample parses: {str(res)[:300]}")
    if res[0] == "ok":
        d = {x[0]: x[-1] for x in res[1]}
        check(d["directory_name"] == "SAMPLE 2" and d["parameter_name"] == "PARAM 2"
              and d["path"] == Parent.path + ["SAMPLE 2"], "sample names/path")
        check(res[2] == [("get_file", (12,), [("cluster_offset", 2)])], f"fat calls {res[2]}")
    d = bytearray(good)
    d[doff] = 0xFF
    res = run_sample(d, 2, 2)
    check(res[0] == "raise", "damaged name byte raises for that sample")
    res = run_sample(d, 3, 2)
    check(res[0] == "ok" and {x[0]: x[-1] for x in res[1]}["directory_name"] == "SAMPLE 3",
          "the neighbour is unaffected")


def main():
    check(da.DirectoryEntryAdapter is DirectoryEntryAdapter
          and type(DirectoryEntryParser) is DirectoryEntryAdapter
          and DirectoryEntryAdapter._decode is LIVE_DECODE, "setup")
    part_a()
    part_b()
    part_c()
    check(DirectoryEntryAdapter._decode is LIVE_DECODE, "class restored")
    print(f"{checked} checks, {len(failures)} failures")
    for msg in failures[:15]:
        print("FAIL:", msg)
    return 1 if failures else 0


if __name__ == "__main__":
    sys.exit(main())
