"""Equivalence demo for r26 (smpl_extract/roland/s7xx/fat.py,
FatAreaAdapter._decode).

FatAreaAdapter._decode turns the 65536 raw 16 bit entries of the Roland FAT
area into a RolandFileAllocationTable.  Every sample of a Roland image is read
through that table (fat.get_file(cluster)), so the audio of all the items of a
directory depends on it.

The refactoring restructures the tail of the routine: the temporaries `fat`
and `result` disappear, the FatArea is returned directly with keyword
arguments, and the construction of the RolandFileAllocationTable (stream,
size, links - now also passed by keyword) moves into a new private module
level helper _make_table(container, sector_links).

The ORIGINAL _decode is pasted below (orig_decode) and compared with the live
one.

 A. direct calls of _decode with hand made containers: empty table, chains
    (forward, backward, shared tails), loops, ERROR / RESERVED / FREE flags at
    every boundary of the scanned range (entries 0..3 and the last 12 entries),
    identifiers and version flags, missing attributes (a container without
    fat_data_stream must fail only after the scan, and a scan error must win
    over it; a property records when the attribute is read), tables that are too
    short or too long, negative / oversized / non-int entries, and random
    tables with random damage.
    Compared: error type, text and cause; or version, remaining clusters, the
    table's class, stream (identity), size, every link (next, end, type), the
    pattern of object sharing among the links, and the results of get_path /
    get_file for many start clusters.
 B. end to end: a synthetic image stream (FAT area at FAT_AREA_OFFSET, cluster
    data at DATA_FAT_OFFSET) parsed through Struct(Seek, adapter) with the
    original adapter and the live FatAreaParser on a stream that records every
    seek / read / tell; files read through the resulting table.

Exit 0 when everything agrees, 1 otherwise.
"""
import io
import random
import struct
import sys
import types
from typing import cast

from construct.core import ConstructError
from construct.core import Seek
from construct.core import Struct
from construct.lib.containers import Container

import smpl_extract.roland.s7xx.fat as fatmod
from smpl_extract.roland.s7xx.data_types import DATA_FAT_OFFSET
from smpl_extract.roland.s7xx.data_types import FAT_AREA_ID
from smpl_extract.roland.s7xx.data_types import FAT_AREA_OFFSET
from smpl_extract.roland.s7xx.data_types import FAT_ERROR_FLAG
from smpl_extract.roland.s7xx.data_types import FAT_FREE_FLAG
from smpl_extract.roland.s7xx.data_types import FAT_IS_END_F
from smpl_extract.roland.s7xx.data_types import FAT_NUM_ENTRIES
from smpl_extract.roland.s7xx.data_types import FAT_RESERVED_FLAG
from smpl_extract.roland.s7xx.data_types import FAT_VERSION_1_FLAG
from smpl_extract.roland.s7xx.data_types import FAT_VERSION_2_FLAG
from smpl_extract.roland.s7xx.data_types import ROLAND_CLUSTER_SIZE
from smpl_extract.roland.s7xx.fat import FatArea
from smpl_extract.roland.s7xx.fat import FatAreaAdapter
from smpl_extract.roland.s7xx.fat import FatAreaContainer
from smpl_extract.roland.s7xx.fat import FatAreaParser
from smpl_extract.roland.s7xx.fat import FatAreaStruct
from smpl_extract.roland.s7xx.fat import RolandFileAllocationTable
from smpl_extract.util.fat import SectorLink
from smpl_extract.util.fat import add_to_sector_links


N = FAT_NUM_ENTRIES


# --------------------------------------------------------------------------
# the ORIGINAL implementation (verbatim copy of the body)
# --------------------------------------------------------------------------
def orig_decode(self, obj, context, path) -> FatArea:
    container = cast(FatAreaContainer, obj)

    fat_id = container.metadata.fat_id
    if fat_id != FAT_AREA_ID:
        raise ConstructError((
            "Bad FAT identifier. "
            f"Expected {FAT_AREA_ID}, found {fat_id}"
        ))

    num_remaining_clusters = container.metadata.num_unused_clusters

    version_flag_1 = container.metadata.version_flag_1
    version_flag_2 = container.metadata.version_flag_2

    version_map = {
        FAT_VERSION_1_FLAG: 1,
        FAT_VERSION_2_FLAG: 2
    }

    version = 1

    for version_flag in (version_flag_1, version_flag_2):
        if version_flag != FAT_VERSION_1_FLAG:
            if version_flag not in version_map.keys():
                raise ConstructError((
                    f"Unknown FAT version {version_flag}."
                ))
            version = version_map[version_flag]
            break

    fat_entries = container.fat_entries

    sector_links = [SectorLink()] * FAT_NUM_ENTRIES
    dirty_flags = [False] * FAT_NUM_ENTRIES
    dirty_flags[0:2] = [True, True]
    for i in range(2, FAT_NUM_ENTRIES - 9):

        if dirty_flags[i]:
            continue

        subpath_links = []
        subpath_visited = set()
        subpath_index = i
        while True:
            if subpath_index >= FAT_NUM_ENTRIES:
                break

            if subpath_index in subpath_visited:
                raise ConstructError("Encountered a loop in FAT.")
            subpath_visited.add(subpath_index)

            value = fat_entries[subpath_index]
            dirty_flags[subpath_index] = True

            if value == FAT_ERROR_FLAG:
                raise ConstructError("Encountered ERROR_FLAG in FAT.")

            if value in (FAT_RESERVED_FLAG, FAT_FREE_FLAG):
                if len(subpath_links) > 0:
                    if value == FAT_RESERVED_FLAG:
                        err_type = "RESERVE_FLAG"
                    else:
                        err_type = "FREE_FLAG"
                    raise ConstructError(f"Unexpected {err_type} in FAT.")
                else:
                    break

            subpath_links.append(subpath_index)

            if FAT_IS_END_F(value):
                add_to_sector_links(subpath_links, sector_links)
                break

            subpath_index = value
            continue

    fat = RolandFileAllocationTable(
        container.fat_data_stream,
        FAT_NUM_ENTRIES,
        sector_links
    )

    result = FatArea(
        version,
        num_remaining_clusters,
        fat
    )
    return result


class OrigFatAreaAdapter(FatAreaAdapter):
    _decode = orig_decode


ORIG = OrigFatAreaAdapter(FatAreaStruct)
LIVE = FatAreaParser


# --------------------------------------------------------------------------
# observation helpers
# --------------------------------------------------------------------------
failures = []
n_cases = 0


def describe_error(e):
    cause = e.__cause__
    return (
        "ERR", type(e).__module__, type(e).__name__, str(e),
        None if cause is None else (type(cause).__name__, str(cause))
    )


def sharing_pattern(items):
    first = {}
    out = []
    for idx, item in enumerate(items):
        out.append(first.setdefault(id(item), idx))
    return out


PROBES = (
    list(range(0, 40)) + list(range(N - 14, N + 3)) + [-1, -2, 100, 1000, 0x7fff, 0x8000]
)


def describe_area(area, container, probes):
    out = []
    out.append((type(area).__module__, type(area).__name__))
    out.append((type(area.version).__name__, area.version))
    out.append(("remaining", type(area.num_remaining_clusters).__name__, repr(area.num_remaining_clusters)))
    fat = area.fat
    out.append((type(fat).__module__, type(fat).__name__))
    stream = getattr(container, "fat_data_stream", None)
    out.append(("same stream", stream is not None and fat.parent_stream is stream))
    out.append(("size", type(fat.size).__name__, fat.size))
    links = fat.sector_links
    out.append(("links", type(links).__name__, len(links)))
    out.append([(type(l).__name__, type(l.next).__name__, l.next, l.end) for l in links])
    out.append(sharing_pattern(links))
    paths = []
    for start in probes:
        try:
            paths.append((start, fat.get_path(start)))
        except Exception as e:  # noqa: BLE001
            paths.append((start, describe_error(e)))
    out.append(paths)
    return out


def run_decode(func, adapter, container, probes):
    try:
        area = func(adapter, container, None, "(demo)")
    except Exception as e:  # noqa: BLE001
        return describe_error(e), None
    return describe_area(area, container, probes), area


def check(label, container, extra_probes=()):
    global n_cases
    n_cases += 1
    probes = PROBES + list(extra_probes)
    want, area_o = run_decode(orig_decode, ORIG, container, probes)
    got, area_l = run_decode(FatAreaAdapter._decode, LIVE, container, probes)
    if want != got:
        failures.append(label)
        print("MISMATCH", label)
        if isinstance(want, tuple) or isinstance(got, tuple):
            print("   want", want if isinstance(want, tuple) else "(area)")
            print("   got ", got if isinstance(got, tuple) else "(area)")
        else:
            for k, (a, b) in enumerate(zip(want, got)):
                if a != b:
                    print("   item", k, "differs")
    return area_o, area_l


def make_container(entries, fat_id=FAT_AREA_ID, unused=123, v1=FAT_VERSION_1_FLAG,
                   v2=FAT_VERSION_1_FLAG, stream="default", kind=Container):
    if stream == "default":
        stream = io.BytesIO(b"")
    meta = kind(fat_id=fat_id, num_unused_clusters=unused, version_flag_1=v1, version_flag_2=v2)
    return kind(fat_entries=entries, metadata=meta, stream_size=0, fat_data_stream=stream)


def blank():
    entries = [FAT_FREE_FLAG] * N
    entries[0] = FAT_AREA_ID
    entries[1] = 123
    entries[N - 2] = FAT_VERSION_1_FLAG
    entries[N - 1] = FAT_VERSION_1_FLAG
    return entries


def put_chain(entries, clusters, end=0xffff):
    for a, b in zip(clusters, clusters[1:]):
        entries[a] = b
    entries[clusters[-1]] = end


# --------------------------------------------------------------------------
# A. direct calls
# --------------------------------------------------------------------------
def part_a():
    global n_cases
    rnd = random.Random(2514)

    check("blank", make_container(blank()))
    check("blank namespace", make_container(blank(), kind=types.SimpleNamespace))
    check("all zero", make_container([0] * N))
    check("all end", make_container([0xffff] * N))
    check("all 0xfff8", make_container([0xfff8] * N))
    check("all reserved", make_container([1] * N))
    check("all error", make_container([FAT_ERROR_FLAG] * N))
    check("all 2", make_container([2] * N))
    check("successor chain", make_container([min(k + 1, 0xffff) for k in range(N)]))

    e = blank(); put_chain(e, [2])
    check("single", make_container(e))
    e = blank(); put_chain(e, [2, 3, 4])
    check("forward", make_container(e))
    e = blank(); put_chain(e, [9, 7, 5, 3])
    check("backward", make_container(e))
    e = blank(); put_chain(e, [3, 10, 11]); put_chain(e, [5, 10, 11]); put_chain(e, [20, 5])
    check("shared tail", make_container(e))
    e = blank(); put_chain(e, [2, 3]); e[3] = 2
    check("loop", make_container(e))
    e = blank(); e[2] = 2
    check("self loop", make_container(e))
    e = blank(); put_chain(e, [40, 41, 42]); e[42] = 41
    check("late loop", make_container(e))
    e = blank(); put_chain(e, [6, 5]); e[5] = 6
    check("loop via lower", make_container(e))
    e = blank(); put_chain(e, [2, 3]); e[3] = FAT_FREE_FLAG
    check("into free", make_container(e))
    e = blank(); put_chain(e, [2, 3]); e[3] = FAT_RESERVED_FLAG
    check("into reserved", make_container(e))
    e = blank(); put_chain(e, [2, 3]); e[3] = FAT_ERROR_FLAG
    check("into error", make_container(e))
    e = blank(); put_chain(e, [30, 3]); e[3] = FAT_ERROR_FLAG
    check("error met first", make_container(e))

    # every special value at every boundary of the scanned range
    positions = [0, 1, 2, 3, 4] + list(range(N - 13, N))
    values = [FAT_ERROR_FLAG, FAT_RESERVED_FLAG, FAT_FREE_FLAG, 0xfff8, 0xffff, 2, 3, 7,
              N - 10, N - 11, 0xfff6]
    for pos in positions:
        for value in values:
            e = blank()
            e[pos] = value
            check(f"boundary pos={pos} value={value:#x}", make_container(e))
    # chains that end in / walk through the last scanned entries
    for last in range(N - 13, N - 9):
        e = blank(); put_chain(e, [2, last])
        check(f"chain into {last}", make_container(e))
        e = blank(); put_chain(e, [last, 2])
        check(f"chain from {last}", make_container(e))
        e = blank(); put_chain(e, [last, last - 1, last - 2], end=0xfff9)
        check(f"descending from {last}", make_container(e))
    e = blank()
    put_chain(e, list(range(2, N - 9)))
    check("one chain over everything", make_container(e))
    e = blank()
    put_chain(e, list(range(N - 10, N - 1200, -1)))   # (the scan is quadratic on these)
    check("a long descending chain up to the last scanned entry", make_container(e))

    # identifiers and versions
    for fat_id in (FAT_AREA_ID, 0, 0xfffb, -6, 0xfffa + 0x10000, None, "x", 65530.0):
        check(f"fat_id {fat_id!r}", make_container(blank(), fat_id=fat_id))
    flags = (FAT_VERSION_1_FLAG, FAT_VERSION_2_FLAG, 0, 5, 0xfffd, None, 65534.0, True)
    for v1 in flags:
        for v2 in flags:
            check(f"versions {v1!r} {v2!r}", make_container([0] * 8, v1=v1, v2=v2))
            check(f"versions {v1!r} {v2!r} loop", make_container([2] * 8, v1=v1, v2=v2))
    for unused in (0, 65535, -1, None, "many", 1.5):
        check(f"unused {unused!r}", make_container(blank(), unused=unused))

    # missing attributes, odd streams (when is the attribute looked up?)
    good = blank(); put_chain(good, [2, 3])
    bad = blank(); bad[2] = 2
    for name, entries in (("good", good), ("loop", bad)):
        for missing in ("fat_data_stream", "fat_entries", "metadata", "stream_size"):
            c = make_container(entries, kind=types.SimpleNamespace)
            delattr(c, missing)
            check(f"{name} without {missing}", c)
        for missing in ("fat_id", "num_unused_clusters", "version_flag_1", "version_flag_2"):
            c = make_container(entries, kind=types.SimpleNamespace)
            delattr(c.metadata, missing)
            check(f"{name} without metadata.{missing}", c)
        for stream in (None, 0, "text", io.BytesIO(b"abc")):
            check(f"{name} stream {stream!r}", make_container(entries, stream=stream))

        class Touchy:
            """fat_data_stream is a property that records when it is read"""
            log = []

            def __init__(self, entries):
                self._entries = entries
                self.metadata = types.SimpleNamespace(
                    fat_id=FAT_AREA_ID, num_unused_clusters=1,
                    version_flag_1=FAT_VERSION_2_FLAG, version_flag_2=0)

            @property
            def fat_entries(self):
                self.log.append("fat_entries")
                return self._entries

            @property
            def fat_data_stream(self):
                self.log.append("fat_data_stream")
                return STREAM

        STREAM = io.BytesIO(b"")
        logs = []
        for func, adapter in ((orig_decode, ORIG), (FatAreaAdapter._decode, LIVE)):
            Touchy.log = []
            try:
                res = func(adapter, Touchy(entries), None, "")
                Touchy.log.append(("ok", res.version, res.fat.parent_stream is STREAM))
            except Exception as e:  # noqa: BLE001
                Touchy.log.append(describe_error(e))
            logs.append(Touchy.log)
        n_cases += 1
        if logs[0] != logs[1]:
            failures.append(f"touchy {name}")
            print("MISMATCH touchy", name, logs)

    # wrong sizes
    for size in (0, 1, 2, 3, 4, 100, N - 11, N - 10, N - 9, N - 8, N - 1, N + 1, N + 40):
        check(f"zeros of size {size}", make_container([0] * size))
        check(f"ends of size {size}", make_container([0xffff] * size))
        check(f"successors of size {size}", make_container([k + 1 for k in range(size)]))
    check("tuple entries", make_container(tuple(blank())))
    check("entries None", make_container(None))
    check("bytes entries", make_container(bytes(N)))

    # entries that no 16 bit read can produce
    for odd in (-1, -2, -9, -10, -N, -N - 1, N, N + 1, 70000, 2 ** 40, None, "3", 3.0,
                float("nan"), True, False, 0xfff7 + 0.0):
        for pos in (2, 3, N - 10, N - 9):
            e = blank(); e[pos] = odd
            check(f"odd {odd!r} at {pos}", make_container(e))
        e = blank(); put_chain(e, [2, 5]); e[5] = odd
        check(f"odd {odd!r} after a link", make_container(e))

    # random tables
    for k in range(60):
        e = blank()
        free = list(range(2, N - 9))
        rnd.shuffle(free)
        cursor = 0
        starts = []
        for _ in range(rnd.randrange(1, 40)):
            length = rnd.choice((1, 1, 2, 3, 5, 17, 200))
            clusters = free[cursor:cursor + length]
            cursor += length
            if rnd.random() < 0.5:
                clusters.sort()
            put_chain(e, clusters, end=rnd.choice((0xfff8, 0xfffc, 0xffff)))
            starts.append(clusters[0])
            starts.append(clusters[-1])
        for _ in range(rnd.choice((0, 0, 1, 2, 6))):
            pos = rnd.choice((rnd.randrange(N), rnd.choice(starts), rnd.randrange(N - 14, N)))
            e[pos] = rnd.choice((rnd.randrange(0x10000), FAT_ERROR_FLAG, 0, 1, 0xffff,
                                 rnd.choice(starts)))
        c = make_container(e, unused=rnd.randrange(0x10000),
                           v1=rnd.choice((0xffff, 0xfffe)), v2=rnd.choice((0xffff, 0xfffe, 9)))
        areas = check(f"random {k}", c, extra_probes=starts)
        if None not in areas:
            # files through the table: same sector lists
            for start in starts[:6]:
                n_cases += 1
                seen = []
                for area in areas:
                    try:
                        f = area.fat.get_file(start, start % 3)
                        seen.append((type(f).__name__, f.sector_list, f.sector_length))
                    except Exception as err:  # noqa: BLE001
                        seen.append(describe_error(err))
                if seen[0] != seen[1]:
                    failures.append(f"random {k} file {start}")
                    print("MISMATCH file", k, start)

    # the default link is per call, shared inside one call
    c = make_container(blank())
    for func, adapter in ((orig_decode, ORIG), (FatAreaAdapter._decode, LIVE)):
        n_cases += 1
        a1 = func(adapter, c, None, "")
        a2 = func(adapter, c, None, "")
        l1, l2 = a1.fat.sector_links, a2.fat.sector_links
        ok = (
            l1 is not l2 and l1[0] is not l2[0] and l1[0] is l1[N - 1] and l1[5] is l1[0]
            and a1.fat is not a2.fat and l1 == l2
        )
        l1[7].end = False
        ok = ok and l1[8].end is False and l2[7].end is True
        if not ok:
            failures.append(f"sharing {func.__qualname__}")
            print("MISMATCH sharing", func.__qualname__)


# --------------------------------------------------------------------------
# B. end to end on a recorded stream
# --------------------------------------------------------------------------
class Recorder(io.BytesIO):

    def __init__(self, data):
        super().__init__(data)
        self.trace = []

    def seek(self, *args):
        result = super().seek(*args)
        self.trace.append(("seek", args, result))
        return result

    def tell(self):
        result = super().tell()
        self.trace.append(("tell", result))
        return result

    def read(self, *args):
        result = super().read(*args)
        self.trace.append(("read", args, len(result)))
        return result


def part_b():
    global n_cases
    rnd = random.Random(7)
    n_clusters = 24
    base = bytearray(DATA_FAT_OFFSET + n_clusters * ROLAND_CLUSTER_SIZE)
    for k in range(n_clusters):
        off = DATA_FAT_OFFSET + k * ROLAND_CLUSTER_SIZE
        base[off:off + ROLAND_CLUSTER_SIZE] = bytes([k + 1]) * ROLAND_CLUSTER_SIZE

    def image(entries, cut=None):
        data = bytearray(base)
        data[FAT_AREA_OFFSET:FAT_AREA_OFFSET + 2 * N] = struct.pack(f"<{N}H", *entries)
        if cut is not None:
            del data[cut:]
        return bytes(data)

    tables = []
    e = blank(); put_chain(e, [2, 3, 4]); put_chain(e, [7, 6, 10]); put_chain(e, [12])
    tables.append(("good", e, None))
    e2 = list(e); e2[N - 2] = FAT_VERSION_2_FLAG
    tables.append(("version 2", e2, None))
    e2 = list(e); e2[N - 1] = 7
    tables.append(("bad version", e2, None))
    e2 = list(e); e2[0] = 0x1234
    tables.append(("bad id", e2, None))
    e2 = list(e); e2[4] = 2
    tables.append(("loop", e2, None))
    e2 = list(e); e2[3] = FAT_ERROR_FLAG
    tables.append(("error", e2, None))
    e2 = list(e); e2[N - 9] = FAT_ERROR_FLAG; e2[N - 3] = FAT_ERROR_FLAG
    tables.append(("error outside the scan", e2, None))
    e2 = list(e); e2[N - 10] = FAT_ERROR_FLAG
    tables.append(("error on the last scanned entry", e2, None))
    tables.append(("short image", e, FAT_AREA_OFFSET + 2 * N))
    tables.append(("cut inside the table", e, FAT_AREA_OFFSET + 2 * N - 1))
    tables.append(("cut before the table", e, FAT_AREA_OFFSET - 5))
    for k in range(4):
        e2 = list(e)
        for _ in range(3):
            e2[rnd.randrange(2, 16)] = rnd.choice((0, 1, 0xfff7, 0xffff, rnd.randrange(2, 16)))
        tables.append((f"random damage {k}", e2, None))

    for label, entries, cut in tables:
        n_cases += 1
        data = image(entries, cut)
        seen = []
        for adapter in (ORIG, LIVE):
            stream = Recorder(data)
            top = Struct(Seek(FAT_AREA_OFFSET), "fat_area" / adapter)
            try:
                area = top.parse_stream(stream).fat_area
            except Exception as err:  # noqa: BLE001
                seen.append((describe_error(err), stream.trace))
                continue
            sub = area.fat.parent_stream
            out = [
                area.version, area.num_remaining_clusters, type(area.fat).__name__,
                type(sub).__name__, sub.substream is stream, sub.end_of_file, sub.offset,
                sub.position, area.fat.size,
                [(l.next, l.end) for l in area.fat.sector_links],
                sharing_pattern(area.fat.sector_links),
            ]
            for start in (2, 3, 7, 6, 12, 5, 0, 1, 15, N - 1):
                for skip in (0, 1):
                    try:
                        f = area.fat.get_file(start, skip)
                        out.append((start, skip, f.sector_list, f.read(3 * ROLAND_CLUSTER_SIZE + 7)))
                    except Exception as err:  # noqa: BLE001
                        out.append((start, skip, describe_error(err)))
            seen.append((out, stream.trace))
        if seen[0] != seen[1]:
            failures.append(f"stream {label}")
            print("MISMATCH stream", label)


def main():
    part_a()
    part_b()
    print(f"{n_cases} cases, {len(failures)} mismatches")
    return 1 if failures else 0


if __name__ == "__main__":
    sys.exit(main())
