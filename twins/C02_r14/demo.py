"""Equivalence demo for r14: smpl_extract/roland/s7xx/sample_entry.py
SampleEntryConstruct (mechanism 'index -> directory/parameter record
addressing').

Refactoring: the two anonymous address lambdas handed to Pointer() became the
named nested functions directory_address / parameter_address (with the product
bound to a local first), the wrapper `lambda this: new_index_expr(this)` in the
validator was eta-reduced to `new_index_expr`, and the `result` temporary was
replaced by a direct return.

An inline copy of the ORIGINAL factory is compared with the working-tree one:
  (1) parse results for every kind of index expression (constants, callables on
      the parent context, out-of-range / negative / non-int values) on a
      well-formed synthetic directory+parameter area and on random garbage,
  (2) the exact sequence of seek/read/tell calls on the shared stream,
  (3) exception type and message,
  (4) use through SampleEntryAdapter with a real RolandFileAllocationTable
      (the way PartialEntry builds it), comparing the produced SampleEntry
      fields and the bytes of its data stream,
  (5) precomputed addresses for a few indices.
Exit 0 when everything agrees, 1 otherwise.
"""
import io
import random
import struct
import sys

from construct.core import Computed
from construct.core import Construct
from construct.core import ExprValidator
from construct.core import Pointer
from construct.core import Struct
from construct.lib.containers import Container
from construct.lib.containers import ListContainer

from smpl_extract.roland.s7xx import sample_entry as se
from smpl_extract.roland.s7xx.data_types import DATA_FAT_OFFSET
from smpl_extract.roland.s7xx.data_types import FAT_NUM_ENTRIES
from smpl_extract.roland.s7xx.data_types import MAX_NUM_SAMPLE
from smpl_extract.roland.s7xx.data_types import ROLAND_CLUSTER_SIZE
from smpl_extract.roland.s7xx.data_types import SAMPLE_DIRECTORY_AREA_OFFSET
from smpl_extract.roland.s7xx.data_types import SAMPLE_DIRECTORY_ENTRY_SIZE
from smpl_extract.roland.s7xx.data_types import SAMPLE_PARAMETER_AREA_OFFSET
from smpl_extract.roland.s7xx.data_types import SAMPLE_PARAMETER_ENTRY_SIZE
from smpl_extract.roland.s7xx.directory_area import DirectoryEntryParser
from smpl_extract.roland.s7xx.fat import RolandFileAllocationTable
from smpl_extract.roland.s7xx.sample_entry import SampleEntryAdapter
from smpl_extract.roland.s7xx.sample_entry import SampleEntryConstruct
from smpl_extract.roland.s7xx.sample_entry import SampleParamEntryStruct
from smpl_extract.util.constructs import UnsizedConstruct
from smpl_extract.util.constructs import pass_expression_deeper
from smpl_extract.util.fat import SectorLink
from smpl_extract.util.fat import add_to_sector_links
from smpl_extract.util.stream import StreamOffset


# ---------------------------------------------------------------- original --
def OriginalSampleEntryConstruct(index_expr) -> Construct:
    new_index_expr = pass_expression_deeper(index_expr)

    result = UnsizedConstruct(Struct(
        ExprValidator(
            Computed(lambda this: new_index_expr(this)),
            lambda obj, ctx: obj < MAX_NUM_SAMPLE
        ),
        "index"     / Computed(new_index_expr),
        "directory" / Pointer(
            lambda this: \
                (SAMPLE_DIRECTORY_ENTRY_SIZE*new_index_expr(this)) \
                    + SAMPLE_DIRECTORY_AREA_OFFSET,
            DirectoryEntryParser
        ),
        "parameter" / Pointer(
            lambda this: \
                (SAMPLE_PARAMETER_ENTRY_SIZE*new_index_expr(this)) \
                + SAMPLE_PARAMETER_AREA_OFFSET,
            SampleParamEntryStruct
        )
    ))
    return result


class LoggingBytesIO(io.BytesIO):

    def __init__(self, data):
        super().__init__(data)
        self.log = []

    def seek(self, *a):
        r = super().seek(*a)
        self.log.append(("seek", a, r))
        return r

    def read(self, *a):
        r = super().read(*a)
        self.log.append(("read", a, len(r)))
        return r

    def tell(self):
        r = super().tell()
        self.log.append(("tell", r))
        return r


failures = 0
checks = 0


def plain(x):
    """Containers -> plain comparable python values (no stream objects)."""
    if isinstance(x, (Container, dict)):
        return {k: plain(v) for k, v in x.items()
                if not (isinstance(k, str) and k.startswith("_"))}
    if isinstance(x, (ListContainer, list, tuple)):
        return [plain(v) for v in x]
    if isinstance(x, (int, str, bytes, float, type(None))):
        return (type(x).__name__, x)
    return repr(x)


def run(f):
    try:
        return ("ok", plain(f()))
    except Exception as e:  # noqa
        return ("exc", type(e).__name__, str(e))


def check(a, b, what):
    global failures, checks
    checks += 1
    if a != b:
        failures += 1
        if failures < 20:
            print("MISMATCH", what, repr(a)[:300], repr(b)[:300])


rnd = random.Random(1402)
IMAGE_SIZE = SAMPLE_PARAMETER_AREA_OFFSET \
    + SAMPLE_PARAMETER_ENTRY_SIZE * MAX_NUM_SAMPLE + 0x40


def clean_image():
    """Random bytes, but every sample directory / parameter record gets an
    ASCII name so that most records decode."""
    buf = bytearray(rnd.randbytes(IMAGE_SIZE))
    for i in range(MAX_NUM_SAMPLE):
        d = SAMPLE_DIRECTORY_AREA_OFFSET + SAMPLE_DIRECTORY_ENTRY_SIZE * i
        buf[d:d + 16] = ("D%05d" % i).ljust(16).encode("ascii")
        buf[d + 16] = 0x44
        p = SAMPLE_PARAMETER_AREA_OFFSET + SAMPLE_PARAMETER_ENTRY_SIZE * i
        buf[p:p + 16] = ("P%05d" % i).ljust(16).encode("ascii")
        buf[p + 36] = i % 9                       # loop mode, 7/8 -> default
        buf[p + 44] = ((i % 2) << 4) | (i % 6)    # sample mode | frequency
        buf[p + 45] = 21 + (i % 88)               # original key
    return bytes(buf)


IMAGES = {
    "clean": clean_image(),
    "garbage": rnd.randbytes(IMAGE_SIZE),
    "short": clean_image()[: SAMPLE_PARAMETER_AREA_OFFSET + 100],
    "empty": b"",
}


def index_exprs():
    consts = [0, 1, 2, 3, 17, 255, 256, 4095, MAX_NUM_SAMPLE - 2,
              MAX_NUM_SAMPLE - 1, MAX_NUM_SAMPLE, MAX_NUM_SAMPLE + 1, 70000,
              -1, -2, -MAX_NUM_SAMPLE, True, False, 2.0, 1.5, None, "3",
              b"1", (1,), [2]]
    consts += [rnd.randrange(0, MAX_NUM_SAMPLE) for _ in range(60)]
    for c in consts:
        yield ("const", c), c, {}
    for c in consts:
        yield ("ctx", c), (lambda this: this.sel), {"sel": c}
    for c in consts[:12]:
        yield ("ctx-list", c), (lambda this: this.ptrs[this.k]), \
            {"ptrs": [5, c, 9], "k": 1}
    # an expression that raises, and one that needs a missing key
    yield ("raises",), (lambda this: 1 // 0), {}
    yield ("missing",), (lambda this: this.nope), {}
    yield ("counter",), None, {}


def make_counter():
    """Index expression with side effects: counts how often it is evaluated
    and returns a different index each time."""
    state = {"n": 0}

    def expr(this):
        state["n"] += 1
        return 10 + state["n"]
    return expr, state


# (1)(2)(3) raw construct parse -------------------------------------------
for image_name, image in IMAGES.items():
    for label, expr, ctx in index_exprs():
        for dir_version in (None, 1, 2):
            kw = dict(ctx)
            if dir_version is not None:
                kw["_dir_version"] = dir_version
            if label == ("counter",):
                expr_a, state_a = make_counter()
                expr_b, state_b = make_counter()
            else:
                expr_a = expr_b = expr
                state_a = state_b = None
            ca = run(lambda: OriginalSampleEntryConstruct(expr_a))
            cb = run(lambda: SampleEntryConstruct(expr_b))
            what = (image_name, label, dir_version)
            check(ca[0], cb[0], what + ("build",))
            a = OriginalSampleEntryConstruct(expr_a)
            b = SampleEntryConstruct(expr_b)
            sa = LoggingBytesIO(image)
            sb = LoggingBytesIO(image)
            sa.seek(7)
            sb.seek(7)
            ra = run(lambda: a.parse_stream(sa, **kw))
            rb = run(lambda: b.parse_stream(sb, **kw))
            check(ra, rb, what)
            check(sa.log, sb.log, what + ("log",))
            if state_a is not None:
                check(state_a, state_b, what + ("evaluations",))
            check(run(lambda: a.sizeof(**kw)), run(lambda: b.sizeof(**kw)),
                  what + ("sizeof",))

# nested inside a parent Struct with _index set (as SafeListConstruct does)
for image_name in ("clean", "garbage"):
    image = IMAGES[image_name]
    for idx in (0, 5, 100, MAX_NUM_SAMPLE - 1, MAX_NUM_SAMPLE):
        for list_index in (None, 0, 3):
            def wrap(factory):
                return Struct(
                    "sel" / Computed(idx),
                    "entry" / factory(lambda this: this.sel),
                )
            sa = LoggingBytesIO(image)
            sb = LoggingBytesIO(image)
            kw = {} if list_index is None else {"_index": list_index}
            ra = run(lambda: wrap(OriginalSampleEntryConstruct)
                     .parse_stream(sa, **kw))
            rb = run(lambda: wrap(SampleEntryConstruct).parse_stream(sb, **kw))
            what = ("nested", image_name, idx, list_index)
            check(ra, rb, what)
            check(sa.log, sb.log, what + ("log",))


# (4) through SampleEntryAdapter with a FAT -------------------------------
def build_fat(stream):
    links = [SectorLink()] * FAT_NUM_ENTRIES
    chains = [[2, 3, 4], [9, 7, 8, 5], [6], [12, 11, 10]]
    for c in chains:
        add_to_sector_links(c, links)
    data_stream = StreamOffset(stream, len(stream.getvalue()) - DATA_FAT_OFFSET,
                               DATA_FAT_OFFSET)
    return RolandFileAllocationTable(data_stream, FAT_NUM_ENTRIES, links)


def image_with_data():
    buf = bytearray(IMAGES["clean"])
    buf += rnd.randbytes(14 * ROLAND_CLUSTER_SIZE)
    starts = [2, 9, 12, 6, 2, 9]
    for i, start in enumerate(starts):
        d = SAMPLE_DIRECTORY_AREA_OFFSET + SAMPLE_DIRECTORY_ENTRY_SIZE * i
        struct.pack_into("<H", buf, d + 28, start)
        p = SAMPLE_PARAMETER_AREA_OFFSET + SAMPLE_PARAMETER_ENTRY_SIZE * i
        struct.pack_into("<H", buf, p + 40, i % 3)     # cluster_top
    return bytes(buf)


def entry_summary(entry):
    stream = entry._data_stream
    return {
        "fields": {k: repr(v) for k, v in vars(entry).items()
                   if k != "_data_stream"},
        "sector_list": list(stream.sector_list),
        "data": stream.read(None),
    }


data_image = image_with_data()
for idx in range(6):
    for with_fat in (True, False):
        results = []
        logs = []
        for factory in (OriginalSampleEntryConstruct, SampleEntryConstruct):
            s = LoggingBytesIO(data_image)
            ctx = {"fat": build_fat(s)} if with_fat else {}
            # the adapter looks the FAT up one context level above itself
            adapter = Struct("e" / SampleEntryAdapter(factory(idx)))
            results.append(run(lambda: entry_summary(
                adapter.parse_stream(s, **ctx).e)))
            logs.append(s.log)
        check(results[0], results[1], ("adapter", idx, with_fat))
        check(logs[0], logs[1], ("adapter log", idx, with_fat))
        if with_fat:
            check(results[1][0], "ok", ("adapter parsed", idx, results[1][1:]))


# (5) precomputed addresses -------------------------------------------------
for idx, d_addr, p_addr in ((0, 0xcd800, 0x255800), (1, 0xcd820, 0x255830),
                            (100, 0xcd800 + 3200, 0x255800 + 4800),
                            (8191, 0xcd800 + 0x3ffe0, 0x255800 + 0x5ffd0)):
    s = LoggingBytesIO(IMAGES["clean"])
    r = SampleEntryConstruct(idx).parse_stream(s)
    seeks = [e[1][0] for e in s.log if e[0] == "seek"]
    check(seeks, [d_addr, 0, p_addr, 0], ("expected seeks", idx))
    check(r.index, idx, ("expected index", idx))
    check(r.directory.name, ("D%05d" % idx).ljust(16), ("expected dir name", idx))
    check(r.parameter.name, ("P%05d" % idx).ljust(16), ("expected param name", idx))

print(f"{checks} checks, {failures} mismatches")
sys.exit(1 if failures else 0)
