"""Equivalence demo for r2: combine_stereo (smpl_extract/generalized/sample.py).

Compares the live function against an inline copy of the ORIGINAL
implementation. Exit 0 when everything agrees, 1 otherwise.
"""
import copy
import io
import random
import sys
from dataclasses import dataclass
from dataclasses import fields
from typing import Optional

from smpl_extract.data_streams import DataStream
from smpl_extract.data_streams import Endianess
from smpl_extract.data_streams import StreamEncoding
from smpl_extract.generalized import sample as sample_mod
from smpl_extract.generalized.sample import ChannelConfig
from smpl_extract.generalized.sample import LoopRegion
from smpl_extract.generalized.sample import LoopType
from smpl_extract.generalized.sample import Sample
from smpl_extract.midi import MidiNote


# --- inline copy of the ORIGINAL implementation --------------------------
def orig_combine_stereo(left: Sample, right: Sample, new_name: Optional[str] = None) -> Sample:
    dict_copy = dict(
        (field.name, copy.copy(getattr(left, field.name)))
        for field in fields(left)
    )
    result = Sample(**dict_copy)
    result.data_streams += right.data_streams
    result.channel_config = ChannelConfig.STEREO_SPLIT_STREAMS
    result.num_channels = len(result.data_streams)
    if new_name is not None:
        result._export_name = new_name

    return result
# -------------------------------------------------------------------------


@dataclass
class ExtraSample(Sample):
    extra: int = 7


class NotADataclass:
    name = "x"
    data_streams = []


def make_midi(rng):
    try:
        return MidiNote(rng.randint(0, 127))
    except Exception:  # noqa: BLE001
        try:
            return MidiNote.from_midi_byte(rng.randint(0, 127))  # type: ignore
        except Exception:  # noqa: BLE001
            return None


def make_sample(rng, tag):
    n_streams = rng.choice([0, 1, 1, 1, 2, 3])
    streams = []
    for k in range(n_streams):
        enc = StreamEncoding(
            rng.choice(list(Endianess)),
            rng.choice([1, 2, 4]),
            rng.choice([1, 1, 2]),
            rng.choice([True, False]),
        )
        streams.append(DataStream(io.BytesIO(bytes(rng.randrange(256) for _ in range(rng.randint(0, 9)))), enc))
    loops = [
        LoopRegion(rng.randint(0, 50), rng.randint(50, 99), rng.choice(list(LoopType)))
        for _ in range(rng.choice([0, 0, 1, 2]))
    ]
    parent = rng.choice([None, Sample(name="parent" + tag)])
    return Sample(
        name=rng.choice(["A-L", "A-R", "", "PIANO L", tag]),
        channel_config=rng.choice(list(ChannelConfig)),
        sample_rate=rng.choice([22050, 44100, 48000]),
        num_channels=rng.choice([1, 2]),
        num_audio_samples=rng.choice([None, 0, 17]),
        data_streams=streams,
        loop_regions=loops,
        midi_note=rng.choice([None, make_midi(rng)]),
        pitch_offset_semi=rng.choice([None, -3, 5]),
        pitch_offset_cents=rng.choice([None, -50, 25]),
        _parent=parent,
        _path=rng.choice([[], ["vol"], ["vol", "A-L"]]),
        _safe_name=rng.choice([None, "safe" + tag]),
        _export_name=rng.choice([None, "exp" + tag]),
    )


def ident(obj, universe):
    """Index of obj (by identity) in universe, or -1."""
    for i, u in enumerate(universe):
        if u is obj:
            return i
    return -1


def state(s, universe):
    if not isinstance(s, Sample):
        return type(s).__name__
    out = []
    for f in fields(s):
        v = getattr(s, f.name)
        if isinstance(v, (list, tuple)):
            out.append((f.name, type(v).__name__, ident(v, universe), tuple(ident(x, universe) for x in v), len(v)))
        elif isinstance(v, Sample):
            # repr would contain memory addresses of streams; identity is enough
            out.append((f.name, type(v).__name__, ident(v, universe), v.name))
        else:
            out.append((f.name, type(v).__name__, ident(v, universe), repr(v)))
    return tuple(out)


def run(func, seed, mode):
    rng = random.Random(seed)
    left = make_sample(rng, "l%d" % seed)
    right = left if mode == "same" else make_sample(rng, "r%d" % seed)
    new_name = rng.choice([None, "", "A", "stem %d" % seed])
    if mode == "extra":
        left = ExtraSample(**{f.name: getattr(left, f.name) for f in fields(left)})
    if mode == "notdc":
        left = NotADataclass()
    if mode == "right_tuple":
        right.data_streams = tuple(right.data_streams)  # type: ignore
    if mode == "right_none":
        right.data_streams = None  # type: ignore
    universe = []
    for s in (left, right):
        if isinstance(s, Sample):
            universe.append(s)
            universe.append(s.data_streams)
            universe.extend(s.data_streams or [])
            universe.append(s.loop_regions)
            universe.extend(s.loop_regions)
            universe.append(s._path)
            universe.append(s._parent)
            universe.append(s.midi_note)
    universe = [u for u in universe if u is not None]
    try:
        if new_name is None and rng.random() < 0.5:
            res = func(left, right)
        else:
            res = func(left, right, new_name)
        outcome = ("ok", type(res).__name__, state(res, universe),
                   res.export_name, res.safe_name,
                   ident(res, universe))
    except Exception as e:  # noqa: BLE001
        outcome = ("exc", type(e).__name__, str(e).replace("orig_combine_stereo", "combine_stereo"))
    return outcome, state(left, universe), state(right, universe)


def main():
    live = sample_mod.combine_stereo
    bad = 0
    total = 0
    modes = ["plain"] * 6 + ["same", "extra", "notdc", "right_tuple", "right_none"]
    for seed in range(4000):
        mode = modes[seed % len(modes)]
        got = run(live, seed, mode)
        want = run(orig_combine_stereo, seed, mode)
        total += 1
        if got != want:
            bad += 1
            if bad <= 5:
                print("MISMATCH seed", seed, mode)
                print("  live:", got)
                print("  orig:", want)

    # a couple of explicit postconditions on a pair of equal-length monos
    l = Sample(name="A-L", data_streams=[DataStream(io.BytesIO(b"\x01\x02"))], _path=["v", "A-L"])
    r = Sample(name="A-R", data_streams=[DataStream(io.BytesIO(b"\x03\x04"))], _path=["v", "A-R"])
    s = live(l, r, "A")
    ok = (
        s.data_streams[0] is l.data_streams[0]
        and s.data_streams[1] is r.data_streams[0]
        and s.data_streams is not l.data_streams
        and len(l.data_streams) == 1 and len(r.data_streams) == 1
        and s.num_channels == 2
        and s.channel_config == ChannelConfig.STEREO_SPLIT_STREAMS
        and s.export_name == "A" and s.name == "A-L"
        and l._export_name is None
    )
    if not ok:
        bad += 1
        print("postcondition check failed")

    print(f"{total} cases, {bad} mismatches")
    return 1 if bad else 0


if __name__ == "__main__":
    sys.exit(main())
