"""Equivalence demo for r3: actions.attempt_parse_cue_sheet.

Part A compares the (possibly refactored) function against an inline copy of
the original on many cue sheets (all-audio, mixed, data-only, malformed,
missing bin), including which files get opened, in which order and mode.
Part B runs the full export on all-audio sheets and checks the WAV payloads
against the expected bin slices (precomputed from the cue indices).
Exit 0 when everything agrees, 1 otherwise.
"""
import builtins
import contextlib
import io
import os
import random
import shutil
import sys
import tempfile
import wave

import smpl_extract.actions as actions
from smpl_extract.actions import attempt_parse_cue_sheet
from smpl_extract.actions import export_samples_to_wav
from smpl_extract.cdda.image import CompactDiskAudioImage
from smpl_extract.cdda.image import CompactDiskAudioImageAdapter
from smpl_extract.cuesheet import BadCueSheet
from smpl_extract.cuesheet import parse_cue_sheet


def original_attempt_parse_cue_sheet(lines, directory = ""):
    cue_sheet_file = parse_cue_sheet(lines)
    binary_track = next(
        (x for x in cue_sheet_file.tracks if x.mode.lower() != "audio"),
        None
    )
    if binary_track:
        bin_file_path = os.path.join(directory, cue_sheet_file.bin_file_name)
        bin_file_stream = open(bin_file_path, "rb")
        bin_image = actions.determine_image_type(bin_file_stream)
        return bin_image

    if all((x.mode.lower() == "audio" for x in cue_sheet_file.tracks)):
        bin_file_path = os.path.join(directory, cue_sheet_file.bin_file_name)
        bin_file_stream = open(bin_file_path, "rb")
        image = CompactDiskAudioImageAdapter.from_bin_cue(
            bin_file_stream,
            cue_sheet_file
        )
        return image

    raise BadCueSheet


_real_open = builtins.open


class OpenRecorder:
    def __init__(self):
        self.calls = []

    def __enter__(self):
        def recording_open(file, *args, **kwargs):
            self.calls.append((file, args, tuple(sorted(kwargs.items()))))
            return _real_open(file, *args, **kwargs)
        builtins.open = recording_open
        return self

    def __exit__(self, *exc):
        builtins.open = _real_open
        return False


def describe(result):
    if isinstance(result, CompactDiskAudioImage):
        tracks = []
        stream = None
        for t in result.tracks:
            ds = t._data_stream
            stream = ds.substream
            tracks.append((
                t.title, t.num_audio_samples, list(t.path),
                ds.offset, ds.end_of_file, ds.readall(),
            ))
        stream_desc = None
        if stream is not None:
            stream_desc = (stream.name, stream.mode, stream.closed)
            stream.close()
        return ("cdda", type(result).__name__, tracks, stream_desc)
    file = getattr(result, "file", None)
    file_desc = None
    if file is not None:
        inner = file
        chain = []
        while inner is not None:
            chain.append(type(inner).__name__)
            nxt = getattr(inner, "substream", None)
            if nxt is None:
                break
            inner = nxt
        file_desc = (
            chain,
            getattr(inner, "name", None),
            getattr(inner, "mode", None),
            getattr(result, "file_size", None),
        )
        try:
            inner.close()
        except Exception:  # noqa: BLE001
            pass
    return ("other", type(result).__name__, file_desc)


def run(fn, lines, directory, use_default_dir):
    with OpenRecorder() as rec:
        try:
            if use_default_dir:
                result = fn(list(lines))
            else:
                result = fn(list(lines), directory)
        except Exception as e:  # noqa: BLE001
            return ("exc", type(e), e.args, getattr(e, "filename", None),
                    rec.calls)
        desc = describe(result)
    return ("ok", desc, rec.calls)


failures = 0
checked = 0
kinds = {}


def check(lines, directory, label, use_default_dir=False):
    global failures, checked
    checked += 1
    got = run(attempt_parse_cue_sheet, lines, directory, use_default_dir)
    kind = got[1][:2] if got[0] == "ok" else got[1].__name__
    kinds[kind] = kinds.get(kind, 0) + 1
    want = run(original_attempt_parse_cue_sheet, lines, directory,
               use_default_dir)
    if got != want:
        failures += 1
        print("MISMATCH", label, got[:2], want[:2])


def msf(total):
    return "%02d:%02d:%02d" % (total // (60*75), (total // 75) % 60, total % 75)


def make_cue(rng, bin_name, starts, modes, indent=True):
    lines = [f'FILE "{bin_name}" BINARY\n']
    pad = "  " if indent else ""
    for k, (start, mode) in enumerate(zip(starts, modes)):
        lines.append(f"{pad}TRACK {k+1:02d} {mode}\n")
        if rng.random() < 0.5:
            lines.append(f'{pad}{pad}TITLE "Tune {k+1}"\n')
        if rng.random() < 0.2:
            lines.append(f'{pad}{pad}PERFORMER "x"\n')
        if start is None:
            continue
        if rng.random() < 0.3 and start > 0:
            lines.append(f"{pad}{pad}INDEX 01 {msf(start)}\n")
            lines.append(f"{pad}{pad}INDEX 02 {msf(start + 1)}\n")
        else:
            lines.append(f"{pad}{pad}INDEX 01 {msf(start)}\n")
        if rng.random() < 0.2:
            lines.append("\n")
    return lines


rng = random.Random(3003)
workdir = tempfile.mkdtemp(prefix="r3demo_")
old_cwd = os.getcwd()
try:
    # ---------------- Part A: against inline original ----------------
    bins = {}
    for name, size in [
        ("a.bin", 20*2352), ("b.bin", 20*2352 + 3), ("c.bin", 7*2352 + 2350),
        ("empty.bin", 0), ("tiny.bin", 5), ("sub dir.bin", 4*2352 + 1),
    ]:
        data = bytes(rng.randrange(256) for _ in range(size))
        bins[name] = data
        with open(os.path.join(workdir, name), "wb") as f:
            f.write(data)

    mode_sets = [
        ["AUDIO"], ["audio"], ["Audio"], ["MODE1/2352"], ["MODE2/2336"],
        ["AUDIO", "MODE1/2352"], ["MODE1/2352", "AUDIO"],
    ]
    names = list(bins) + ["missing.bin", "", "no/such/dir.bin"]
    for case in range(600):
        bin_name = rng.choice(names)
        n_tracks = rng.randrange(0, 7)
        pool = rng.choice(mode_sets)
        modes = [rng.choice(pool) for _ in range(n_tracks)]
        n_sectors = len(bins.get(bin_name, b"")) // 2352
        picks = sorted(rng.sample(range(0, n_sectors + 1),
                                  min(n_tracks, n_sectors + 1)))
        while len(picks) < n_tracks:
            picks.append(picks[-1] + 1 if picks else 0)
        starts = [None if rng.random() < 0.1 else p for p in picks]
        lines = make_cue(rng, bin_name, starts, modes,
                         indent=rng.random() < 0.8)
        check(lines, workdir, f"A{case}")
        check(lines, workdir + os.sep, f"A{case}/sep")

    # malformed sheets
    for lines in (
        [], [""], ["\n", "\n"], ["garbage\n"], ['FILE "a.bin" WAVE\n'],
        ['FILE "a.bin" BINARY\n'], ['FILE "a.bin" BINARY\n', "TRACK xx AUDIO\n"],
        ['FILE "a.bin" BINARY\n', "  INDEX 01 00:00:00\n"],
        ['file "a.bin" binary\n', "track 01 audio\n", "index 01 00:00:00\n"],
        ['FILE "a.bin" BINARY\n', "TRACK 01 AUDIO\n", "INDEX 01 00:00:00\n",
         'FILE "b.bin" BINARY\n', "TRACK 02 MODE1/2352\n"],
    ):
        check(lines, workdir, f"malformed {lines!r}")

    # default directory argument (relative to cwd)
    os.chdir(workdir)
    for case in range(50):
        bin_name = rng.choice(names)
        n_tracks = rng.randrange(0, 5)
        modes = [rng.choice(rng.choice(mode_sets)) for _ in range(n_tracks)]
        starts = list(range(n_tracks))
        lines = make_cue(rng, bin_name, starts, modes)
        check(lines, workdir, f"cwd{case}", use_default_dir=True)
    os.chdir(old_cwd)

    # ---------------- Part B: full export vs expected bin slices ------------
    for case in range(60):
        n_sectors = rng.randrange(1, 30)
        tail = rng.choice([0, 1, 2, 3, 4, 5, 2351])
        data = bytes(rng.randrange(256) for _ in range(n_sectors*2352 + tail))
        n_tracks = rng.randrange(1, min(6, n_sectors) + 1)
        starts = sorted(rng.sample(range(0, n_sectors), n_tracks))
        case_dir = os.path.join(workdir, f"case{case}")
        out_dir = os.path.join(case_dir, "out")
        os.makedirs(out_dir)
        with open(os.path.join(case_dir, "disc.bin"), "wb") as f:
            f.write(data)
        lines = [f'FILE "disc.bin" BINARY\n']
        for k, start in enumerate(starts):
            lines += [
                f"  TRACK {k+1:02d} AUDIO\n",
                f'    TITLE "Track {k+1:02d}"\n',
                f"    INDEX 01 {msf(start)}\n",
            ]
        cue_path = os.path.join(case_dir, "disc.cue")
        with open(cue_path, "w", encoding="ascii") as f:
            f.writelines(lines)

        with contextlib.redirect_stdout(io.StringIO()):
            export_samples_to_wav(cue_path, out_dir)

        expected = []
        for k, start in enumerate(starts):
            if k + 1 < len(starts):
                chunk = data[start*2352:starts[k+1]*2352]
            else:
                chunk = data[start*2352:]
                chunk = chunk[:len(chunk) // 4 * 4]
            expected.append(chunk)

        found = []
        for root, _, files in os.walk(out_dir):
            for name in files:
                found.append(os.path.join(root, name))
        found.sort()
        checked += 1
        got = []
        ok = True
        for path in found:
            with wave.open(path, "rb") as w:
                if (w.getnchannels(), w.getsampwidth(), w.getframerate()) \
                        != (2, 2, 44100):
                    ok = False
                got.append(w.readframes(w.getnframes()))
        # a zero-length last track may legitimately produce an empty file
        if got != expected or not ok:
            failures += 1
            print("MISMATCH export", case, [len(x) for x in got],
                  [len(x) for x in expected])
finally:
    builtins.open = _real_open
    os.chdir(old_cwd)
    shutil.rmtree(workdir, ignore_errors=True)

print("outcome kinds in part A:", kinds)
print(f"checked {checked} cases, {failures} mismatches")
sys.exit(1 if failures else 0)
