"""Equivalence demo for r8: actions.parse_text_file (open() hoisted out of the
with-header, mode passed by keyword, `text` temporary replaced by a direct
return inside the try, exception variable renamed, parentheses dropped).

Compares against an inline copy of the ORIGINAL: same return value, same
exception type/message/__cause__/__context__, same (normalised) open() call,
file closed afterwards in every case, and determine_image_type still reacts
to BadTextFile the same way.
"""
import builtins
import os
import random
import shutil
import sys
import tempfile

from smpl_extract import actions
from smpl_extract.actions import BadTextFile

CALLS = []
HANDLES = []


def recording_open(file, mode="r", buffering=-1, encoding=None, errors=None,
                   newline=None, closefd=True, opener=None):
    # normalised record: positional and keyword spellings look identical here
    CALLS.append((file, mode, buffering, encoding, errors, newline, closefd, opener))
    handle = builtins.open(file, mode, buffering, encoding, errors, newline, closefd, opener)
    HANDLES.append(handle)
    return handle


open = recording_open  # noqa: A001  - used by the inline original below
actions.open = recording_open  # module-global lookup wins over builtins


def original_parse_text_file(filename: str):
    with open(filename, "r", encoding="ascii") as file:
        try:
            text = file.readlines()
        except (UnicodeDecodeError) as e:
            raise BadTextFile from e
        return text


def describe_exc(e):
    if e is None:
        return None
    return (type(e).__name__, str(e), getattr(e, "errno", None),
            getattr(e, "start", None), getattr(e, "end", None), getattr(e, "reason", None))


def run(fn, filename):
    del CALLS[:]
    del HANDLES[:]
    try:
        out = ("ret", fn(filename))
    except BaseException as e:  # noqa
        out = ("exc", describe_exc(e), describe_exc(e.__cause__),
               describe_exc(e.__context__), e.__suppress_context__)
    closed = [h.closed for h in HANDLES]
    for h in HANDLES:
        h.close()
    return out, list(CALLS), closed


def main():
    rng = random.Random(8)
    tmp = tempfile.mkdtemp(prefix="r8demo")
    contents = {
        "empty": b"",
        "one": b"hello",
        "nl": b"\n",
        "lines": b"FILE \"a.bin\" BINARY\n  TRACK 01 MODE1/2352\n    INDEX 01 00:00:00\n",
        "crlf": b"a\r\nb\r\nc",
        "cr": b"a\rb\rc\r",
        "mixed": b"a\n\r\n\rb\n",
        "nul": b"a\x00b\n\x00",
        "x7f": b"\x7f\x7f\n",
        "x80": b"\x80",
        "late": b"ok line\n" * 3000 + b"\xe9\n",
        "latin": b"caf\xe9\n",
        "utf8": "déjà vu\n".encode("utf-8"),
        "bom": b"\xef\xbb\xbfFILE\n",
        "big": b"".join(b"line %d\n" % i for i in range(20000)),
        "mdf": b"\x00" + b"\xff" * 10 + b"\x00" + b"\x00\x02\x00\x01" + b"\x00" * 2336,
        "mdx": b"MEDIA DESCRIPTOR\x02\x01\xa9" + b" " * 25 + b"\xff" * 4 + b"\x00" * 16,
    }
    for i in range(60):
        n = rng.choice([1, 10, 100, 9000])
        hi = rng.random() < 0.4
        body = bytearray(rng.choice(b"abc \n\r\t0") for _ in range(n))
        if hi:
            body[rng.randrange(n)] = rng.randrange(0x80, 0x100)
        contents["rnd%d" % i] = bytes(body)

    names = []
    for key, data in contents.items():
        path = os.path.join(tmp, key + ".cue")
        with builtins.open(path, "wb") as f:
            f.write(data)
        names.append(path)
    names += [os.path.join(tmp, "does-not-exist"), tmp, "", os.path.join(tmp, "x\x00y"),
              os.fsencode(names[3]), os.fsencode(names[10]), None, 3.5, b"", ["x"]]

    checked = bad = 0
    for name in names:
        a = run(original_parse_text_file, name)
        b = run(actions.parse_text_file, name)
        checked += 1
        if a != b:
            bad += 1
            print("MISMATCH", name, a, b)
        if any(not c for c in a[2]) or any(not c for c in b[2]):
            bad += 1
            print("LEAKED HANDLE", name, a[2], b[2])

    # sanity: both polarities seen
    assert run(actions.parse_text_file, names[3])[0] == ("ret", contents["lines"].decode().splitlines(True))
    got = run(actions.parse_text_file, os.path.join(tmp, "latin.cue"))[0]
    assert got[0] == "exc" and got[1][0] == "BadTextFile" and got[2][0] == "UnicodeDecodeError", got

    # the caller's reaction: a non-ascii / non-cue file falls through to binary detection
    for key in ("latin", "x80", "lines", "empty"):
        path = os.path.join(tmp, key + ".cue")
        try:
            r = ("ret", type(actions.determine_image_type(path)).__name__)
        except BaseException as e:  # noqa
            r = ("exc", type(e).__name__)
        checked += 1
        # precomputed on the unmodified tree
        expected = {"latin": ("ret", "AkaiImageParser"), "x80": ("ret", "AkaiImageParser"),
                    "lines": ("exc", "FileNotFoundError"), "empty": ("ret", "AkaiImageParser")}
        if r != expected[key]:
            bad += 1
            print("MISMATCH determine_image_type", key, r)
        RESULTS.append((key, r))
    for h in HANDLES:
        h.close()
    shutil.rmtree(tmp, ignore_errors=True)

    print("checked", checked, "mismatches", bad)
    return 1 if bad else 0


RESULTS = []

if __name__ == "__main__":
    rc = main()
    print(RESULTS)
    sys.exit(rc)
