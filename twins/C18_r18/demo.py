"""r18 evidence: smpl_extract/midi.py, MidiNote.from_int_a0 (note number ->
(degree, sharp, octave)) behaves exactly like the original classmethod pasted
below: every integer in a wide range, bools, floats, numpy scalars, non-numeric
objects, a MidiNote subclass as `cls`; then from_akai_byte / from_midi_byte for
every byte value and the number -> note -> number round trip.
Exit 0 = all agree, 1 = difference.
"""
import dataclasses
import fractions
import sys
from typing import Dict
from typing import Tuple

import smpl_extract.midi as live
from smpl_extract.midi import AKAI_SAMPLE_A0
from smpl_extract.midi import MIDI_A0
from smpl_extract.midi import MidiNote
from smpl_extract.midi import NOTES_IN_OCTAVE
from smpl_extract.midi import ScaleDegree


# ---------------------------------------------------------------- ORIGINAL --
def orig_from_int_a0(cls, byte_in: int):
    scale_table: Dict[int, Tuple[ScaleDegree, bool]] = {
        0x00:   (ScaleDegree.A, False),
        0x01:   (ScaleDegree.A, True),
        0x02:   (ScaleDegree.B, False),
        0x03:   (ScaleDegree.C, False),
        0x04:   (ScaleDegree.C, True),
        0x05:   (ScaleDegree.D, False),
        0x06:   (ScaleDegree.D, True),
        0x07:   (ScaleDegree.E, False),
        0x08:   (ScaleDegree.F, False),
        0x09:   (ScaleDegree.F, True),
        0x0A:   (ScaleDegree.G, False),
        0x0B:   (ScaleDegree.G, True),
    }

    octave = byte_in // NOTES_IN_OCTAVE
    scale_degree_raw = byte_in % NOTES_IN_OCTAVE
    scale_degree, is_sharp = scale_table[scale_degree_raw]

    return cls(scale_degree, is_sharp, octave)


def orig_from_akai_byte(cls, byte_in: int):
    byte_normalized = byte_in - AKAI_SAMPLE_A0
    return orig_from_int_a0(cls, byte_normalized)


def orig_from_midi_byte(cls, byte_in: int):
    byte_normalized = byte_in - MIDI_A0
    return orig_from_int_a0(cls, byte_normalized)
# ------------------------------------------------------------ END ORIGINAL --


class LabelledNote(MidiNote):
    """A subclass, to check that `cls` is still what gets instantiated."""


class Recorder:
    """Not a MidiNote at all: records how it was called."""
    def __init__(self, *args, **kwargs):
        self.args = args
        self.kwargs = kwargs

    def __repr__(self):
        return f"Recorder({self.args!r}, {self.kwargs!r})"


def describe(value):
    if isinstance(value, MidiNote):
        fields = tuple(
            (f.name, type(getattr(value, f.name)).__name__,
             repr(getattr(value, f.name)))
            for f in dataclasses.fields(value)
        )
        return (type(value).__name__, fields, str(value), repr(value))
    return (type(value).__name__, repr(value))


def outcome(fn, *args):
    try:
        value = fn(*args)
    except BaseException as exc:  # noqa: B902
        return ("exc", type(exc), str(exc))
    return ("ok", describe(value))


failures = []
checked = 0


def compare(label, new_fn, old_fn, *args):
    global checked
    checked += 1
    got = outcome(new_fn, *args)
    want = outcome(old_fn, *args)
    if got != want:
        failures.append((label, args, got, want))


inputs = list(range(-600, 900))
inputs += [True, False, 2**31, -2**31 - 5, 2**64 + 7, -10**30]
inputs += [0.0, -0.0, 3.0, 3.5, 11.0, 11.999, 12.0, 25.0, -1.0, -13.0, 1e300,
           float("inf"), float("-inf"), float("nan")]
inputs += [fractions.Fraction(27, 1), fractions.Fraction(7, 2), complex(3, 0),
           None, "", "A", "%d", b"\x03", b"%d", (3,), [3], object]
try:
    import numpy as np
    inputs += [np.uint8(v) for v in range(256)]
    inputs += [np.int8(-5), np.int64(40), np.float32(4.0), np.float64(16.0),
               np.float64(2.5)]
except ImportError:
    pass

for cls in (MidiNote, LabelledNote, Recorder):
    new_fn = live.MidiNote.from_int_a0.__func__
    for value in inputs:
        compare("from_int_a0/" + cls.__name__, new_fn, orig_from_int_a0,
                cls, value)

compare("bound-classmethod", lambda v: MidiNote.from_int_a0(v),
        lambda v: orig_from_int_a0(MidiNote, v), 40)
compare("bound-subclass", lambda v: LabelledNote.from_int_a0(byte_in=v),
        lambda v: orig_from_int_a0(LabelledNote, byte_in=v), 41)

for byte in range(-64, 512):
    compare("from_akai_byte", MidiNote.from_akai_byte,
            lambda v: orig_from_akai_byte(MidiNote, v), byte)
    compare("from_midi_byte", MidiNote.from_midi_byte,
            lambda v: orig_from_midi_byte(MidiNote, v), byte)

# the promised round trip, for every byte value and both origins
for byte in range(256):
    checked += 2
    if MidiNote.from_akai_byte(byte).to_akai_byte() != byte:
        failures.append(("akai-round-trip", byte))
    if MidiNote.from_midi_byte(byte).to_midi_byte() != byte:
        failures.append(("midi-round-trip", byte))
for number in range(-240, 1200):
    checked += 1
    note = MidiNote.from_int_a0(number)
    if note.to_int_a0() != number:
        failures.append(("a0-round-trip", number, note))
    if 0 <= note.octave <= 9:
        checked += 1
        if MidiNote.from_string(note.to_string()) != note:
            failures.append(("text-round-trip", number, note))

# fixed expectations (independent of the pasted copy)
expected = {60: "C3", 21: "A0", 24: "C0", 69: "A4", 70: "A#4", 127: "G8",
            0: "C-2", 20: "G#-1"}
for byte, text in expected.items():
    checked += 1
    if str(MidiNote.from_midi_byte(byte)) != text:
        failures.append(("expected", byte, text,
                         str(MidiNote.from_midi_byte(byte))))

for failure in failures[:20]:
    print("MISMATCH", failure)
print(f"r18 demo: {checked} comparisons, {len(failures)} mismatches")
sys.exit(1 if failures else 0)
