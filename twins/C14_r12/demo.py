"""Equivalence demo for r12 (smpl_extract/roland/s7xx/sample_entry.py:
SampleEntryAdapter._decode_element, which turns the directory + parameter
record of one Roland S-7xx sample into a SampleEntry).

An inline copy of the ORIGINAL adapter is compared with the live one.

 A. direct: _decode_element with hand-made containers and contexts: no "_",
    "_" without "fat", "_" that is None / a list / a dict subclass whose
    look-ups are recorded, fat present; fats whose get_file raises; containers
    with missing attributes; parent paths that are lists / None / tuples.
    Compared: every dataclass field of the resulting SampleEntry (identity for
    parent and data stream), the log of context look-ups and fat calls,
    exception type and text.
 B. records: a sparse synthetic S-7xx image with sample directory and
    parameter records is parsed through Adapter(SampleEntryConstruct(index));
    for one sample EVERY byte of its directory record and of its parameter
    record is set to several values (every value for the type byte, loop mode,
    options and key bytes, and the first name byte), plus random multi-byte
    damage confined to the record, several indices incl. out-of-range ones.
    Compared as in A plus the trace of seek/read/tell on the image stream.

Exit 0 when everything agrees, 1 otherwise.
"""
import dataclasses
import io
import random
import struct
import sys
from typing import Any
from typing import Dict
from typing import cast

from construct.core import Pass
from construct.lib.containers import Container

import smpl_extract.roland.s7xx.sample_entry as sm
from smpl_extract.roland.s7xx.data_types import SAMPLE_DIRECTORY_AREA_OFFSET
from smpl_extract.roland.s7xx.data_types import SAMPLE_DIRECTORY_ENTRY_SIZE
from smpl_extract.roland.s7xx.data_types import SAMPLE_PARAMETER_AREA_OFFSET
from smpl_extract.roland.s7xx.data_types import SAMPLE_PARAMETER_ENTRY_SIZE
from smpl_extract.roland.s7xx.fat import RolandFileAllocationTable
from smpl_extract.roland.s7xx.sample_entry import SampleEntry
from smpl_extract.roland.s7xx.sample_entry import SampleEntryConstruct
from smpl_extract.roland.s7xx.sample_entry import SampleEntryContainer
from smpl_extract.roland.s7xx.sample_entry import SampleParamCommon
from smpl_extract.roland.s7xx.sample_entry import SampleParamOptionsSection
from smpl_extract.util.constructs import ChildInfo
from smpl_extract.util.constructs import ElementAdapter
from smpl_extract.util.dataclass import get_common_field_args
from smpl_extract.util.fat import FatNotPresent


# ---------------------------------------------------------------- original
class OrigSampleEntryAdapter(ElementAdapter):

    def _decode_element(
            self,
            obj,
            child_info: ChildInfo,
            context: Dict[str, Any],
            path: str
    ):
        del path  # unused

        container = cast(SampleEntryContainer, obj)

        parent = child_info.parent
        element_path = child_info.parent_path
        if "_" in context.keys() and "fat" in context["_"].keys():
            fat = cast(RolandFileAllocationTable, context["_"]["fat"])
        else:
            raise FatNotPresent

        name = container.directory.name
        sample_path = element_path + [name]

        data_stream = fat.get_file(
            container.directory.fat_entry,
            cluster_offset=container.parameter.cluster_top
        )

        common_args = get_common_field_args(
            SampleParamCommon,
            container.parameter
        )
        options_args = get_common_field_args(
            SampleParamOptionsSection,
            container.parameter.sample_options
        )

        result = SampleEntry(
            **common_args,
            **options_args,
            directory_name=container.directory.name,
            parameter_name=container.parameter.name,
            index=container.index,
            _data_stream=data_stream,
            _parent=parent,
            _path=sample_path
        )
        return result

    def _encode(self, obj, context, path):
        raise NotImplementedError


failures = []
checked = 0


def check(cond, msg):
    global checked
    checked += 1
    if not cond:
        failures.append(msg)


# ---------------------------------------------------------------- helpers
class FakeFat:
    def __init__(self, log, bad=()):
        self.log = log
        self.bad = set(bad)

    def get_file(self, *args, **kwargs):
        self.log.append(("get_file", args, sorted(kwargs.items())))
        if args and args[0] in self.bad:
            raise IndexError("no such chain %r" % (args[0],))
        return ("file", args, tuple(sorted(kwargs.items())))


class RecDict(dict):
    def __init__(self, log, tag, *a, **k):
        super().__init__(*a, **k)
        self.log = log
        self.tag = tag

    def keys(self):
        self.log.append((self.tag, "keys"))
        return super().keys()

    def __getitem__(self, key):
        self.log.append((self.tag, "get", key))
        return super().__getitem__(key)

    def __contains__(self, key):
        self.log.append((self.tag, "in", key))
        return super().__contains__(key)


class Parent:
    path = ["IMG", "PERF", "PATCH", "PARTIAL"]


def describe(entry, parent):
    if not isinstance(entry, SampleEntry):
        return ("not-a-sample-entry", type(entry))
    out = []
    for f in dataclasses.fields(entry):
        v = getattr(entry, f.name)
        if f.name == "_parent":
            v = ("parent-is", v is parent, type(v).__name__)
        out.append((f.name, type(v).__name__, v))
    out.append(("name", entry.name))
    out.append(("path", entry.path))
    return out


def good_parameter(**over):
    opts = Container(sample_mode=over.pop("sample_mode", "MONO"),
                     sampling_frequency=over.pop("sampling_frequency", 44100))
    d = dict(
        name="PARAM NAME", index=3,
        start_sample="ss", sustain_loop_start="sls", sustain_loop_end="sle",
        release_loop_start="rls", release_loop_end="rle", loop_mode="LM",
        sustain_loop_enable=1, sustain_loop_tune=2, release_loop_tune=3,
        cluster_top=0, num_clusters=5, sample_options=opts, original_key="C4",
    )
    d.update(over)
    return Container(**d)


def run_direct(cls, container_factory, context_kind, parent_path, bad=()):
    log = []
    fat = FakeFat(log, bad)
    parent = Parent()
    if context_kind == "no_":
        context = RecDict(log, "ctx", x=1)
    elif context_kind == "no_fat":
        context = RecDict(log, "ctx", _=RecDict(log, "up", other=1))
    elif context_kind == "fat_here_only":
        context = RecDict(log, "ctx", fat=fat)
    elif context_kind == "fat_here_and_empty_up":
        context = RecDict(log, "ctx", fat=fat, _=RecDict(log, "up"))
    elif context_kind == "up_none":
        context = RecDict(log, "ctx", _=None)
    elif context_kind == "up_list":
        context = RecDict(log, "ctx", _=["fat"])
    elif context_kind == "fat_none":
        context = RecDict(log, "ctx", _=RecDict(log, "up", fat=None))
    elif context_kind == "container":
        context = Container(_=Container(fat=fat))
    elif context_kind == "not_a_dict":
        context = None
    else:
        context = RecDict(log, "ctx", _=RecDict(log, "up", fat=fat), fat="decoy")
    child_info = ChildInfo(
        parent=parent, parent_path=parent_path, next_path=["unused"],
        routines={"r": len}, name="ignored"
    )
    adapter = cls(Pass)
    try:
        container = container_factory()
        entry = adapter._decode_element(container, child_info, context, "p")
    except BaseException as e:  # noqa: B902
        return ("raise", type(e), str(e), list(log))
    return ("ok", describe(entry, parent), list(log))


def part_a():
    shared_dir = Container(name="DIR NAME", fat_entry=7)
    factories = {
        "good": lambda: Container(index=3, directory=shared_dir,
                                  parameter=good_parameter()),
        "cluster_top": lambda: Container(index=0, directory=shared_dir,
                                         parameter=good_parameter(cluster_top=4)),
        "empty names": lambda: Container(
            index=8191, directory=Container(name="", fat_entry=0),
            parameter=good_parameter(name="")),
        "name None": lambda: Container(
            index=1, directory=Container(name=None, fat_entry=1),
            parameter=good_parameter()),
        "no directory": lambda: Container(index=3, parameter=good_parameter()),
        "no dir name": lambda: Container(index=3, directory=Container(fat_entry=2),
                                         parameter=good_parameter()),
        "no fat_entry": lambda: Container(index=3, directory=Container(name="N"),
                                          parameter=good_parameter()),
        "no parameter": lambda: Container(index=3, directory=shared_dir),
        "no index": lambda: Container(directory=shared_dir,
                                      parameter=good_parameter()),
        "no loop_mode": lambda: Container(
            index=3, directory=shared_dir,
            parameter=Container({k: v for k, v in good_parameter().items()
                                 if k != "loop_mode"})),
        "no options": lambda: Container(
            index=3, directory=shared_dir,
            parameter=Container({k: v for k, v in good_parameter().items()
                                 if k != "sample_options"})),
        "no frequency": lambda: Container(
            index=3, directory=shared_dir,
            parameter=good_parameter(sample_options=Container(sample_mode="M"))),
        "no param name": lambda: Container(
            index=3, directory=shared_dir,
            parameter=Container({k: v for k, v in good_parameter().items()
                                 if k != "name"})),
        "None": lambda: None,
    }
    kinds = ["ok", "no_", "no_fat", "fat_here_only", "fat_here_and_empty_up",
             "up_none", "up_list", "fat_none", "container", "not_a_dict"]
    for label, fac in factories.items():
        for kind in kinds:
            for parent_path in (["A", "B"], [], None, ("t",)):
                for bad in ((), (7,)):
                    a = run_direct(OrigSampleEntryAdapter, fac, kind, parent_path, bad)
                    b = run_direct(sm.SampleEntryAdapter, fac, kind, parent_path, bad)
                    check(a == b, f"direct {label}/{kind}/{parent_path}/{bad}: "
                                  f"{str(a)[:400]} != {str(b)[:400]}")
    # expected values independent of the copy
    res = run_direct(sm.SampleEntryAdapter, factories["cluster_top"], "ok", ["A"])
    check(res[0] == "ok", f"good decodes: {str(res)[:300]}")
    if res[0] == "ok":
        d = {k: v for k, _t, v in [x for x in res[1] if len(x) == 3]}
        check(d["directory_name"] == "DIR NAME" and d["parameter_name"] == "PARAM NAME",
              "names")
        check(d["_path"] == ["A", "DIR NAME"], "path")
        check(d["_data_stream"] == ("file", (7,), (("cluster_offset", 4),)),
              f"data stream {d['_data_stream']}")
        check(d["sampling_frequency"] == 44100 and d["loop_mode"] == "LM", "params")
        check(d["_parent"] == ("parent-is", True, "Parent"), "parent")
    for kind in ("no_", "no_fat", "fat_here_only", "fat_here_and_empty_up"):
        res = run_direct(sm.SampleEntryAdapter, factories["good"], kind, ["A"])
        check(res[0] == "raise" and res[1] is FatNotPresent, f"{kind} -> FatNotPresent")
    res = run_direct(sm.SampleEntryAdapter, factories["good"], "up_none", ["A"])
    check(res[0] == "raise" and res[1] is AttributeError, "None parent context")


# ---------------------------------------------------------------- part B
class TracingFile(io.BytesIO):

    def __init__(self, data):
        super().__init__(data)
        self.trace = []

    def tell(self):
        pos = super().tell()
        self.trace.append(("tell", pos))
        return pos

    def seek(self, *args):
        pos = super().seek(*args)
        self.trace.append(("seek", args, pos))
        return pos

    def read(self, *args):
        data = super().read(*args)
        self.trace.append(("read", args, len(data)))
        return data


def dir_record(name, ftype, fat_entry, nclusters):
    return name.ljust(16, "\0").encode("ascii") + bytes([ftype, 0]) \
        + struct.pack("<HHHIHH", 0, 0, 0, 0, fat_entry, nclusters)


def param_record(name, loop_mode, cluster_top, nclusters, options, key):
    rec = name.ljust(16, "\0").encode("ascii")
    for point in (0x100, 0x2000, 0x30FF, 0x4000, 0x5001):
        rec += struct.pack("<I", point)
    rec += bytes([loop_mode, 1, 2, 3]) + struct.pack("<HH", cluster_top, nclusters)
    rec += bytes([options, key, 0, 0])
    assert len(rec) == SAMPLE_PARAMETER_ENTRY_SIZE, len(rec)
    return rec


NUM = 6
IMAGE_SIZE = SAMPLE_PARAMETER_AREA_OFFSET + SAMPLE_PARAMETER_ENTRY_SIZE * (NUM + 2)


def make_image():
    buf = bytearray(IMAGE_SIZE)
    for i in range(NUM):
        d = dir_record("SAMPLE %d" % i, 0x44, 10 + i, 3)
        off = SAMPLE_DIRECTORY_AREA_OFFSET + i * SAMPLE_DIRECTORY_ENTRY_SIZE
        buf[off:off + len(d)] = d
        p = param_record("PARAM %d" % i, i % 7, i % 3, 3, 0x01 | ((i % 2) << 4), 60 + i)
        off = SAMPLE_PARAMETER_AREA_OFFSET + i * SAMPLE_PARAMETER_ENTRY_SIZE
        buf[off:off + len(p)] = p
    return buf


def run_record(cls, data, index, dir_version=None, with_fat=True, start=0):
    stream = TracingFile(bytes(data))
    stream.seek(start)
    stream.trace.clear()
    log = []
    fat = FakeFat(log, bad=(0xFFFF,))
    parent = Parent()
    up = Container(_elem_parent=parent, _elem_routines={})
    if with_fat:
        up["fat"] = fat
    if dir_version is not None:
        up["_dir_version"] = dir_version
    # what Construct.parse_stream / Struct._parse put into their contexts
    for c in (up,):
        c._params = up
        c._root = up
        c._parsing = True
        c._building = False
        c._sizing = False
        c._subcons = None
        c._io = stream
    context = Container(
        _=up, _index=index, _params=up, _root=up, _parsing=True,
        _building=False, _sizing=False, _subcons=None, _io=stream
    )
    adapter = cls(SampleEntryConstruct(index))
    try:
        entry = adapter._parse(stream, context, "demo")
    except BaseException as e:  # noqa: B902
        return ("raise", type(e), str(e), list(log), list(stream.trace))
    return ("ok", describe(entry, parent), list(log), list(stream.trace),
            io.BytesIO.tell(stream))


def compare_record(label, data, index, **kw):
    a = run_record(OrigSampleEntryAdapter, data, index, **kw)
    b = run_record(sm.SampleEntryAdapter, data, index, **kw)
    check(a == b, f"record {label} idx={index} {kw}: {str(a)[:400]} != {str(b)[:400]}")
    return b


def part_b():
    rng = random.Random(0xC14)
    good = make_image()
    for index in list(range(NUM + 2)) + [0x1FFF, 0x2000, 0x2001, -1]:
        for kw in ({}, {"dir_version": 2}, {"dir_version": 1}, {"with_fat": False},
                   {"start": 1234}):
            compare_record("good", good, index, **kw)
    compare_record("callable index", good, lambda this: 2)
    compare_record("truncated", good[:SAMPLE_PARAMETER_AREA_OFFSET + 10], 0)
    compare_record("truncated dir", good[:SAMPLE_DIRECTORY_AREA_OFFSET + 40], 1)
    compare_record("empty", b"", 0)

    target = 2
    doff = SAMPLE_DIRECTORY_AREA_OFFSET + target * SAMPLE_DIRECTORY_ENTRY_SIZE
    poff = SAMPLE_PARAMETER_AREA_OFFSET + target * SAMPLE_PARAMETER_ENTRY_SIZE
    few = (0x00, 0x01, 0x44, 0x7F, 0x80, 0xFF)
    full_dir = {0, 16, 28, 29}           # first name byte, type, fat entry
    full_par = {0, 36, 40, 41, 44, 45}   # name, loop mode, cluster top, options, key
    for off in range(SAMPLE_DIRECTORY_ENTRY_SIZE):
        for value in (range(256) if off in full_dir else few):
            d = bytearray(good)
            d[doff + off] = value
            for idx in ((target, target + 1) if value in few else (target,)):
                compare_record(f"dir[{off}]={value:#x}", d, idx)
    for off in range(SAMPLE_PARAMETER_ENTRY_SIZE):
        for value in (range(256) if off in full_par else few):
            d = bytearray(good)
            d[poff + off] = value
            for idx in ((target, target + 1) if value in few else (target,)):
                compare_record(f"par[{off}]={value:#x}", d, idx)
    for _ in range(400):
        d = bytearray(good)
        base, width = rng.choice([(doff, SAMPLE_DIRECTORY_ENTRY_SIZE),
                                  (poff, SAMPLE_PARAMETER_ENTRY_SIZE)])
        for _ in range(rng.randrange(2, 10)):
            d[base + rng.randrange(width)] = rng.getrandbits(8)
        compare_record("random record damage", d, target,
                       dir_version=rng.choice([None, 1, 2]))

    # expected values, independent of the inline copy
    res = run_record(sm.SampleEntryAdapter, good, 2)
    check(res[0] == "ok", f"good record parses: {str(res)[:300]}")
    if res[0] == "ok":
        d = {x[0]: x[-1] for x in res[1]}
        check(d["directory_name"] == "SAMPLE 2" and d["parameter_name"] == "PARAM 2",
              "record names")
        check(d["_path"] == Parent.path + ["SAMPLE 2"], "record path")
        check(d["_data_stream"] == ("file", (12,), (("cluster_offset", 2),)),
              f"record data stream {d['_data_stream']}")
        check(d["index"] == 2 and d["sampling_frequency"] == 44100, "record params")
        check(res[2] == [("get_file", (12,), [("cluster_offset", 2)])], "fat calls")
    res = run_record(sm.SampleEntryAdapter, good, 2, with_fat=False)
    check(res[0] == "raise" and res[1] is FatNotPresent, "record without fat")
    d = bytearray(good)
    d[doff] = 0xFF                      # non-ascii name byte
    res = run_record(sm.SampleEntryAdapter, d, 2)
    check(res[0] == "raise", "damaged name byte raises for that sample")
    res = run_record(sm.SampleEntryAdapter, d, 3)
    check(res[0] == "ok" and {x[0]: x[-1] for x in res[1]}["directory_name"] == "SAMPLE 3",
          "the neighbour is unaffected")


def main():
    part_a()
    part_b()
    print(f"{checked} checks, {len(failures)} failures")
    for msg in failures[:15]:
        print("FAIL:", msg)
    return 1 if failures else 0


if __name__ == "__main__":
    sys.exit(main())
