"""Equivalence demo for r2: AkaiImageParser._sanitize_string.

1. Calls the live method and an inline copy of the ORIGINAL on a large set of
   strings (plus non-str values) and compares results / exceptions.
2. Resolves many paths on a synthetic AKAI-shaped tree through
   Traversable.parse_path, once with the live normalisation and once with the
   original, and compares the outcome.
Exit status 0 = everything agrees, 1 = a difference was found.
"""
from dataclasses import dataclass
from io import BytesIO
import itertools
import random
import sys

from smpl_extract.akai.image import AkaiImageParser
from smpl_extract.base import ElementTypes
from smpl_extract.elements import LeafElement
from smpl_extract.structural import Traversable


# ---------------------------------------------------------------------------
# verbatim copy of the ORIGINAL implementation
# ---------------------------------------------------------------------------
def sanitize_original(self, input_str: str):
    result = input_str.upper().strip()
    if len(result) > 0 and result[-1] == ":":
        result = result[:-1]
    return result


# ---------------------------------------------------------------------------
# synthetic AKAI-shaped tree
# ---------------------------------------------------------------------------
@dataclass
class Leaf(LeafElement):
    name: str = ""
    type_name: str = "S1000 Sample"
    type_id = ElementTypes.SampleEntry


class Dir(Traversable):
    def __init__(self, name, type_name, spec, routines, path, parent):
        self.name = name
        self._spec = spec
        super().__init__(self._realize, routines, path, parent, type_name)

    def _realize(self, context):
        result = []
        for name, sub in self._spec:
            if sub is None:
                child = Leaf(name=name)
                child._path = self.path + [name]
                child._parent = self
            else:
                child = Dir(name, "Volume", sub, context["_elem_routines"],
                            self.path + [name], self)
            result.append(child)
        return result


VOLUME = [
    ("KICK  -L", None), ("kick  -l", None), ("SNARE:", None), (":", None),
    ("::", None), ("A:B", None), ("", None), (" PAD ", None), ("x: ", None),
    ("\u00e4\u00f6\u00fc\u00df", None), ("\ufb01le", None), ("\u01c5", None),
]
PARTITIONS = [
    ("A", [("VOLUME 001", VOLUME), ("volume 001", []), ("VOL:", VOLUME)]),
    ("B", []),
    ("C", [(":", [("deep:", None)])]),
]


class FakeAkaiImage(AkaiImageParser):
    """AkaiImageParser with synthetic partitions instead of parsed ones."""

    def __init__(self, use_routines):
        super().__init__(BytesIO(b""))
        self._routines = {}
        if use_routines:
            self.set_routines({
                "make_safe_names": self.make_safe_names_routine,
                "make_export_names": self.make_export_names_routine,
            })
        self._cache = None

    @property
    def children(self):
        if self._cache is None:
            children = [
                Dir(name, "Partition", spec, self._routines, [name], self)
                for name, spec in PARTITIONS
            ]
            for routine in self._routines.values():
                children = routine(children)
            self._cache = children
        return self._cache


class FakeAkaiImageOriginal(FakeAkaiImage):
    _sanitize_string = sanitize_original


def all_nodes(node, prefix=()):
    if isinstance(node, Traversable):
        for child in node.children:
            here = prefix + (child.safe_name,)
            yield here
            yield from all_nodes(child, here)


def build_strings():
    strings = set()
    atoms = ["", " ", ":", "a", "A", "b", "\t", "\n", "::", "x:", ": ", " :",
             "\u00df", "\u00e4", "\ufb01", "\u01c5", "\u0131", "\u00a0",
             "\u3000", "\u2028", "\x1c", "\x00", "\u97f3", "0", "-", "."]
    for n in range(0, 4):
        for combo in itertools.product(atoms, repeat=n):
            strings.add("".join(combo))
            if len(strings) > 20000:
                break
    rng = random.Random(1010)
    for _ in range(5000):
        n = rng.randint(0, 12)
        strings.add("".join(
            chr(rng.choice([rng.randint(0, 0x7f), rng.randint(0, 0x2fff), 0x3a, 0x20]))
            for _ in range(n)
        ))
    for cp in range(0, 0x3100):
        strings.add(chr(cp))
        strings.add(chr(cp) + ":")
        strings.add(":" + chr(cp))
        strings.add(" " + chr(cp) + ": ")
    return sorted(strings)


def outcome(func, *args):
    try:
        value = func(*args)
    except BaseException as e:  # noqa
        return ("raise", type(e).__name__, str(e))
    return ("ok", type(value).__name__, value)


def resolve(image, path):
    try:
        node = image.parse_path(path)
    except BaseException as e:  # noqa
        return ("raise", type(e).__name__, str(e))
    return ("ok", node is image, node.type_name, node.safe_name, tuple(node.path))


def main():
    mismatches = 0
    checked = 0

    image = FakeAkaiImage(True)
    live = AkaiImageParser._sanitize_string
    strings = build_strings()
    odd = [None, 0, 1.5, b"", b":", b"a:", b" a: ", bytearray(b"x:"), [], [":"],
           (":",), {"a": 1}, object()]
    for value in strings + odd:
        checked += 1
        got = outcome(live, image, value)
        expected = outcome(sanitize_original, image, value)
        if got != expected:
            mismatches += 1
            if mismatches <= 10:
                print("MISMATCH", repr(value), got, expected)

    # end to end through parse_path
    for use_routines in (True, False):
        new_image = FakeAkaiImage(use_routines)
        old_image = FakeAkaiImageOriginal(use_routines)
        paths = set()
        for components in all_nodes(new_image):
            for sep in ("/", "\\"):
                joined = sep.join(components)
                paths.update([
                    joined, joined + sep, joined.lower(), joined.upper(),
                    joined + ":", joined + "::", " " + joined + " ",
                    sep.join(c + ":" for c in components),
                    sep.join(" " + c.lower() + ": " for c in components),
                    components[0] + ":" + sep + sep.join(components[1:]),
                    joined[:-1], joined + sep + ":", joined + sep + "nope",
                ])
        paths.update(["", ":", "::", " : ", "A", "a", "A:", "a:", "A::", "D",
                      "D:", "/", ":/", "A:/:", "C/:", "C/::", "C:/:/deep",
                      "c:\\:\\DEEP:", "A:VOLUME 001", "A/VOL", "A/VOL:/SNARE"])
        for path in sorted(paths):
            checked += 1
            got = resolve(new_image, path)
            expected = resolve(old_image, path)
            if got != expected:
                mismatches += 1
                if mismatches <= 10:
                    print("PATH MISMATCH", use_routines, repr(path), got, expected)

    print(f"checked {checked} cases, {mismatches} mismatches")
    return 1 if mismatches else 0


if __name__ == "__main__":
    sys.exit(main())
