"""Equivalence demo for r9: structural.Image.sanitize_names_general
(grouping via dict.setdefault, single-element special case removed by peeling
the first element of each group out of the counting loop) versus an inline copy
of the ORIGINAL implementation.  Both are driven with a recording f_sanitize /
f_set so that the order of every call is compared too, and through the two
public routines make_safe_names_routine / make_export_names_routine.
Exit 0 when all inputs agree, 1 otherwise.
"""
import itertools
import random
import sys
from typing import Dict
from typing import List

from smpl_extract.base import ElementTypes
from smpl_extract.structural import CouldNotDetermineName
from smpl_extract.structural import Image


def original_sanitize_names_general(self, elements, f_sanitize, f_set):
    candidate_names: Dict[str, List] = {}
    for element in elements:
        is_file = element.type_id != ElementTypes.DirectoryEntry
        candidate_name = f_sanitize(element.name, is_file)

        if candidate_name not in candidate_names.keys():
            candidate_names[candidate_name] = []
        candidate_names[candidate_name].append(element)

    assigned_names = set()  # as in the tree after the numbering fix
    for name, subelements in candidate_names.items():
        if len(subelements) == 1:
            element = subelements[0]
            f_set(element, name)
            continue

        i = 0
        for element in subelements:
            i += 1
            if i > 1:
                next_name = self._add_count_to_name(name, i)
                j = 0
                while (next_name in candidate_names.keys() or next_name in assigned_names):
                    i += 1
                    j += 1
                    next_name = self._add_count_to_name(name, i)
                    if j > len(candidate_names.keys()):
                        # This should never(?) happen
                        raise CouldNotDetermineName(
                            "Unable to determine proper (sanitized) "
                            f"name for {element.name}. Too many name "
                            "collisions."
                        )
            else:
                next_name = name
            f_set(element, next_name)
            assigned_names.add(next_name)

    result = elements
    return result


class Elem:
    def __init__(self, name, type_id, idx):
        self.name = name
        self.type_id = type_id
        self.idx = idx
        self._safe_name = None
        self._export_name = None


class EvilImage(Image):
    """_add_count_to_name never leaves the set of taken names -> forces the
    CouldNotDetermineName branch."""
    def _add_count_to_name(self, name, count):
        return name


def make_image(cls=Image):
    return cls(lambda ctx: [])


def make_elements(names, rnd):
    out = []
    for idx, n in enumerate(names):
        if isinstance(n, tuple):
            n, tid = n
        else:
            tid = rnd.choice([
                ElementTypes.SampleEntry, ElementTypes.SampleEntry,
                ElementTypes.DirectoryEntry, ElementTypes.ProgramEntry,
            ])
        out.append(Elem(n, tid, idx))
    return out


def run(fn, image, names, seed, mode):
    rnd = random.Random(seed)
    elements = make_elements(names, rnd)
    log = []

    if mode == "safe":
        base_sanitize = image.make_safe_name
    elif mode == "export":
        base_sanitize = image.make_export_name
    elif mode == "ident":
        base_sanitize = lambda n, is_file=True: n
    elif mode == "const":
        base_sanitize = lambda n, is_file=True: "X -L"
    elif mode == "unhashable":
        base_sanitize = lambda n, is_file=True: [n]
    else:
        raise AssertionError(mode)

    def f_sanitize(name, is_file):
        log.append(("sanitize", name, is_file))
        return base_sanitize(name, is_file)

    def f_set(element, name):
        log.append(("set", element.idx, name))
        element._export_name = name

    try:
        res = fn(image, elements, f_sanitize, f_set)
        outcome = ("ok", res is elements, [e.idx for e in res],
                   [e._export_name for e in res])
    except Exception as e:
        outcome = ("exc", type(e).__name__, str(e))
    return outcome, log


def run_public(image, names, seed, which, use_original):
    rnd = random.Random(seed)
    elements = make_elements(names, rnd)
    cls = type(image)
    saved = cls.sanitize_names_general
    if use_original:
        cls.sanitize_names_general = original_sanitize_names_general
    try:
        try:
            res = getattr(image, which)(elements)
            outcome = ("ok", res is elements,
                       [(e.idx, e._safe_name, e._export_name) for e in res])
        except Exception as e:
            outcome = ("exc", type(e).__name__, str(e))
    finally:
        cls.sanitize_names_general = saved
    return outcome


FIXED = [
    [],
    ["A"],
    ["A", "A"],
    ["A", "A", "A"],
    ["A", "A", "A (2)"],
    ["A", "A (2)", "A"],
    ["A (2)", "A", "A", "A (3)", "A"],
    ["PIANO -L", "PIANO -R"],
    ["PIANO -L", "PIANO -L", "PIANO -R", "PIANO -R"],
    ["PIANO -L", "PIANO (2) L", "PIANO -L"],
    ["PIANO L", "PIANO-L", "PIANO  -L", "PIANO L ", "PIANO L"],
    ["STR L", "STR L", "STR (2) L", "STR (3) L", "STR L"],
    ["", "", ""],
    [" ", "  ", "."],
    ["a'b", "ab", "a\"b", "a`b"],
    ["x/y", "x y", "x\\y", "x:y", "x  y"],
    ["L", "R", "L", "-L", "- L", " -L"],
    [("D", ElementTypes.DirectoryEntry), ("D", ElementTypes.DirectoryEntry),
     ("D.", ElementTypes.DirectoryEntry), ("D-", ElementTypes.SampleEntry),
     ("D-", ElementTypes.DirectoryEntry)],
    ["S%d" % (i % 3) for i in range(12)],
    ["S"] * 9 + ["S (%d)" % i for i in range(2, 8)],
]

ALPHABET = ["A", "B", "A -L", "A -R", "A L", "A-R", "A (2)", "A (3)",
            "A (2) L", "A (2) R", "B (2)", "", " ", "A'", "A.", "#", "A:"]


def main():
    failures = 0
    checked = 0
    rnd = random.Random(20240905)

    cases = [list(c) for c in FIXED]
    for n in (1, 2, 3):
        for combo in itertools.product(ALPHABET[:9], repeat=n):
            cases.append(list(combo))
    for _ in range(1500):
        k = rnd.randint(0, 10)
        cases.append([rnd.choice(ALPHABET) for _ in range(k)])

    plain = make_image()
    evil = make_image(EvilImage)

    for ci, names in enumerate(cases):
        for mode in ("safe", "export", "ident", "const", "unhashable"):
            for image in (plain, evil):
                if image is evil and mode not in ("ident", "const"):
                    continue
                a = run(original_sanitize_names_general, image, names, ci, mode)
                b = run(Image.sanitize_names_general, image, names, ci, mode)
                checked += 1
                if a != b:
                    failures += 1
                    if failures <= 5:
                        print("MISMATCH", mode, type(image).__name__, names)
                        print("  original:", a)
                        print("  current :", b)
        for which in ("make_safe_names_routine", "make_export_names_routine"):
            a = run_public(plain, names, ci, which, True)
            b = run_public(plain, names, ci, which, False)
            checked += 1
            if a != b:
                failures += 1
                if failures <= 5:
                    print("MISMATCH", which, names)
                    print("  original:", a)
                    print("  current :", b)

    # make sure the error branch was really exercised
    probe, _ = run(Image.sanitize_names_general, evil, ["A", "A"], 0, "ident")
    if probe[0] != "exc" or probe[1] != "CouldNotDetermineName":
        print("error branch not exercised:", probe)
        failures += 1

    print("checked %d runs, %d mismatches" % (checked, failures))
    return 1 if failures else 0


if __name__ == "__main__":
    sys.exit(main())
