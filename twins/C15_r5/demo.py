"""Equivalence demo for r5: smpl_extract.transcoder.decode_frame.

Compares the (possibly refactored) decode_frame against an inline copy of
the ORIGINAL implementation on many inputs, including short reads, empty
streams, mis-sized buffers, erroring streams, and whole-pipeline runs.
Exit 0 when everything agrees, 1 otherwise.
"""
from io import BytesIO
import random
import sys
from typing import List

import numpy as np

from smpl_extract.data_streams import DataStream
from smpl_extract.data_streams import Endianess
from smpl_extract.data_streams import StreamEncoding
from smpl_extract import transcoder
from smpl_extract.transcoder import resize_buffer
from smpl_extract.util.stream import SectorReadError


# --------------------------------------------------------------------------
# ORIGINAL implementation (verbatim copy)
# --------------------------------------------------------------------------
def decode_frame_original(
        streams: List[DataStream],
        buffer_sizes: List[int]
) -> List[np.ndarray]:

    channels: List[np.ndarray] = []

    for stream, size in zip(streams, buffer_sizes):
        dtype = stream.encoding.dtype
        num_channels = max(1, stream.encoding.num_interleaved_channels)
        buffer = stream.stream.read(size)
        buffer = resize_buffer(buffer, stream.frame_size)

        if buffer is None or len(buffer) <= 0:
            for i in range(num_channels):
                channels.append(np.zeros(0, dtype=dtype))
            continue

        samples_interleaved: np.ndarray = np.frombuffer(buffer, dtype=dtype)
        samples = [samples_interleaved]
        if num_channels > 1:
            samples_arr = samples_interleaved.reshape((-1, num_channels)).T
            samples = list(samples_arr)

        channels += samples

    return channels


# --------------------------------------------------------------------------
# Instrumented streams
# --------------------------------------------------------------------------
class LoggedStream:
    """Bytes stream that logs every call and can fail after N bytes."""

    def __init__(self, name, data, log, fail_at=None, short_at=None):
        self.name = name
        self.data = data
        self.pos = 0
        self.log = log
        self.fail_at = fail_at
        self.short_at = short_at

    def read(self, size):
        self.log.append((self.name, "read", size, self.pos))
        end = self.pos + size
        if self.fail_at is not None and end > self.fail_at:
            raise SectorReadError("short sector")
        if self.short_at is not None:
            end = min(end, max(self.short_at, self.pos))
        result = self.data[self.pos:end]
        self.pos += len(result)
        return result

    def seek(self, offset, whence=0):
        self.log.append((self.name, "seek", offset, whence))
        if whence == 0:
            self.pos = offset
        elif whence == 1:
            self.pos += offset
        else:
            self.pos = len(self.data) + offset
        return self.pos

    def tell(self):
        return self.pos


def run(f, streams_factory, sizes, n_calls):
    log = []
    streams = streams_factory(log)
    outcomes = []
    for _ in range(n_calls):
        try:
            res = f(streams, sizes)
        except BaseException as e:  # noqa
            outcomes.append(("exc", type(e), str(e)))
            continue
        outcomes.append(("ok", [
            (type(c), c.dtype.str, c.shape, c.tobytes(),
             c.flags["C_CONTIGUOUS"], c.flags["WRITEABLE"])
            for c in res
        ], type(res)))
    return outcomes, log


failures = 0
checks = 0


def compare(streams_factory, sizes, n_calls, label):
    global failures, checks
    a = run(decode_frame_original, streams_factory, sizes, n_calls)
    b = run(transcoder.decode_frame, streams_factory, sizes, n_calls)
    checks += 1
    if a != b:
        failures += 1
        print("MISMATCH", label)
        print("  original  :", a)
        print("  refactored:", b)


rnd = random.Random(1505)


def make_factory(specs):
    """specs: list of (data, encoding, fail_at, short_at)."""
    def factory(log):
        return [
            DataStream(
                LoggedStream("s%d" % i, data, log, fail_at, short_at),
                enc
            )
            for i, (data, enc, fail_at, short_at) in enumerate(specs)
        ]
    return factory


encodings = [
    StreamEncoding(endianess=e, sample_width=w, num_interleaved_channels=c,
                   is_signed=s)
    for e in (Endianess.LITTLE, Endianess.BIG)
    for w in (1, 2, 3, 4, 8)
    for c in (0, 1, 2, 3)
    for s in (True, False)
]

# 1. systematic single-stream sweep
for enc in encodings:
    for data_len in (0, 1, 2, 3, 5, 8, 16, 23, 64):
        data = bytes(rnd.randrange(256) for _ in range(data_len))
        for size in (0, 1, 2, 3, 4, 6, 8, 16, 24, 100):
            compare(make_factory([(data, enc, None, None)]), [size], 4,
                    ("single", enc, data_len, size))

# 2. random multi-stream mixes with failures / short reads
for trial in range(1500):
    n = rnd.randrange(0, 4)
    specs = []
    sizes = []
    for _ in range(n):
        enc = rnd.choice(encodings)
        data_len = rnd.choice([0, 1, 4, 7, 16, 31, 32, 33, 100])
        data = bytes(rnd.randrange(256) for _ in range(data_len))
        fail_at = rnd.choice([None, None, 0, 3, 8, 16, 30])
        short_at = rnd.choice([None, None, 0, 5, 12, 17])
        specs.append((data, enc, fail_at, short_at))
        sizes.append(rnd.choice([0, 1, 2, 4, 6, 8, 12, 16, 48]))
    # sometimes mismatched list lengths (zip truncates)
    if rnd.random() < 0.2:
        sizes = sizes[:-1] if sizes else sizes
    if rnd.random() < 0.1:
        sizes = sizes + [4]
    compare(make_factory(specs), sizes, 5, ("multi", trial))


# 3. stream returning None / bytearray / memoryview
class OddStream:
    def __init__(self, values, log):
        self.values = list(values)
        self.log = log

    def read(self, size):
        self.log.append(("odd", size))
        return self.values.pop(0)


for values in (
        [None],
        [bytearray(b"\x01\x02\x03\x04"), bytearray()],
        [memoryview(b"\x01\x02\x03\x04\x05"), b""],
        [b"", b"\x01\x02"],
):
    for enc in (StreamEncoding(), StreamEncoding(sample_width=2),
                StreamEncoding(sample_width=2, num_interleaved_channels=2)):
        def factory(log, values=values, enc=enc):
            return [DataStream(OddStream(values, log), enc)]
        compare(factory, [4], len(values), ("odd", values, enc))


# 4. whole pipeline (make_transcoder -> PipelineTranscoder) output bytes
def pipeline_bytes(decode_impl, specs, dest):
    log = []
    streams = make_factory(specs)(log)
    saved = transcoder.decode_frame
    transcoder.decode_frame = decode_impl
    try:
        try:
            t = transcoder.make_transcoder(streams, dest)
            out = [bytes(x) for x in t]
        except BaseException as e:  # noqa
            return ("exc", type(e), str(e)), log
    finally:
        transcoder.decode_frame = saved
    return ("ok", out), log


current_impl = transcoder.decode_frame
for trial in range(300):
    width = rnd.choice([1, 2, 4])
    layout = rnd.choice(["mono_be", "split", "inter_be", "three"])
    length = rnd.choice([0, 1, 2, 100, 4096, 4097, 9000])
    if layout == "mono_be":
        encs = [StreamEncoding(Endianess.BIG, width, 1)]
    elif layout == "split":
        encs = [StreamEncoding(Endianess.LITTLE, width, 1)] * 2
    elif layout == "inter_be":
        encs = [StreamEncoding(Endianess.BIG, width, 2)]
    else:
        encs = [StreamEncoding(Endianess.LITTLE, width, 2),
                StreamEncoding(Endianess.BIG, width, 1)]
    specs = []
    for enc in encs:
        n = length + rnd.choice([0, 0, 1, 5])
        data = bytes(rnd.randrange(256) for _ in range(n))
        fail_at = rnd.choice([None, None, None, n // 2, n - 1 if n else 0])
        specs.append((data, enc, fail_at, None))
    total = sum(max(1, e.num_interleaved_channels) for e in encs)
    dest = StreamEncoding(Endianess.LITTLE, width, total)
    a = pipeline_bytes(decode_frame_original, specs, dest)
    b = pipeline_bytes(current_impl, specs, dest)
    checks += 1
    if a != b:
        failures += 1
        print("MISMATCH pipeline", trial, layout, width, length)

print("checks: %d  failures: %d" % (checks, failures))
sys.exit(1 if failures else 0)
