"""Equivalence demo for r3 (parse_cue_sheet FILE scan: `if match:` body turned
into a negated guard clause with `continue`, `len(x)` / `len(x) <= 0` spelled as
`len(x) > 0` / `len(x) == 0`, temporaries `match_result` / `result` inlined).

Compares parse_cue_sheet (result, exception type+args, and what is left in the
caller's list) against an inline copy of the ORIGINAL implementation, on
canonical sheets x cosmetic transformations and on sheets with zero, one or
several FILE lines in odd places.  Exit 0 = all agree.
"""
import copy
import itertools
import random
import re
import sys
from dataclasses import dataclass, field
from typing import List, Optional, Tuple

import smpl_extract.cuesheet as new


# --------------------------------------------------------------------------
# inline copy of the ORIGINAL implementation
# --------------------------------------------------------------------------
class OBadCueSheet(Exception): pass


def o_get_nonempty_entry(lines: List[str]) -> Tuple[str, List[str]]:
    text = ""
    while len(lines):
        text = lines.pop(0).strip()
        if len(text):
            break
    return text, lines


@dataclass
class OIndex:
    number: int = 0
    n_minutes: int = 0
    n_seconds: int = 0
    n_frames: int = 0


@dataclass
class OTrack:
    number: int = 0
    mode: str = ""
    title: Optional[str] = None
    indices: List[OIndex] = field(default_factory=list)
    unparsed: List = field(default_factory=list)


O_TRACK = re.compile(r"\s*TRACK\s+(\d+)\s+([A-z\d\/]+)", flags=re.I)
O_TITLE = re.compile(r"\s*TITLE\s+\"(.*?)\"", flags=re.I)
O_INDEX = re.compile(r"\s*INDEX\s+(\d+)\s+(\d+):(\d+):(\d+)", flags=re.I)
O_FILE = re.compile(r"\s*FILE\s+\"(.*?)\"\s+BINARY", flags=re.I)


def o_track_parse(lines):
    text, lines = o_get_nonempty_entry(lines)
    if len(text) <= 0:
        raise OBadCueSheet
    result = O_TRACK.match(text)
    if not result:
        raise OBadCueSheet
    track = OTrack(int(result.groups()[0]), result.groups()[1])
    while len(lines):
        text, lines = o_get_nonempty_entry(lines)
        if len(text) <= 0:
            break
        result = O_TRACK.match(text)
        if result:
            lines = [text] + lines
            break
        result = O_INDEX.match(text)
        if result:
            track.indices.append(OIndex(
                int(result.groups()[0]), int(result.groups()[1]),
                int(result.groups()[2]), int(result.groups()[3])))
            continue
        result = O_TITLE.match(text)
        if result:
            track.title = result.groups()[0]
            continue
        track.unparsed.append(text)
    return track, lines


@dataclass
class OFile:
    bin_file_name: str
    tracks: List[OTrack] = field(default_factory=list)


def o_file_parse(lines):
    text, lines = o_get_nonempty_entry(lines)
    if len(text) <= 0:
        raise OBadCueSheet
    result = O_FILE.match(text)
    if not result:
        raise OBadCueSheet
    cue_sheet = OFile(result.groups()[0])
    while len(lines):
        text, lines = o_get_nonempty_entry(lines)
        if len(text) <= 0:
            break
        lines = [text] + lines
        track, lines = o_track_parse(lines)
        if track:
            cue_sheet.tracks.append(track)
    return cue_sheet, lines


def o_parse_cue_sheet(lines):
    files = []
    while len(lines):
        text, lines = o_get_nonempty_entry(lines)
        if O_FILE.match(text):
            lines = [text] + lines
            f, lines = o_file_parse(lines)
            files.append(f)
    if len(files) <= 0:
        raise OBadCueSheet("No FILE entry")
    return files[0]


# --------------------------------------------------------------------------
# helpers
# --------------------------------------------------------------------------
def norm_file(f):
    return (f.bin_file_name, [
        (t.number, t.mode, t.title,
         [(i.number, i.n_minutes, i.n_seconds, i.n_frames) for i in t.indices],
         list(t.unparsed))
        for t in f.tracks])


def run(fn, bad, lines):
    arg = list(lines)
    try:
        out = ("ok", norm_file(fn(arg)))
    except bad as e:
        out = ("bad", e.args)
    except Exception as e:  # any other exception must agree too
        out = ("exc", type(e).__name__, str(e))
    return out, arg          # arg: state of the caller's list afterwards


failures = 0


def check(cond, what):
    global failures
    if not cond:
        failures += 1
        if failures < 20:
            print("MISMATCH:", what)


rnd = random.Random(17)
# --------------------------------------------------------------------------
# canonical sheets x cosmetic transformations
# --------------------------------------------------------------------------
def canonical(n):
    out = ["FILE \"disc%d.bin\" BINARY" % n]
    for i in range(1, n + 1):
        out.append("  TRACK %02d %s" % (i, "AUDIO" if i % 2 else "MODE1/2352"))
        out.append("    TITLE \"Track %d\"" % i)
        if i % 3 == 0:
            out.append("    INDEX 00 %02d:%02d:%02d" % (i, 0, 0))
        out.append("    INDEX 01 %02d:%02d:%02d" % (i, 2, 33))
    return out


def recase(s, mode):
    if mode == 0:
        return s
    if mode == 1:
        return s.lower()
    if mode == 2:
        return s.upper()
    return "".join(c.upper() if k % 2 else c.lower() for k, c in enumerate(s))


noise = ["", "   ", "\t", "REM comment", "PERFORMER \"Someone\"", "FLAGS DCP",
         "PREGAP 00:02:00", "rem FILE not", "CATALOG 1234567890123",
         "TITLE \"Album\"", "INDEX 07 01:02:03", "TRACK", "FILE \"x\" WAVE"]

sheets = []
for n in range(1, 5):
    base = canonical(n)
    for mode in range(4):
        for pad in ("", " ", "\t  "):
            for eol in ("\n", "\r\n", ""):
                sheets.append([pad + recase(l, mode) + pad + eol for l in base])
    for pos in range(len(base) + 1):
        for nz in noise:
            s = list(base)
            s.insert(pos, nz)
            sheets.append([l + "\n" for l in s])
# degenerate inputs
sheets += [[], [""], ["\n", "\n"], ["REM only\n"], ["TRACK 01 AUDIO\n"],
           ["FILE \"a.bin\" BINARY\n"], ["FILE \"a.bin\" BINARY\n", "garbage\n"],
           ["FILE \"a.bin\" BINARY\n", "TRACK 01 AUDIO\n", "FILE \"b.bin\" BINARY\n", "TRACK 02 AUDIO\n"],
           ["FILE \"a.bin\" WAVE\n", "TRACK 01 AUDIO\n"],
           ["junk\n", "FILE \"a.bin\" BINARY\n", "INDEX 01 00:00:00\n"]]
for _ in range(1500):
    pool = canonical(3) + noise
    sheets.append([rnd.choice(["", " "]) + recase(rnd.choice(pool), rnd.randrange(4)) + "\n"
                   for _ in range(rnd.randint(0, 12))])

# sheets aimed at the FILE scan: 0..n FILE lines, junk before/between/after
scan_pool = [
    "FILE \"a.bin\" BINARY", "file \"b.bin\" binary", "  FiLe   \"c d.bin\"   BiNaRy  ",
    "FILE \"w.wav\" WAVE", "FILE a.bin BINARY", "FILE \"\" BINARY", "REM FILE \"r.bin\" BINARY",
    "CATALOG 0000000000000", "PERFORMER \"p\"", "TITLE \"album\"", "TRACK 01 AUDIO",
    "track 02 mode1/2352", "INDEX 01 00:00:00", "TRACK bad", "", "   ", "\t", "garbage",
]
for _ in range(6000):
    sheets.append([rnd.choice(["", " ", "\t"]) + rnd.choice(scan_pool) + rnd.choice(["\n", "\r\n", ""])
                   for _ in range(rnd.randint(0, 10))])
for combo in itertools.product(scan_pool[:8] + ["TRACK 01 AUDIO", ""], repeat=3):
    sheets.append([c + "\n" for c in combo])

n_ok = n_bad = 0
for sheet in sheets:
    a, a_left = run(o_parse_cue_sheet, OBadCueSheet, sheet)
    b, b_left = run(new.parse_cue_sheet, new.BadCueSheet, sheet)
    check(a == b, ("parse", sheet, a, b))
    check(a_left == b_left, ("caller list state", sheet, a_left, b_left))
    if a[0] == "ok":
        n_ok += 1
    else:
        n_bad += 1

# the returned object must be a CueSheetFile; the error must carry the message
r = new.parse_cue_sheet(["FILE \"z.bin\" BINARY\n", "TRACK 01 AUDIO\n"])
check(type(r) is new.CueSheetFile and r.bin_file_name == "z.bin", ("type", r))
try:
    new.parse_cue_sheet(["REM nothing\n"])
    check(False, ("no exception",))
except new.BadCueSheet as e:
    check(e.args == ("No FILE entry",), ("args", e.args))
# non-list argument: same exception as the original
for weird in (None, 5, ("FILE \"a\" BINARY",), "FILE"):
    res = []
    for fn in (o_parse_cue_sheet, new.parse_cue_sheet):
        try:
            fn(weird)
            res.append("ok")
        except Exception as e:
            res.append((type(e).__name__ .replace("OBad", "Bad"), str(e)))
    check(res[0] == res[1], ("weird arg", weird, res))

print("sheets: %d (ok %d / rejected %d), mismatches: %d" % (len(sheets), n_ok, n_bad, failures))
sys.exit(1 if failures else 0)
