"""Equivalence demo for roland/s7xx PartialEntry.sample_entries (C06, r22).

The live class (with or without the refactoring) is compared against a
subclass carrying a verbatim inline copy of the ORIGINAL property bodies.
Both are driven by scripted fake sample-entry references whose `.sample_entry`
and whose entries' `.path` log every access and may raise, and whose
`_parent` / `_path` assignments are logged.  Routines log their calls and
reverse / filter / empty / replace / raise.  After every access of
`.sample_entries` / `.children` the returned list, the access log, the
`_sample_entries` slot, every entry's `_parent` / `_path` and the exception
type / message must agree, also on repeated access (an empty result is falsy
and is realised again) and after an exception.  A second part uses real
SampleEntry objects with the real make_safe_names / make_export_names
routines of an Image and compares assigned names and export paths.
Exit status 0 when everything agrees, 1 otherwise.
"""
import itertools
import random
import sys
from typing import List

from smpl_extract.roland.s7xx.partial_entry import PartialEntry
from smpl_extract.roland.s7xx.partial_entry import SampleEntryReference
from smpl_extract.roland.s7xx.sample_entry import SampleEntry
from smpl_extract.structural import Image


# --------------------------------------------------------------------------
# ORIGINAL implementation (verbatim bodies)
# --------------------------------------------------------------------------
class OriginalPartialEntry(PartialEntry):

    @property
    def sample_entries(self) -> List[SampleEntry]:
        if not self._sample_entries:
            sample_entries = []
            path = self.path
            for reference in self.sample_entry_references:
                sample_entry = reference.sample_entry
                new_path = path + [sample_entry.path[-1]]
                sample_entry._parent = self
                sample_entry._path = new_path
                sample_entries.append(sample_entry)

            for routine in self._routines.values():
                sample_entries = routine(sample_entries)
            self._sample_entries = sample_entries
        return self._sample_entries  # type: ignore

    @property
    def children(self):
        result = self.sample_entries
        return result


FAILURES = []
N_CHECKS = 0


def check(label, left, right):
    global N_CHECKS
    N_CHECKS += 1
    if left != right:
        FAILURES.append(label)
        print("MISMATCH", label)
        print("   original:", repr(left)[:500])
        print("   live    :", repr(right)[:500])


# --------------------------------------------------------------------------
# scripted fakes
# --------------------------------------------------------------------------
class FakeEntry:
    """Stands in for a SampleEntry: logs reads of .path and writes of
    _parent / _path."""

    def __init__(self, tag, path_script, log):
        object.__setattr__(self, "tag", tag)
        object.__setattr__(self, "path_script", path_script)
        object.__setattr__(self, "log", log)
        object.__setattr__(self, "_parent", "unset")
        object.__setattr__(self, "_path", "unset")

    @property
    def path(self):
        self.log.append(("read path", self.tag))
        kind = self.path_script
        if kind == "raise":
            raise RuntimeError("path of " + self.tag)
        if kind == "empty":
            return []
        if kind == "own":
            # the path assigned so far, if any (as a real Element would)
            current = object.__getattribute__(self, "_path")
            return current if current != "unset" else ["vol", self.tag]
        return list(kind)

    def __setattr__(self, key, value):
        self.log.append(("set", self.tag, key, _describe(value)))
        object.__setattr__(self, key, value)

    def __repr__(self):
        return f"<entry {self.tag}>"


def _describe(value):
    if isinstance(value, PartialEntry):
        return "<the partial>"
    return repr(value)


class FakeReference:
    def __init__(self, tag, entry, raises, log):
        self.tag = tag
        self._entry = entry
        self._raises = raises
        self._log = log

    @property
    def sample_entry(self):
        self._log.append(("read sample_entry", self.tag))
        if self._raises:
            raise KeyError("reference " + self.tag)
        return self._entry


class LoggedReferences(list):
    """The references list; logs when iteration over it starts."""

    def __init__(self, items, log):
        super().__init__(items)
        self._log = log

    def __iter__(self):
        self._log.append(("iter references",))
        return super().__iter__()


class LoggedPath(list):
    pass


def make_routines(kinds, log):
    routines = {}
    for position, kind in enumerate(kinds):
        def routine(items, kind=kind, position=position):
            log.append(("routine", position, kind,
                        [getattr(x, "tag", x) for x in items]))
            if kind == "identity":
                return items
            if kind == "reverse":
                return list(reversed(items))
            if kind == "drop_first":
                return items[1:]
            if kind == "empty":
                return []
            if kind == "tuple":
                return tuple(items)
            if kind == "none":
                return None
            if kind == "raise":
                raise ValueError("routine %d" % position)
            raise AssertionError(kind)
        routines["r%d" % position] = routine
    return routines


def build(cls, entry_scripts, routine_kinds, partial_path, preset):
    log = []
    references = []
    entries = []
    for index, (path_script, ref_raises, shared_with) in enumerate(entry_scripts):
        if shared_with is not None and shared_with < len(entries):
            entry = entries[shared_with]
        else:
            entry = FakeEntry("e%d" % index, path_script, log)
        entries.append(entry)
        references.append(FakeReference("ref%d" % index, entry, ref_raises, log))
    partial = cls(
        directory_name="partial",
        sample_entry_references=LoggedReferences(references, log),
        _path=list(partial_path),
        _routines=make_routines(routine_kinds, log),
    )
    if preset == "empty_list":
        partial._sample_entries = []
    elif preset == "preset":
        partial._sample_entries = ["already there"]
    return partial, entries, log


def observe(partial, entries, log, accessor):
    try:
        value = getattr(partial, accessor)
        status = ("ok", [getattr(x, "tag", x) for x in value]
                  if value is not None else None,
                  type(value).__name__,
                  value is partial._sample_entries)
    except Exception as exc:  # noqa: BLE001 - compared
        status = ("exc", type(exc).__name__, str(exc))
    slot = partial._sample_entries
    snapshot = (
        status,
        list(log),
        None if slot is None else [getattr(x, "tag", x) for x in slot],
        [(_describe(object.__getattribute__(e, "_parent")),
          repr(object.__getattribute__(e, "_path"))) for e in entries],
    )
    del log[:]
    return snapshot


def run(cls, entry_scripts, routine_kinds, partial_path, preset, accessors):
    partial, entries, log = build(
        cls, entry_scripts, routine_kinds, partial_path, preset
    )
    return [observe(partial, entries, log, a) for a in accessors]


def compare(label, *args):
    check(label + " " + repr(args), run(OriginalPartialEntry, *args),
          run(PartialEntry, *args))


def scripted_part():
    path_scripts = [("vol", "smp"), ("only",), "empty", "raise", "own"]
    routine_sets = [
        (), ("identity",), ("reverse",), ("drop_first", "reverse"),
        ("empty",), ("reverse", "empty", "identity"), ("raise",),
        ("identity", "raise", "reverse"), ("tuple",), ("none",),
        ("none", "identity"),
    ]
    accessor_sets = [
        ("sample_entries",), ("children",),
        ("sample_entries", "children", "sample_entries"),
    ]
    partial_paths = [(), ("vol", "perf", "patch", "partial")]
    presets = ["fresh", "empty_list", "preset"]

    # hand written
    hand = [
        [],
        [(("vol", "smp"), False, None)],
        [(("vol", "a"), False, None), (("vol", "b"), False, None)],
        [(("vol", "a"), False, None), ("empty", False, None),
         (("vol", "c"), False, None)],
        [(("vol", "a"), False, None), ("raise", False, None)],
        [(("vol", "a"), False, None), (("vol", "b"), True, None),
         (("vol", "c"), False, None)],
        # the same sample referenced twice (entry shared between references)
        [("own", False, None), ("own", False, 0), (("x",), False, None)],
        [("own", False, None), ("own", False, 0), ("own", False, 0)],
    ]
    for scripts in hand:
        for routines, accessors, ppath, preset in itertools.product(
                routine_sets, accessor_sets, partial_paths, presets):
            compare("hand", scripts, routines, ppath, preset, accessors)

    rng = random.Random(2206)
    for case in range(1500):
        scripts = []
        for index in range(rng.randint(0, 5)):
            shared = rng.randrange(index) if index and rng.random() < 0.2 else None
            scripts.append((
                rng.choice(path_scripts),
                rng.random() < 0.1,
                shared,
            ))
        routines = tuple(
            rng.choice(["identity", "reverse", "drop_first", "empty",
                        "tuple", "none", "raise"])
            for _ in range(rng.randint(0, 3))
        )
        accessors = tuple(
            rng.choice(["sample_entries", "children"])
            for _ in range(rng.randint(1, 4))
        )
        compare("random[%d]" % case, scripts, routines,
                rng.choice(partial_paths), rng.choice(presets), accessors)


def real_part():
    rng = random.Random(22060)
    pieces = ["a", "B", " ", "-", "L", "R", "(", ")", "2", ".", "/", "\\",
              "'", ":", "#", "\x01"]
    image = Image(lambda context_additions: [])
    for case in range(300):
        pool = [
            "".join(rng.choice(pieces) for _ in range(rng.randint(0, 6)))
            for _ in range(rng.randint(1, 3))
        ]
        names = [rng.choice(pool) for _ in range(rng.randint(0, 4))]
        results = []
        for cls in (OriginalPartialEntry, PartialEntry):
            references = [
                SampleEntryReference(sample_entry=SampleEntry(
                    directory_name=n, index=k, _path=["Volume", n]
                ))
                for k, n in enumerate(names)
            ]
            partial = cls(
                directory_name="Partial 1",
                sample_entry_references=references,
                _parent=None,
                _path=["Volume", "Perf", "Patch", "Partial 1"],
                _routines={
                    "make_safe_names": image.make_safe_names_routine,
                    "make_export_names": image.make_export_names_routine,
                },
            )
            first = partial.children
            second = partial.sample_entries
            results.append((
                [e.directory_name for e in first],
                (first is second) if first else (first == second),
                [(e.safe_name, e.export_name, e.path, e.parent is partial,
                  e.export_path()) for e in first],
                [r.sample_entry is e for r, e in zip(references, first)],
            ))
        check("real[%d] %r" % (case, names), results[0], results[1])


def main():
    scripted_part()
    real_part()
    print(f"{N_CHECKS} comparisons, {len(FAILURES)} mismatches")
    return 1 if FAILURES else 0


if __name__ == "__main__":
    sys.exit(main())
