"""Equivalence demo for r17: Volume._realize_files (smpl_extract/akai/volume.py),
the helper that Volume.files runs once to turn file entries into the cached
file list.

The live method and an inline copy of the ORIGINAL are run on twin Volume
objects whose file entries are scripted: `.file` returns an object, a falsy
non-None object, None, or raises InvalidFileEntry / ConstructError (and
subclasses) / an unrelated exception.  Compared: the exception that escapes
(type and args), the resulting `_files` list (identity of items and order),
`_is_files_realized`, the order in which entries were touched, and the result
of `files` (with routines) on first and repeated access.
"""
import random
import sys

from construct.core import ConstructError
from construct.core import StreamError
from construct.core import RangeError

from smpl_extract.akai.file_entry import InvalidFileEntry
from smpl_extract.akai.volume import Volume


# --------------------------------------------------------------------------
# inline copy of the ORIGINAL implementation
# --------------------------------------------------------------------------
def orig_realize_files(self):
    for file_entry in self.file_entries:
        try:
            file = file_entry.file
        except (InvalidFileEntry, ConstructError) as e:
            file = None

        if file is not None:
            self._files.append(file)
    self._is_files_realized = True


class OrigVolume(Volume):
    _realize_files = orig_realize_files


class SubInvalid(InvalidFileEntry):
    pass


class Thing:
    def __init__(self, tag):
        self.tag = tag
        self.name = "thing%d" % tag
        self.type_id = 2

    def __repr__(self):
        return "Thing(%r)" % self.tag


class FalsyThing(Thing):
    def __bool__(self):
        return False

    def __len__(self):
        return 0


class ScriptedEntry:
    def __init__(self, log, index, behaviour, payload):
        self.log = log
        self.index = index
        self.behaviour = behaviour
        self.payload = payload

    @property
    def file(self):
        self.log.append(self.index)
        if self.behaviour == "value":
            return self.payload
        raise self.payload


BEHAVIOURS = [
    lambda i: ("value", Thing(i)),
    lambda i: ("value", FalsyThing(i)),
    lambda i: ("value", None),
    lambda i: ("value", 0),
    lambda i: ("value", ""),
    lambda i: ("value", []),
    lambda i: ("value", False),
    lambda i: ("raise", InvalidFileEntry("bad %d" % i)),
    lambda i: ("raise", SubInvalid()),
    lambda i: ("raise", ConstructError("ce %d" % i)),
    lambda i: ("raise", StreamError("se")),
    lambda i: ("raise", RangeError("re")),
]
RARE_BEHAVIOURS = [
    lambda i: ("raise", KeyError(i)),
    lambda i: ("raise", UnicodeDecodeError("ascii", b"\xff", 0, 1, "x")),
    lambda i: ("raise", ValueError("v")),
    lambda i: ("raise", StopIteration()),
]


def make_script(rng):
    n = rng.choice([0, 0, 1, 2, 3, 5, 8, 13])
    script = []
    for i in range(n):
        pool = RARE_BEHAVIOURS if rng.random() < 0.08 else BEHAVIOURS
        script.append(rng.choice(pool)(i))
    return script


def make_routines(rng, log):
    def reverse(files):
        log.append(("reverse", [id(f) for f in files]))
        return list(reversed(files))

    def same(files):
        log.append(("same", [id(f) for f in files]))
        return files

    def drop_first(files):
        log.append(("drop", [id(f) for f in files]))
        return files[1:]

    def boom(files):
        log.append(("boom", len(files)))
        raise RuntimeError("routine failed")

    choice = rng.randrange(6)
    if choice == 0:
        return None
    if choice == 1:
        return {}
    if choice == 2:
        return {"a": reverse}
    if choice == 3:
        return {"a": same, "b": drop_first}
    if choice == 4:
        return {"a": reverse, "b": boom}
    return {"a": drop_first, "b": reverse, "c": same}


def run(volume_cls, script, seed, mode):
    rng = random.Random(seed)
    log = []
    entries = [ScriptedEntry(log, i, b, p) for i, (b, p) in enumerate(script)]
    routine_log = []
    routines = make_routines(rng, routine_log)
    volume = volume_cls(name="V", routines=routines, file_entries=entries)
    trace = []

    def attempt(label, func):
        try:
            value = func()
            trace.append((label, "ok", None if value is None else [id(x) for x in value]))
        except BaseException as exc:  # noqa
            trace.append((label, type(exc).__name__, repr(exc.args)))
        trace.append((label, "state", [id(x) for x in volume._files],
                      volume._is_files_realized, list(log), list(routine_log)))

    if mode == "helper":
        attempt("helper", volume._realize_files)
        attempt("helper-again", volume._realize_files)
    else:
        attempt("files", lambda: volume.files)
        attempt("files-again", lambda: volume.files)
        attempt("children", lambda: volume.children)
    return trace


def main():
    rng = random.Random(1717)
    failures = 0
    cases = 0
    for case in range(3000):
        script = make_script(rng)
        seed = rng.randrange(1 << 30)
        for mode in ("helper", "files"):
            expected = run(OrigVolume, script, seed, mode)
            actual = run(Volume, script, seed, mode)
            cases += 1
            if expected != actual:
                failures += 1
                if failures < 5:
                    print("MISMATCH case", case, mode)
                    print(" script  ", script)
                    print(" expected", expected)
                    print(" actual  ", actual)
    print("cases:", cases, "failures:", failures)
    return 1 if failures else 0


if __name__ == "__main__":
    sys.exit(main())
