"""Equivalence demo for r5 (StreamOffset.__init__ / _translate_addr).

Runs identical seek/tell/read histories through the live StreamOffset and an
inline copy of the ORIGINAL implementation, comparing return values,
exceptions, resulting attributes and the exact sequence of calls made on the
underlying stream.  Exit 0 = all agree, 1 = mismatch.
"""
import random
import sys
from io import BytesIO, IOBase, SEEK_CUR, SEEK_END, SEEK_SET
from typing import Union

from smpl_extract.util.stream import StreamOffset as LiveStreamOffset


# ----------------------------------------------------------------- originals
class OrigStreamWrapper(IOBase):
    def __init__(self, substream, size, position=0, buffer_length=0x1000):
        self.substream = substream
        self.end_of_file = size
        self.position = position
        self.buffer_length = buffer_length
        self.true_size = buffer_length

    def _translate_addr(self, address):
        return address

    def _seek(self, address):
        true_address = self._translate_addr(address)
        result = self.substream.seek(true_address, SEEK_SET)
        return result

    def _read(self, size):
        result = self.substream.read(size)
        return result

    def tell(self):
        return self.position

    def seek(self, offset, whence=SEEK_CUR):
        starting_position = 0
        if whence == SEEK_CUR:
            starting_position = self.position
        elif whence == SEEK_END:
            starting_position = self.end_of_file

        new_position = starting_position + offset
        if new_position > self.end_of_file:
            new_position = self.end_of_file
        elif new_position < 0:
            new_position = 0

        self.true_size = 0
        self._seek(new_position)
        self.position = new_position
        return new_position

    def read(self, size: Union[int, None]):
        if size is None or size < 0:
            return self.readall()

        self.true_size = size
        if self.end_of_file is not None:  # as in the tree after the empty-view fix
            self.true_size = min(self.end_of_file - self.position, size)
        if self.true_size < 0:
            self.true_size = 0

        true_position = self.substream.tell()
        expected_position = self._translate_addr(self.position)
        if expected_position != true_position:
            self._seek(self.position)

        result = self._read(self.true_size)
        self.position += self.true_size
        return result

    def readall(self):
        result = bytes()
        while True:
            new_read = self.read(self.buffer_length)
            if len(new_read) < 1:
                break
            result += new_read
        return result


class OrigStreamOffset(OrigStreamWrapper):
    def __init__(self, substream, size, offset, position=0, buffer_length=0x1000):
        super().__init__(
            substream,
            size,
            position=position,
            buffer_length=buffer_length
        )
        self.offset = offset

    def _translate_addr(self, address):
        true_address = self.offset + address
        return true_address


# ------------------------------------------------------------------- harness
class Recorder(BytesIO):
    """BytesIO that logs every call made on it."""

    def __init__(self, data):
        super().__init__(data)
        self.log = []

    def seek(self, *a):
        r = super().seek(*a)
        self.log.append(("seek", a, r))
        return r

    def tell(self):
        r = super().tell()
        self.log.append(("tell", r))
        return r

    def read(self, *a):
        r = super().read(*a)
        self.log.append(("read", a, r))
        return r


def call(fn, *a, **k):
    try:
        return ("ok", fn(*a, **k))
    except Exception as e:  # noqa: BLE001
        return ("exc", type(e).__name__, str(e))


def state(s):
    return (s.position, s.end_of_file, s.true_size, s.buffer_length, s.offset)


failures = 0


def check(label, a, b):
    global failures
    if a != b:
        failures += 1
        if failures <= 10:
            print("MISMATCH", label, a, b)


def run_history(data, ctor_args, ctor_kwargs, ops, model=True):
    ra, rb = Recorder(data), Recorder(data)
    a = LiveStreamOffset(ra, *ctor_args, **ctor_kwargs)
    b = OrigStreamOffset(rb, *ctor_args, **ctor_kwargs)
    check("init-state", state(a), state(b))
    check("init-substream", a.substream is ra, b.substream is rb)
    for op in ops:
        name, args = op[0], op[1:]
        xa = call(getattr(a, name), *args)
        xb = call(getattr(b, name), *args)
        check(("op", op), xa, xb)
        check(("state", op), state(a), state(b))
        check(("log", op), ra.log, rb.log)
        check(("subpos", op), BytesIO.tell(ra), BytesIO.tell(rb))


def random_ops(rng, size, n):
    ops = []
    for _ in range(n):
        k = rng.randrange(6)
        if k == 0:
            ops.append(("tell",))
        elif k in (1, 2):
            ops.append(("seek", rng.randint(-size - 3, size + 3),
                        rng.choice([SEEK_SET, SEEK_CUR, SEEK_END])))
        elif k == 3:
            ops.append(("seek", rng.randint(-3, 3)))          # default whence
        else:
            ops.append(("read", rng.choice([0, 0, 1, 2, 3, size, size + 5,
                                            rng.randint(0, size + 2)])))
    return ops


def main():
    rng = random.Random(0xC08)

    # exhaustive short histories over tiny windows
    data = bytes(range(1, 13))
    small_ops = [("tell",), ("read", 0), ("read", 1), ("read", 2), ("read", 9),
                 ("seek", 0, SEEK_SET), ("seek", 1, SEEK_SET), ("seek", 3, SEEK_SET),
                 ("seek", -1, SEEK_CUR), ("seek", 1), ("seek", 0, SEEK_END),
                 ("seek", -1, SEEK_END), ("seek", 5, SEEK_END), ("seek", -9, SEEK_SET)]
    for offset in (0, 2, 9):
        for size in (1, 3):
            for o1 in small_ops:
                for o2 in small_ops:
                    for o3 in (("read", 1), ("read", 4), ("tell",)):
                        run_history(data, (size, offset), {}, [o1, o2, o3])

    # constructor spellings: positional / keyword / defaults
    for args, kwargs in [
        ((4, 2), {}),
        ((4, 2, 1), {}),
        ((4, 2, 1, 3), {}),
        ((4, 2), {"position": 2}),
        ((4, 2), {"buffer_length": 2}),
        ((4,), {"offset": 3, "position": 1, "buffer_length": 1}),
        ((), {"size": 5, "offset": 1}),
        ((0, 0), {}),            # empty window (end_of_file == 0 special case)
        ((0, 5), {"buffer_length": 2}),
    ]:
        run_history(data, args, kwargs,
                    [("tell",), ("read", 2), ("read", None), ("seek", 0, SEEK_SET),
                     ("read", -1), ("readall",), ("seek", 1, SEEK_SET), ("readall",)])

    # bad constructor calls must fail the same way
    for args, kwargs in [((), {}), ((4,), {}), ((4, 2, 0, 8, 9), {}),
                         ((4, 2), {"bogus": 1}), ((4, 2, 1), {"position": 1})]:
        xa = call(LiveStreamOffset, BytesIO(data), *args, **kwargs)
        xb = call(OrigStreamOffset, BytesIO(data), *args, **kwargs)
        check(("ctor-exc", args, kwargs), xa[0], xb[0])
        check(("ctor-exc-type", args, kwargs), xa[1] if xa[0] == "exc" else None,
              xb[1] if xb[0] == "exc" else None)

    # long random histories over random windows
    for trial in range(400):
        n = rng.randint(1, 64)
        data = bytes(rng.randrange(256) for _ in range(n))
        offset = rng.randint(0, n - 1)
        size = rng.randint(1, n - offset)
        kwargs = {}
        if rng.random() < 0.5:
            kwargs["position"] = rng.randint(0, size)
        if rng.random() < 0.5:
            kwargs["buffer_length"] = rng.randint(1, 9)
        ops = random_ops(rng, size, 40)
        if rng.random() < 0.3:
            ops.insert(rng.randrange(len(ops)), ("read", None))
        run_history(data, (size, offset), kwargs, ops)

    # direct _translate_addr comparison, incl. negatives / big ints
    for offset in (0, 1, 7, 2 ** 40, -3):
        a = LiveStreamOffset(BytesIO(b""), 10, offset)
        b = OrigStreamOffset(BytesIO(b""), 10, offset)
        for addr in (0, 1, 5, 10, 11, -1, 2 ** 70):
            check(("translate", offset, addr), a._translate_addr(addr), b._translate_addr(addr))
            check(("translate-type", offset, addr), type(a._translate_addr(addr)), int)

    # against the model: logical content is data[offset:offset+size]
    for trial in range(200):
        n = rng.randint(1, 40)
        data = bytes(rng.randrange(256) for _ in range(n))
        offset = rng.randint(0, n - 1)
        size = rng.randint(1, n - offset)
        logical = data[offset:offset + size]
        s = LiveStreamOffset(BytesIO(data), size, offset)
        pos = 0
        for op in random_ops(rng, size, 30):
            if op[0] == "tell":
                check("model-tell", s.tell(), pos)
            elif op[0] == "seek":
                whence = op[2] if len(op) > 2 else SEEK_CUR
                base = {SEEK_SET: 0, SEEK_CUR: pos, SEEK_END: size}[whence]
                pos = min(max(base + op[1], 0), size)
                check("model-seek", s.seek(*op[1:]), pos)
            else:
                exp = logical[pos:pos + op[1]]
                check("model-read", s.read(op[1]), exp)
                pos += len(exp)

    if failures:
        print(f"FAIL: {failures} mismatches")
        return 1
    print("OK: StreamOffset live == original on all histories")
    return 0


if __name__ == "__main__":
    sys.exit(main())
