"""Equivalence demo for r7: WavSampleChunkStruct (smpl_extract/formats/wav.py).

An inline copy of the ORIGINAL struct definition is compared with the one in
the tree: build() of many containers / dicts (valid and invalid), parse() of
the produced bytes, of truncated bytes and of random bytes, sizeof(), and the
struct embedded in a whole RIFF file. Exceptions are compared by type and
message. Exit 0 when everything agrees, 1 otherwise.
"""
import itertools
import random
import sys

from construct.core import Byte
from construct.core import Enum as EnumConstruct
from construct.core import ExprAdapter
from construct.core import Int32ul
from construct.core import Prefixed
from construct.core import Rebuild
from construct.core import Struct
from construct.core import Switch
from construct.core import Const
from construct.core import GreedyRange
from construct.expr import len_
from construct.expr import this

from smpl_extract.formats import wav as fw
from smpl_extract.formats.wav import SmpteFormat
from smpl_extract.formats.wav import WavLoopContainer
from smpl_extract.formats.wav import WavLoopStruct
from smpl_extract.formats.wav import WavLoopType
from smpl_extract.formats.wav import WavSampleChunkContainer
from smpl_extract.formats.wav import WavFormatChunkContainer
from smpl_extract.midi import MidiNote


# verbatim copy of the original definition
OrigWavSampleChunkStruct = Struct(
    "manufacturer"      / Int32ul,
    "product"           / Int32ul,
    "sample_period"     / Int32ul,
    "midi_note"         / ExprAdapter(
                            Int32ul,
                            lambda x,y: MidiNote.from_midi_byte(x),
                            lambda x,y: x.to_midi_byte()  # type: ignore
                        ),
    "pitch_fraction"    / Int32ul,
    "smpte_format"      / EnumConstruct(
                            Int32ul,
                            SmpteFormat
                        ),
    "smpte_offset"      / Int32ul,
    "sample_loop_cnt"   / Rebuild(
        Int32ul,
        len_(this.sample_loops)
    ),
    "sampler_data_size" / Rebuild(
        Int32ul,
        len_(this.sampler_data)
    ),
    "sample_loops"      / WavLoopStruct[this.sample_loop_cnt],
    "sampler_data"      / Byte[this.sampler_data_size],
)

# the original struct embedded in the (unchanged) RIFF layout
OrigChunkStruct = Struct(
    "riff_id"   / fw.WavRiffChunkType,
    "data"      / Prefixed(Int32ul,
        Switch(this.riff_id, {
            fw.WavRiffChunkType.FMT:  fw.WavFormatChunkStruct,
            fw.WavRiffChunkType.SMPL: OrigWavSampleChunkStruct,
            fw.WavRiffChunkType.DATA: fw.WavDataChunkStruct
        })
    )
)
OrigRiffStruct = Struct(
    "fourcc"    / Const(b"RIFF"),
    "data"      / Prefixed(Int32ul, Struct(
        "fourcc"    / Const(b"WAVE"),
        "chunks"    / GreedyRange(OrigChunkStruct)
    )),
)


def run(fn):
    try:
        return ("ok", fn())
    except Exception as e:  # noqa: BLE001 - exceptions are part of behaviour
        return ("exc", type(e).__name__, str(e))


def plain(obj):
    """Comparable deep summary of a parsed container."""
    if isinstance(obj, dict):
        return {k: plain(v) for k, v in obj.items() if k != "_io"}
    if isinstance(obj, (list, tuple)):
        return [plain(x) for x in obj]
    return (type(obj).__name__, str(obj))


def loop_variants():
    yield WavLoopContainer()
    yield WavLoopContainer(cue_id=0, loop_type=WavLoopType.REVERSE,
                           start_byte=1, end_byte=2, fraction=3, play_cnt=4)
    yield WavLoopContainer(cue_id=0xFFFFFFFF, loop_type=WavLoopType.UNKNOWN,
                           start_byte=0xFFFFFFFF, end_byte=0, fraction=0,
                           play_cnt=0xFFFFFFFF)
    yield dict(cue_id=5, loop_type=1, start_byte=7, end_byte=9, fraction=0,
               play_cnt=0)
    yield dict(cue_id=5, loop_type="ALTERNATING", start_byte=7, end_byte=9,
               fraction=0, play_cnt=2)
    # invalid ones
    yield WavLoopContainer(start_byte=-1)
    yield WavLoopContainer(end_byte=1 << 32)
    yield dict(cue_id=5)
    yield None


def build_inputs():
    loops = list(loop_variants())
    notes = [
        MidiNote.from_string("C4"),
        MidiNote.from_midi_byte(0),
        MidiNote.from_midi_byte(21),
        MidiNote.from_midi_byte(127),
        MidiNote.from_midi_byte(200),
        MidiNote.from_midi_byte(-5),
        None,
        60,
    ]
    loop_lists = [[], [loops[0]], [loops[1], loops[2]], loops[:5], loops[:5] * 4]
    loop_lists += [[x] for x in loops[5:]] + [None, 7, (loops[1],)]
    sampler_datas = [b"", b"\x00", b"abc", bytes(range(256)), [1, 2, 3],
                     [256], [-1], "xy", None, 5]
    # full dataclass containers
    for note, ll, sd in itertools.product(notes, loop_lists, sampler_datas):
        yield WavSampleChunkContainer(
            manufacturer=1, product=2, sample_period=22676, midi_note=note,
            pitch_fraction=0x80000000, smpte_format=SmpteFormat.FPS30_DROP,
            smpte_offset=9, sample_loops=ll, sampler_data=sd)
    yield WavSampleChunkContainer()
    for period in (-1, 0, 1, 0xFFFFFFFF, 1 << 32, 1.5, None, "1"):
        yield WavSampleChunkContainer(sample_period=period)
    for fmt in (0, 24, 25, 29, 30, 31, "FPS24", "nope", None, SmpteFormat.FPS25):
        yield WavSampleChunkContainer(smpte_format=fmt)
    # explicit (ignored) count fields, and plain dicts with missing keys
    full = dict(manufacturer=0, product=0, sample_period=1,
                midi_note=MidiNote.from_string("A0"), pitch_fraction=0,
                smpte_format=0, smpte_offset=0, sample_loops=[loops[1]],
                sampler_data=b"\x01\x02")
    yield dict(full)
    yield dict(full, sample_loop_cnt=99, sampler_data_size=99)
    yield dict(full, sample_loop_cnt=0, sampler_data_size=0)
    for key in list(full):
        d = dict(full)
        del d[key]
        yield d
    yield {}
    yield None
    yield 5


def main():
    n = 0
    bad = 0
    n_ok = 0
    good_bytes = []

    def check(label, a, b, detail):
        nonlocal n, bad
        n += 1
        if a != b:
            bad += 1
            if bad < 6:
                print("MISMATCH", label, detail)
                print("   orig:", a)
                print("   new: ", b)

    for obj in build_inputs():
        a = run(lambda: OrigWavSampleChunkStruct.build(obj))
        b = run(lambda: fw.WavSampleChunkStruct.build(obj))
        check("build", a, b, repr(obj)[:200])
        if a[0] == "ok":
            n_ok += 1
            good_bytes.append(a[1])

    # smpl size promise on everything that built: 36 + 24*loops + sampler bytes
    for blob in good_bytes:
        cnt = int.from_bytes(blob[28:32], "little")
        extra = int.from_bytes(blob[32:36], "little")
        if len(blob) != 36 + 24 * cnt + extra:
            print("size relation broken")
            return 1

    rng = random.Random(20240928)
    parse_inputs = list(dict.fromkeys(good_bytes))
    for blob in list(parse_inputs):
        for cut in (0, 1, 27, 28, 31, 32, 35, 36, 37, 59, 60, len(blob) - 1):
            if 0 <= cut < len(blob):
                parse_inputs.append(blob[:cut])
        parse_inputs.append(blob + b"tail")
        # counts that disagree with the payload
        if len(blob) >= 36:
            parse_inputs.append(blob[:28] + (3).to_bytes(4, "little") + blob[32:])
            parse_inputs.append(blob[:32] + (2).to_bytes(4, "little") + blob[36:])
            # bad enum / odd note values
            parse_inputs.append(blob[:12] + (300).to_bytes(4, "little") + blob[16:])
            parse_inputs.append(blob[:20] + (77).to_bytes(4, "little") + blob[24:])
    for _ in range(300):
        size = rng.choice((0, 10, 36, 60, 84, 100))
        head = bytearray(rng.randbytes(size))
        if size >= 36 and rng.random() < 0.8:
            head[28:32] = rng.choice((0, 1, 2)).to_bytes(4, "little")
            head[32:36] = rng.choice((0, 1, 5)).to_bytes(4, "little")
        parse_inputs.append(bytes(head))
    parse_inputs = list(dict.fromkeys(parse_inputs))

    n_parsed = 0
    for blob in parse_inputs:
        a = run(lambda: plain(OrigWavSampleChunkStruct.parse(blob)))
        b = run(lambda: plain(fw.WavSampleChunkStruct.parse(blob)))
        check("parse", a, b, blob[:48].hex())
        n_parsed += a[0] == "ok"

    a = run(OrigWavSampleChunkStruct.sizeof)
    b = run(fw.WavSampleChunkStruct.sizeof)
    check("sizeof", a, b, "")
    check("subcon names",
          [s.name for s in OrigWavSampleChunkStruct.subcons],
          [s.name for s in fw.WavSampleChunkStruct.subcons], "")

    # embedded in a whole file
    fmt = WavFormatChunkContainer(audio_format=1, channel_cnt=2,
                                  sample_rate=44100, bits_per_sample=16)
    for k, obj in enumerate(build_inputs()):
        if k % 7:
            continue
        def riff(struct):
            return struct.build(dict(data=dict(chunks=[
                dict(riff_id=fw.WavRiffChunkType.FMT, data=fmt),
                dict(riff_id=fw.WavRiffChunkType.SMPL, data=obj),
                dict(riff_id=fw.WavRiffChunkType.DATA,
                     data=(b"\x01\x02\x03\x04" * 3 for _ in range(3))),
            ])))
        a = run(lambda: riff(OrigRiffStruct))
        b = run(lambda: riff(fw.RiffStruct))
        check("riff", a, b, repr(obj)[:200])

    print(f"{n} comparisons ({n_ok} builds ok, {n_parsed} parses ok), "
          f"{bad} mismatches")
    if n_ok < 50 or n_parsed < 50 or n_ok > n - 50:
        print("demo lost its coverage")
        return 1
    return 1 if bad else 0


if __name__ == "__main__":
    sys.exit(main())
