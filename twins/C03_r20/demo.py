"""Equivalence demo for r20: smpl_extract.util.stream.StreamWrapper.read
(the bounded read of the StreamOffset windows that from_bin_cue lays over
the bin file; PassthroughTranscoder drains every CDDA track through it, so
it decides where a track's PCM stops).

An inline copy of the ORIGINAL read (early return for the read-everything
case) is compiled with the globals of the live module, installed on
subclasses of StreamWrapper / StreamOffset / StreamReversed, and compared
with the live method:

  A. traced: the substream is a recorder around BytesIO that logs every
     tell / seek / read; random programs of read(n) (n in and out of range,
     0, negative, None, bool, float, str), readall(), seek(offset, whence)
     and tell() are run on both versions for many (data length, window
     size incl. None / 0 / negative / larger than the data, offset,
     initial position, buffer_length) combinations; per step the value or
     the exception (type, message), the wrapper state (position,
     true_size) and the complete ordered substream event log must agree.
     Also nested windows (StreamOffset over StreamOffset) and
     StreamReversed with several sample widths (BadReadSize / BadAlign).
  B. windows: for StreamOffset windows over random data, draining with
     read(k) must give data[offset:offset+size] (independent expectation).
  C. end to end: cue/bin pairs are exported to WAV once with the live
     method and once with the original patched into StreamWrapper; the
     trees must be byte-identical and the PCM must tile the bin (last
     track truncated to whole 4-byte frames).
Exit 0 on full agreement, 1 otherwise.
"""
import contextlib
import io
import os
import random
import shutil
import sys
import tempfile

from smpl_extract import actions
from smpl_extract.cuesheet import parse_cue_sheet
from smpl_extract.util import stream as stream_module
from smpl_extract.util.stream import StreamOffset
from smpl_extract.util.stream import StreamReversed
from smpl_extract.util.stream import StreamWrapper


ORIGINAL_SOURCE = '''
def read(self, size: Union[int, None])->bytes:

    if size is None or size < 0:
        return self.readall()

    self.true_size = size
    if self.end_of_file is not None:  # as in the tree after the empty-view fix
        self.true_size = min(self.end_of_file - self.position, size)
    if self.true_size < 0:
        self.true_size = 0

    true_position = self.substream.tell()
    expected_position = self._translate_addr(self.position)
    if expected_position != true_position:
        self._seek(self.position)

    result = self._read(self.true_size)
    self.position += self.true_size
    return result
'''
_namespace = {}
exec(compile(ORIGINAL_SOURCE, "<original>", "exec"), stream_module.__dict__,
     _namespace)
original_read = _namespace["read"]
live_read = StreamWrapper.__dict__["read"]


class OriginalWrapper(StreamWrapper):
    read = original_read


class OriginalOffset(StreamOffset):
    read = original_read


class OriginalReversed(StreamReversed):
    read = original_read


class LiveWrapper(StreamWrapper):
    pass


class LiveOffset(StreamOffset):
    pass


class LiveReversed(StreamReversed):
    pass


# ------------------------------------------------------------------ traced
class RecordingBytesIO(io.BytesIO):
    def __init__(self, data, events):
        super().__init__(data)
        self.events = events

    def tell(self):
        result = super().tell()
        self.events.append(("tell", result))
        return result

    def seek(self, *args):
        self.events.append(("seek", args))
        return super().seek(*args)

    def read(self, *args):
        self.events.append(("read", args))
        return super().read(*args)


def build(flavour, kind, data, size, offset, position, buffer_length,
          events):
    wrapper_class, offset_class, reversed_class = {
        "original": (OriginalWrapper, OriginalOffset, OriginalReversed),
        "live": (LiveWrapper, LiveOffset, LiveReversed),
        "direct": (StreamWrapper, StreamOffset, StreamReversed),
    }[flavour]
    substream = RecordingBytesIO(data, events)
    if kind == "wrapper":
        return wrapper_class(substream, size, position=position,
                             buffer_length=buffer_length)
    if kind == "offset":
        return offset_class(substream, size, offset, position=position,
                            buffer_length=buffer_length)
    if kind == "nested":
        outer = offset_class(substream, len(data) - min(offset, len(data)),
                             offset)
        return offset_class(outer, size, 3, position=position,
                            buffer_length=buffer_length)
    if kind.startswith("reversed"):
        return reversed_class(substream, size, sample_width=int(kind[-1]),
                              position=position,
                              buffer_length=buffer_length)
    raise AssertionError(kind)


def run_program(flavour, kind, data, size, offset, position, buffer_length,
                program):
    events = []
    stream = build(flavour, kind, data, size, offset, position,
                   buffer_length, events)
    trace = []
    for operation, arguments in program:
        events.append(("op", operation, arguments))
        try:
            value = getattr(stream, operation)(*arguments)
        except BaseException as e:
            outcome = ("EXC", type(e).__name__, str(e))
        else:
            outcome = ("OK", type(value).__name__, value)
        trace.append((outcome, stream.position, stream.true_size))
    return trace, events


def make_program(rng, limit):
    sizes = [0, 1, 2, 3, 4, 5, 7, 8, 16, limit, limit + 1, limit*2, 4096,
             -1, -5, None, True, False]
    program = []
    for _ in range(rng.randint(1, 8)):
        choice = rng.random()
        if choice < 0.6:
            program.append(("read", (rng.choice(sizes),)))
        elif choice < 0.65:
            program.append(("read", (rng.choice([2.0, "3", 2.5, [1]]),)))
        elif choice < 0.72:
            program.append(("readall", ()))
        elif choice < 0.95:
            program.append(("seek", (rng.randint(-limit - 2, limit + 2),
                                     rng.choice([0, 1, 2]))))
        else:
            program.append(("tell", ()))
    return program


def traced_cases():
    failures = 0
    count = 0
    rng = random.Random(0xC0320)
    kinds = ["wrapper", "offset", "offset", "offset", "nested", "reversed1",
             "reversed2", "reversed4"]
    for number in range(6000):
        length = rng.choice([0, 1, 4, 10, 33, 100, 2352, 5000])
        data = bytes(rng.getrandbits(8) for _ in range(length))
        kind = rng.choice(kinds)
        offset = rng.choice([0, 0, 1, 4, length // 2, length, length + 5])
        remaining = max(0, length - offset)
        size = rng.choice([remaining, remaining, remaining, length, 0, 1, 5,
                           remaining + 7, -3, None,
                           rng.randint(0, length + 1)])
        if kind.startswith("reversed") and size is None:
            size = length
        position = rng.choice([0, 0, 0, 1, 3, remaining, remaining + 2])
        buffer_length = rng.choice([0x1000, 0x1000, 1, 3, 4, 64])
        program = make_program(rng, max(remaining, 1))
        if buffer_length < 4 and length > 500:
            buffer_length = 64   # keeps readall() fast
        setup = (kind, data, size, offset, position, buffer_length, program)
        expected = run_program("original", *setup)
        actual = run_program("live", *setup)
        direct = run_program("direct", *setup)
        count += 1
        if expected != actual or expected != direct:
            failures += 1
            if failures < 10:
                print("MISMATCH (traced)", number, kind, length, size,
                      offset, position, buffer_length, program)
                for a, b in zip(expected[0], actual[0]):
                    if a != b:
                        print("   expected", str(a)[:200])
                        print("   actual  ", str(b)[:200])
                        break
    return count, failures


# ----------------------------------------------------------------- windows
def window_cases():
    failures = 0
    count = 0
    rng = random.Random(0x20C03)
    data = bytes(rng.getrandbits(8) for _ in range(4*2352 + 1179))
    for _ in range(1500):
        offset = rng.choice([0, 2352, 4704, rng.randint(0, len(data) - 1)])
        size = rng.choice([len(data) - offset,
                           rng.randint(1, len(data) - offset),
                           min(2352, len(data) - offset)])
        chunk = rng.choice([1, 3, 4, 4096, 2352, 1000, 4092])
        if chunk < 4 and size > 3000:
            chunk = 4096
        outcomes = []
        for cls in (OriginalOffset, StreamOffset):
            stream = cls(io.BytesIO(data), size, offset)
            pieces = []
            while True:
                piece = stream.read(chunk)
                if not piece:
                    break
                pieces.append(piece)
            again = stream.read(chunk)
            stream.seek(0, 0)
            outcomes.append((pieces, again, stream.read(None),
                             stream.read(-1), stream.tell()))
        count += 1
        window = data[offset:offset + size]
        if outcomes[0] != outcomes[1]:
            failures += 1
            print("MISMATCH (window)", offset, size, chunk)
        elif b"".join(outcomes[1][0]) != window or outcomes[1][1] != b"" \
                or outcomes[1][2] != window or outcomes[1][3] != b"" \
                or outcomes[1][4] != size:
            failures += 1
            print("MISMATCH (window reference)", offset, size, chunk)
    return count, failures


# ------------------------------------------------------------------ export
def msf(total):
    return "%02d:%02d:%02d" % (total // 4500, (total // 75) % 60, total % 75)


def make_cue(rng, n_sectors):
    lines = ["FILE \"disc.bin\" BINARY\n"]
    position = rng.randint(0, 2)
    for t in range(rng.randint(1, 6)):
        lines.append("  TRACK %02d AUDIO\n" % (t + 1))
        if rng.random() < 0.4:
            lines.append("    TITLE \"Title %d\"\n" % (t + 1))
        for k in range(rng.choice([1, 1, 2, 3])):
            lines.append("    INDEX %02d %s\n" % (k, msf(position)))
            position += rng.choice([1, 1, 2, 3])
        if position >= n_sectors:
            break
    return lines


def read_tree(root):
    found = {}
    for directory, _dirs, files in os.walk(root):
        for name in files:
            path = os.path.join(directory, name)
            with open(path, "rb") as f:
                found[os.path.relpath(path, root)] = f.read()
    return found


def export_with(method, cue_path, destination):
    StreamWrapper.read = method
    captured = io.StringIO()
    try:
        os.mkdir(destination)
        with contextlib.redirect_stdout(captured):
            actions.export_samples_to_wav(cue_path, destination)
    finally:
        StreamWrapper.read = live_read
    return read_tree(destination), captured.getvalue()


def export_cases():
    failures = 0
    count = 0
    rng = random.Random(0x320)
    base = tempfile.mkdtemp(prefix="r20demo_")
    try:
        for number in range(60):
            n_sectors = rng.randint(1, 20)
            tail = rng.choice([0, 0, 1, 2, 3, 5, 1177, 2351])
            data = bytes(
                rng.getrandbits(8) for _ in range(n_sectors*2352 + tail))
            lines = make_cue(rng, n_sectors)
            directory = os.path.join(base, "case%03d" % number)
            os.mkdir(directory)
            with open(os.path.join(directory, "disc.bin"), "wb") as f:
                f.write(data)
            cue_path = os.path.join(directory, "disc.cue")
            with open(cue_path, "w", encoding="ascii") as f:
                f.writelines(lines)
            expected = export_with(original_read, cue_path,
                                   os.path.join(directory, "out_a"))
            actual = export_with(live_read, cue_path,
                                 os.path.join(directory, "out_b"))
            count += 1
            if expected != actual:
                failures += 1
                print("MISMATCH (export)", number)
                continue
            cue = parse_cue_sheet(list(lines))
            starts = [t.indices[0].get_total_audio_frames()*2352
                      for t in cue.tracks]
            titles = [t.title or "Untitled Track %d" % (i + 1)
                      for i, t in enumerate(cue.tracks)]
            if starts[-1] >= len(data):
                continue
            count += 1
            ends = starts[1:] + [len(data) - (len(data) - starts[-1]) % 4]
            joined = b""
            for title, start, end in zip(titles, starts, ends):
                blob = actual[0].get(title + ".wav")
                if blob is None or blob[44:] != data[start:end]:
                    failures += 1
                    print("MISMATCH (tiling)", number, title)
                    break
                joined += blob[44:]
            else:
                if joined != data[starts[0]:ends[-1]]:
                    failures += 1
                    print("MISMATCH (concatenation)", number)
    finally:
        shutil.rmtree(base, ignore_errors=True)
    return count, failures


def main():
    total = 0
    failed = 0
    for part in (traced_cases, window_cases, export_cases):
        count, failures = part()
        print(part.__name__, "cases:", count, "failures:", failures)
        total += count
        failed += failures
    if StreamWrapper.__dict__["read"] is not live_read:
        print("class not restored")
        failed += 1
    print("total cases:", total, "failures:", failed)
    return 1 if failed else 0


if __name__ == "__main__":
    sys.exit(main())
