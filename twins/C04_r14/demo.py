"""Equivalence demo for r14: StreamEncoding.dtype (smpl_extract/data_streams.py).

StreamEncoding supplies the values the fmt chunk is derived from
(channel_cnt = num_interleaved_channels, bits_per_sample = 8*sample_width) and,
through .dtype, the width of every sample written to the data chunk.

An inline copy of the ORIGINAL dtype property body is compared with the
property in the tree for a grid of is_signed x sample_width values (ordinary,
truthy/falsy non-bools, widths outside the table, floats/bools/strings that
hash like table keys, unhashable widths).  Compared: result identity (`is`),
equality, name, itemsize, byteorder, or the exception type and message.
The hoisted tables must not have been altered after many calls.

On top of that whole exports are built (WavSampleBuilder) for signed/unsigned
8/16/32-bit mono/stereo little/big endian streams and compared with expected
bytes computed independently with struct/numpy; fmt fields are checked to be
block_align = channels*width, byte_rate = rate*block_align.
Exit 0 when everything agrees, 1 otherwise.
"""
import itertools
import struct
import sys
from io import BytesIO
from typing import Dict

import numpy as np

from smpl_extract import data_streams
from smpl_extract.data_streams import DataStream
from smpl_extract.data_streams import Endianess
from smpl_extract.data_streams import StreamEncoding
from smpl_extract.generalized.sample import Sample
from smpl_extract.generalized.wav import WavSampleBuilder
from smpl_extract.transcoder import make_transcoder


def orig_dtype(self) -> np.dtype:
    # verbatim copy of the original property body
    if self.is_signed:
        default = np.dtype("int16")
        mapping: Dict[int, np.dtype] = {
            1:  np.dtype("int8"),
            2:  np.dtype("int16"),
            4:  np.dtype("int32"),
            8:  np.dtype("int64")
        }
    else:
        default = np.dtype("uint8")
        mapping: Dict[int, np.dtype] = {
            1:  np.dtype("uint8"),
            2:  np.dtype("uint16"),
            4:  np.dtype("uint32"),
            8:  np.dtype("uint64")
        }
    result = mapping.get(self.sample_width, default)
    return result


class Truthy:
    def __init__(self, value, log):
        self.value = value
        self.log = log

    def __bool__(self):
        self.log.append("bool")
        return self.value


class RaisingBool:
    def __bool__(self):
        raise ValueError("no truth value")


def outcome(f, *args):
    try:
        return ("ok", f(*args))
    except BaseException as e:  # noqa
        return ("raised", type(e).__name__, str(e))


def describe(result):
    if result[0] != "ok":
        return result
    d = result[1]
    return ("ok", id(d), str(d), d.name, d.itemsize, d.byteorder, d.kind)


def expected_wav(payloads, encodings, sample_rate):
    """Independent computation of the exported bytes (no smpl chunk)."""
    channels = []
    width = encodings[0].sample_width
    for payload, enc in zip(payloads, encodings):
        code = {1: "i1", 2: "i2", 4: "i4"}[enc.sample_width]
        if not enc.is_signed:
            code = "u" + code[1:]
        order = ">" if enc.endianess == Endianess.BIG else "<"
        n = enc.num_interleaved_channels
        frame = enc.sample_width * n
        payload = payload[:len(payload) // frame * frame]
        arr = np.frombuffer(payload, dtype=order + code).reshape((-1, n))
        for i in range(n):
            channels.append(arr[:, i])
    num_frames = max(len(c) for c in channels)
    num_channels = len(channels)
    out_code = "<" + {1: "i1", 2: "i2", 4: "i4"}[width]
    # the pipeline reads 0x1000-byte blocks and pads each block separately;
    # keep the expected model simple: only equal-length channels are used here
    assert all(len(c) == num_frames for c in channels)
    frames = np.zeros((num_frames, num_channels), dtype=out_code)
    for i, c in enumerate(channels):
        native = c.astype(c.dtype.newbyteorder("="))
        frames[:, i] = native.astype(np.dtype(out_code[1:]))
    data = frames.tobytes()
    block_align = num_channels * width
    fmt = struct.pack(
        "<HHIIHH", 1, num_channels, sample_rate, sample_rate * block_align,
        block_align, 8 * width
    )
    body = b"WAVE" + b"fmt " + struct.pack("<I", 16) + fmt \
        + b"data" + struct.pack("<I", len(data)) + data
    return b"RIFF" + struct.pack("<I", len(body)) + body


def main():
    problems = []
    num_cases = 0

    tables_before = None
    if hasattr(data_streams, "_SIGNED_DTYPES"):
        tables_before = (
            dict(data_streams._SIGNED_DTYPES),
            dict(data_streams._UNSIGNED_DTYPES),
        )

    # 1. the property itself ------------------------------------------------
    bool_log = []
    signed_values = [
        True, False, 1, 0, 2, -1, None, "", "x", 0.0, 0.5, [], [0], (),
        np.bool_(True), np.bool_(False), np.int16(0), np.int16(3),
    ]
    widths = [
        1, 2, 4, 8, 0, 3, 5, 6, 7, 9, 16, -1, -2, 2 ** 40,
        True, False, 1.0, 2.0, 4.0, 8.0, 2.5, "2", b"\x02", None, (2,),
        np.int8(2), np.int64(8), np.uint8(4), np.float32(1.0),
        [], [2], {}, {2}, bytearray(b"\x02"),
    ]
    for is_signed, width in itertools.product(signed_values, widths):
        for endianess, channels in (
                (Endianess.LITTLE, 1), (Endianess.BIG, 2), (Endianess.BIG, 0)):
            num_cases += 1
            enc = StreamEncoding(endianess, width, channels, is_signed)
            a = describe(outcome(orig_dtype, enc))
            b = describe(outcome(lambda e: e.dtype, enc))
            if a != b:
                problems.append(
                    f"dtype differs for is_signed={is_signed!r} "
                    f"width={width!r}: orig={a!r} tree={b!r}"
                )
    for value in (True, False):
        log_a, log_b = [], []
        a = describe(outcome(
            orig_dtype, StreamEncoding(Endianess.LITTLE, 4, 1, Truthy(value, log_a))
        ))
        b = describe(outcome(
            lambda e: e.dtype,
            StreamEncoding(Endianess.LITTLE, 4, 1, Truthy(value, log_b))
        ))
        num_cases += 1
        if a != b or log_a != log_b:
            problems.append(f"Truthy({value}): {a!r} {log_a} vs {b!r} {log_b}")
    enc = StreamEncoding(Endianess.LITTLE, 2, 1, RaisingBool())
    num_cases += 1
    if outcome(orig_dtype, enc) != outcome(lambda e: e.dtype, enc):
        problems.append("RaisingBool outcome differs")

    # dtype is still a read-only property declared on the class
    prop = StreamEncoding.__dict__.get("dtype")
    if not isinstance(prop, property) or prop.fset is not None:
        problems.append("StreamEncoding.dtype is no longer a read-only property")
    if outcome(setattr, StreamEncoding(), "dtype", np.dtype("int8"))[0] != "raised":
        problems.append("StreamEncoding.dtype became assignable")

    # dataclass surface unchanged
    from dataclasses import fields
    if [f.name for f in fields(StreamEncoding)] != [
            "endianess", "sample_width", "num_interleaved_channels", "is_signed"]:
        problems.append("dataclass fields changed")
    if repr(StreamEncoding()) != (
            "StreamEncoding(endianess=<Endianess.LITTLE: 1>, sample_width=1, "
            "num_interleaved_channels=1, is_signed=True)"):
        problems.append("repr changed: " + repr(StreamEncoding()))

    # 2. whole exports --------------------------------------------------------
    rng = np.random.RandomState(1234)
    for width, signed, endianess, layout, num_frames, rate in itertools.product(
            (1, 2, 4), (True, False), (Endianess.LITTLE, Endianess.BIG),
            ("mono", "interleaved", "split"), (0, 1, 7, 1024, 1025, 5000),
            (8000, 44100)):
        num_cases += 1
        if layout == "mono":
            encodings = [StreamEncoding(endianess, width, 1, signed)]
        elif layout == "interleaved":
            encodings = [StreamEncoding(endianess, width, 2, signed)]
        else:
            encodings = [StreamEncoding(endianess, width, 1, signed)] * 2
        payloads = [
            rng.bytes(num_frames * e.sample_width * e.num_interleaved_channels)
            for e in encodings
        ]
        streams = [DataStream(BytesIO(p), e) for p, e in zip(payloads, encodings)]
        num_channels = sum(e.num_interleaved_channels for e in encodings)
        sample = Sample(
            name="x", sample_rate=rate, data_streams=streams,
            num_channels=num_channels
        )
        out = BytesIO()
        WavSampleBuilder.build_stream(sample, out)
        got = out.getvalue()
        want = expected_wav(payloads, encodings, rate)
        if got != want:
            problems.append(
                f"export differs: width={width} signed={signed} "
                f"{endianess.name} {layout} frames={num_frames} rate={rate} "
                f"(len {len(got)} vs {len(want)})"
            )

        # and the block generator alone, with the original dtype patched in
        for s in streams:
            s.stream.seek(0)
        dest = StreamEncoding(Endianess.LITTLE, width, num_channels)
        blocks_tree = list(make_transcoder(streams, dest))
        saved = StreamEncoding.dtype
        try:
            StreamEncoding.dtype = property(orig_dtype)
            blocks_orig = list(make_transcoder(streams, dest))
        finally:
            StreamEncoding.dtype = saved
        if blocks_tree != blocks_orig:
            problems.append(
                f"transcoder blocks differ: width={width} signed={signed} "
                f"{endianess.name} {layout} frames={num_frames}"
            )

    if tables_before is not None:
        tables_after = (
            dict(data_streams._SIGNED_DTYPES),
            dict(data_streams._UNSIGNED_DTYPES),
        )
        if tables_before != tables_after:
            problems.append("hoisted dtype tables were modified by use")

    print(f"{num_cases} cases, {len(problems)} problems")
    for problem in problems[:20]:
        print("  " + problem)
    return 1 if problems else 0


if __name__ == "__main__":
    sys.exit(main())
