"""Equivalence demo for FileStream._get_address_given_sector_index
(smpl_extract/util/fat.py), the address translation behind every
SectorStream._read_sector of an AKAI Segment / Roland file.

The live FileStream, Segment and RolandFile are compared with subclasses that
carry a verbatim copy of the ORIGINAL method.  Compared are: return values,
exception type / message / __cause__ type, object state, and the exact sequence
of seek/read/tell calls on the shared handle, for direct calls, for block reads
of fragmented files (also past the end of the sector list) and for exhaustive
and random interleavings of several files over ONE handle.  The bytes every
file yields under interleaving are also compared with an isolated sequential
read and with the bytes computed straight from the image.
Exit 0 when everything agrees, 1 otherwise.
"""
import io
import itertools
import random
import sys
from io import SEEK_CUR, SEEK_END, SEEK_SET

import numpy as np

from smpl_extract.akai.data_types import AKAI_SECTOR_SIZE
from smpl_extract.akai.sat import Segment
from smpl_extract.roland.s7xx.data_types import ROLAND_CLUSTER_SIZE
from smpl_extract.roland.s7xx.fat import RolandFile
from smpl_extract.util.fat import FileStream
from smpl_extract.util.stream import SectorReadError
from smpl_extract.util.stream import StreamOffset


def original_get_address(self, sector_index, offset):
    """Verbatim copy of the original FileStream method (super() spelled out,
    because the copy lives outside the class body)."""
    try:
        sector  = self.sector_list[sector_index]
    except IndexError as e:
        raise SectorReadError(
            f"Sector {sector_index} lies beyond the "
            f"{len(self.sector_list)} sectors of the file."
        ) from e
    result  = super(FileStream, self)._get_address_given_sector_index(
        sector,
        offset
    )
    return result


def with_original(cls):
    return type("Orig" + cls.__name__, (cls,),
                {"_get_address_given_sector_index": original_get_address})


OrigFileStream = with_original(FileStream)
OrigSegment = with_original(Segment)
OrigRolandFile = with_original(RolandFile)


class TraceIO(io.BytesIO):
    def __init__(self, data):
        super().__init__(data)
        self.trace = []

    def seek(self, off, whence=0):
        self.trace.append(("seek>", off, whence))
        r = super().seek(off, whence)
        self.trace.append(("seek<", r))
        return r

    def tell(self):
        r = super().tell()
        self.trace.append(("tell", r))
        return r

    def read(self, size=-1):
        r = super().read(size)
        self.trace.append(("read", size, len(r), hash(r)))
        return r


FAILURES = []
CHECKS = 0


def check(cond, what):
    global CHECKS
    CHECKS += 1
    if not cond:
        FAILURES.append(what)
        if len(FAILURES) <= 20:
            print("MISMATCH:", what)


def outcome(f, *a, **k):
    try:
        return ("ok", f(*a, **k))
    except BaseException as e:  # noqa: BLE001 - we compare whatever is raised
        return ("exc", type(e).__name__, str(e), type(e.__cause__).__name__)


def state(view):
    return (view.position, view.true_size, view.end_of_file,
            view.sector_length, list(view.sector_list))


def payload(n, seed=0):
    return np.random.RandomState(seed).randint(0, 256, n).astype(np.uint8).tobytes()


# ---------------------------------------------------------------------------
# 1. direct calls
# ---------------------------------------------------------------------------
def direct_calls():
    lists = ([], [0], [3], [5, 2, 9], [1, 1, 1], list(range(40, 0, -3)), (4, 7), [2 ** 40, 0])
    indexes = (0, 1, 2, 3, 5, 12, 13, 14, 100, -1, -2, -3, -4, -14, -15, 2 ** 70,
               True, np.int64(1), np.int64(99), None, 1.0, "0", slice(0, 2))
    offsets = (0, 1, 7, 15, 16, 17, -1, 2 ** 33, 2.5, None)
    for sector_size in (1, 16, 512, 0, -4):
        for sector_list in lists:
            for index in indexes:
                for offset in offsets:
                    a_view = FileStream(io.BytesIO(b""), sector_size, sector_list)
                    b_view = OrigFileStream(io.BytesIO(b""), sector_size, sector_list)
                    a = outcome(a_view._get_address_given_sector_index, index, offset)
                    b = outcome(b_view._get_address_given_sector_index, index, offset)
                    check(repr(a) == repr(b),
                          ("direct", sector_size, sector_list, index, offset, a, b))
                    check(state(a_view) == state(b_view), ("direct-state",))
    r = outcome(FileStream(io.BytesIO(b""), 16, [5, 2, 9])._get_address_given_sector_index, 3, 0)
    check(r == ("exc", "SectorReadError",
                "Sector 3 lies beyond the 3 sectors of the file.", "IndexError"), ("message", r))
    r = outcome(FileStream(io.BytesIO(b""), 16, [5, 2, 9])._get_address_given_sector_index, 1, 4)
    check(r == ("ok", 36), ("value", r))


# ---------------------------------------------------------------------------
# 2. block reads of fragmented files, also beyond the sector list
# ---------------------------------------------------------------------------
def run_script(cls, sector_size, sector_list, script, data, eof_override=None):
    handle = TraceIO(data)
    if cls in (FileStream, OrigFileStream):
        view = cls(handle, sector_size, sector_list)
    else:
        view = cls(handle, sector_list)
    if eof_override is not None:
        view.end_of_file = eof_override  # a directory entry that lies about its size
    log = []
    for op in script:
        if op[0] == "read":
            log.append(outcome(view.read, op[1]))
        elif op[0] == "seek":
            log.append(outcome(view.seek, op[1], op[2]))
        elif op[0] == "poke":
            handle.seek(op[1], SEEK_SET)
        log.append(state(view))
    return log, handle.trace


def scripted():
    rnd = random.Random(5)
    data = payload(16 * 64, 1)
    for trial in range(400):
        sector_size = rnd.choice((1, 4, 16, 16, 32))
        n_sectors = len(data) // sector_size
        sector_list = [rnd.randrange(n_sectors) for _ in range(rnd.randrange(0, 9))]
        eof_override = None
        if rnd.random() < 0.35:
            eof_override = sector_size * (len(sector_list) + rnd.randrange(1, 4))
        script = []
        for _ in range(rnd.randrange(1, 10)):
            r = rnd.random()
            if r < 0.6:
                script.append(("read", rnd.choice((0, 1, 3, sector_size, sector_size + 1,
                                                    3 * sector_size, 1000, None, -1))))
            elif r < 0.85:
                script.append(("seek", rnd.randrange(-4, 12 * sector_size),
                               rnd.choice((SEEK_SET, SEEK_CUR, SEEK_END))))
            else:
                script.append(("poke", rnd.randrange(len(data))))
        a = run_script(FileStream, sector_size, sector_list, script, data, eof_override)
        b = run_script(OrigFileStream, sector_size, sector_list, script, data, eof_override)
        check(a[0] == b[0], ("script-results", trial, sector_size, sector_list, script))
        check(a[1] == b[1], ("script-trace", trial, sector_size, sector_list, script))

    # the two concrete file kinds, with their real sector sizes
    for live, orig, size in ((Segment, OrigSegment, AKAI_SECTOR_SIZE),
                             (RolandFile, OrigRolandFile, ROLAND_CLUSTER_SIZE)):
        big = payload(size * 6, 2)
        for sector_list in ([], [4], [5, 0, 3], [2, 2], [1, 6], [0, 1, 2, 3, 4, 5]):
            for eof_override in (None, size * (len(sector_list) + 1)):
                script = [("read", 0x1000), ("read", 100), ("seek", size - 3, SEEK_SET),
                          ("read", 7), ("poke", 11), ("read", 0x1000), ("read", None)]
                a = run_script(live, size, sector_list, script, big, eof_override)
                b = run_script(orig, size, sector_list, script, big, eof_override)
                check(a == b, ("concrete", live.__name__, sector_list, eof_override))


# ---------------------------------------------------------------------------
# 3. several files over ONE handle (through a shared partition window)
# ---------------------------------------------------------------------------
SECTOR = 16
FILES = (
    # (sector list inside the partition window, block size)
    ([3, 1, 7], 10),
    ([2, 8, 4, 5], 16),
    ([9, 0], 7),
    ([6, 6, 3], 24),
)
WINDOW_START = 32
WINDOW_SIZE = SECTOR * 10


def make_files(cls, handle):
    window = StreamOffset(handle, WINDOW_SIZE, WINDOW_START)  # shared by all files
    return [cls(window, SECTOR, sectors) for sectors, _ in FILES]


def truth(data, sectors):
    window = data[WINDOW_START:WINDOW_START + WINDOW_SIZE]
    return b"".join(window[s * SECTOR:(s + 1) * SECTOR] for s in sectors)


def isolated(cls, data, who):
    view = make_files(cls, io.BytesIO(data))[who]
    out = []
    while True:
        chunk = view.read(FILES[who][1])
        if not chunk:
            break
        out.append(chunk)
    return out


def run_schedule(cls, data, schedule):
    handle = TraceIO(data)
    files = make_files(cls, handle)
    got = [[] for _ in FILES]
    for who in schedule:
        got[who].append(outcome(files[who].read, FILES[who][1]))
    return got, handle.trace, [state(f) for f in files]


def interleavings():
    data = payload(WINDOW_START + WINDOW_SIZE + 40, 3)
    alone = []
    for who, (sectors, _block) in enumerate(FILES):
        a = isolated(FileStream, data, who)
        b = isolated(OrigFileStream, data, who)
        check(a == b, ("isolated", who))
        check(b"".join(a) == truth(data, sectors), ("truth", who))
        alone.append(a + [b""] * 100)

    # exhaustive for 2 and 3 streams x few blocks
    for members, blocks in (((0, 1), 3), ((2, 3), 3), ((0, 1, 2), 2), ((1, 2, 3), 2)):
        base = [m for m in members for _ in range(blocks)]
        for schedule in sorted(set(itertools.permutations(base))):
            a = run_schedule(FileStream, data, schedule)
            b = run_schedule(OrigFileStream, data, schedule)
            check(a == b, ("exhaustive", schedule))
            for who in members:
                seen = [x[1] for x in a[0][who]]
                check(seen == alone[who][:len(seen)], ("isolation", schedule, who))

    rnd = random.Random(17)
    for trial in range(200):
        schedule = [rnd.randrange(len(FILES)) for _ in range(rnd.randrange(4, 40))]
        a = run_schedule(FileStream, data, schedule)
        b = run_schedule(OrigFileStream, data, schedule)
        check(a == b, ("random", trial))
        for who in range(len(FILES)):
            seen = [x[1] for x in a[0][who]]
            check(seen == alone[who][:len(seen)], ("random-isolation", trial, who))


def main():
    direct_calls()
    scripted()
    interleavings()
    print(f"{CHECKS} checks, {len(FAILURES)} mismatches")
    return 1 if FAILURES else 0


if __name__ == "__main__":
    sys.exit(main())
