"""Equivalence demo for r1 (smpl_extract/actions.py: determine_image_type).

Runs the function from the tree and an inline copy of the ORIGINAL
implementation on many inputs (streams and paths; raw / MDF / MDX / cue
containers; Roland and non-Roland payloads; error cases) and compares
  * the kind of object returned (or the exception raised),
  * the chain of stream wrappers handed to the image parser,
  * the complete trace of tell/seek/read calls made on the input stream.
Exit status 0 when everything agrees, 1 otherwise.
"""
import io
import os
import random
import sys
import tempfile

import smpl_extract.actions as actions
from smpl_extract.actions import BadTextFile, parse_text_file
from smpl_extract.alcohol.mdf import (
    MDF_SECTOR_HEADER_MAGIC, is_mdf_image, MdfStream)
from smpl_extract.alcohol.mdx import (
    MdxHeaderConstruct, is_mdx_image, MdxStream)
from smpl_extract.cuesheet import BadCueSheet
from smpl_extract.roland.s7xx.image import IdAreaStruct, is_roland_s7xx_image


# --------------------------------------------------------------------------
# stubs for the heavy image parsers: we only want to know which one is chosen
# and with which stream
class Chosen:
    def __init__(self, kind, stream):
        self.kind = kind
        self.stream = stream


def AkaiImageParser(stream):
    return Chosen("akai", stream)


def RolandSxxImageParser(stream):
    return Chosen("roland", stream)


actions.AkaiImageParser = AkaiImageParser
actions.RolandSxxImageParser = RolandSxxImageParser


# --------------------------------------------------------------------------
# ORIGINAL implementation (verbatim copy from the unmodified tree)
def original_determine_image_type(file):
    if isinstance(file, str):
        is_textfile = True
        lines = []
        try:
            lines = parse_text_file(file)
        except BadTextFile:
            is_textfile = False

        if is_textfile:
            parent_directory = os.path.dirname(file)
            try:
                result = attempt_parse_cue_sheet(lines, parent_directory)
                return result
            except BadCueSheet:
                pass

        file_stream = open(file, "rb")
    else:
        file_stream = file

    if is_mdf_image(file_stream):
        file_stream = MdfStream(file_stream)
    elif is_mdx_image(file_stream):
        file_stream = MdxStream(file_stream)

    if is_roland_s7xx_image(file_stream):
        result = RolandSxxImageParser(file_stream)
    else:
        result = AkaiImageParser(file_stream)
    return result


# attempt_parse_cue_sheet recurses into determine_image_type; the original
# must recurse into the original and the tree version into the tree version.
_tree_attempt = actions.attempt_parse_cue_sheet
_attempt_code = _tree_attempt.__code__
import types
_orig_globals = dict(actions.__dict__)
_orig_globals["determine_image_type"] = original_determine_image_type
attempt_parse_cue_sheet = types.FunctionType(
    _attempt_code, _orig_globals, "attempt_parse_cue_sheet",
    _tree_attempt.__defaults__)


# --------------------------------------------------------------------------
class Traced(io.BytesIO):
    def __init__(self, data):
        super().__init__(data)
        self.log = []

    def tell(self):
        r = super().tell()
        self.log.append(("tell", r))
        return r

    def seek(self, *a):
        r = super().seek(*a)
        self.log.append(("seek", a, r))
        return r

    def read(self, *a):
        r = super().read(*a)
        self.log.append(("read", a, len(r)))
        return r


def roland_header():
    return IdAreaStruct.build(dict(
        revision=1,
        s7xx_str="S770 MR25A",
        empty_str="",
        version_str="S-770 Hard Disk Ver. 2.25",
        copyright_str="Copyright Roland",
        disk_name="DEMO DISK",
        disk_capacity=1234,
        num_volumes=0, num_performances=0, num_patches=0,
        num_partials=0, num_samples=0,
    ))


def wrap_mdf(data):
    out = bytearray()
    n = (len(data) + 2047) // 2048
    for i in range(n):
        body = data[i * 2048:(i + 1) * 2048].ljust(2048, b"\x00")
        out += MDF_SECTOR_HEADER_MAGIC + i.to_bytes(3, "big") + b"\x01"
        out += body + bytes(288)
    return bytes(out)


def wrap_mdx(data):
    hdr = MdxHeaderConstruct.build(dict(
        copyright=b"\xA9" + b" " * 25, eof=64 + len(data)))
    return hdr + data


def describe(result):
    if isinstance(result, Chosen):
        chain = []
        s = result.stream
        while True:
            chain.append((type(s).__name__,
                          getattr(s, "end_of_file", None),
                          getattr(s, "offset", None),
                          getattr(s, "position", None)))
            if hasattr(s, "substream"):
                s = s.substream
            else:
                break
        base = s
        name = getattr(base, "name", None)
        pos = base.tell() if not isinstance(base, Traced) \
            else io.BytesIO.tell(base)
        return ("chosen", result.kind, tuple(chain), name, pos)
    # CDDA image
    return ("other", type(result).__name__,
            [c.name for c in getattr(result, "children", [])])


def run(func, arg):
    try:
        return ("ok", describe(func(arg)))
    except Exception as e:  # noqa
        return ("exc", type(e).__name__, str(e))


failures = 0
checked = 0
outcomes = {}


def compare(label, make_arg):
    global failures, checked
    a1 = make_arg()
    a2 = make_arg()
    r1 = run(original_determine_image_type, a1)
    r2 = run(actions.determine_image_type, a2)
    l1 = getattr(a1, "log", None)
    l2 = getattr(a2, "log", None)
    checked += 1
    key = r1[1][:2] if r1[0] == "ok" else r1[:2]
    outcomes[key] = outcomes.get(key, 0) + 1
    if r1 != r2 or l1 != l2:
        failures += 1
        print("MISMATCH", label, r1, r2)


rng = random.Random(9)
payloads = {}
for size in (0, 1, 11, 12, 16, 63, 64, 511, 512, 2047, 2048, 2049, 4096,
             5000, 3 * 2048, 3 * 2048 + 17):
    payloads[f"zeros{size}"] = bytes(size)
    payloads[f"rand{size}"] = bytes(rng.randrange(256) for _ in range(size))
    rh = roland_header()
    payloads[f"roland{size}"] = (rh + bytes(max(0, size - len(rh))))
    payloads[f"rolandcut{size}"] = rh[:size]
# near-miss signatures
payloads["mdfmagic_only"] = MDF_SECTOR_HEADER_MAGIC
payloads["mdfmagic_badmode"] = MDF_SECTOR_HEADER_MAGIC + b"\x00\x00\x00\x02" + bytes(3000)
payloads["mdxmagic_only"] = b"MEDIA DESCRIPTOR"
payloads["mdx_badcopyright"] = b"MEDIA DESCRIPTOR" + bytes(100)
bad_roland = bytearray(roland_header()); bad_roland[4] = 0xFF
payloads["roland_nonascii"] = bytes(bad_roland)
bad_roland2 = bytearray(roland_header()); bad_roland2[4:8] = b"X770"
payloads["roland_badsig"] = bytes(bad_roland2)

# 1. stream inputs, every container, several initial positions
for name, data in payloads.items():
    for cname, wrap in (("raw", lambda d: d), ("mdf", wrap_mdf),
                        ("mdx", wrap_mdx),
                        ("mdx_in_mdf", lambda d: wrap_mdf(wrap_mdx(d))),
                        ("mdf_in_mdx", lambda d: wrap_mdx(wrap_mdf(d)))):
        blob = wrap(data)
        for pos in (0, 5, len(blob)):
            def mk(blob=blob, pos=pos):
                t = Traced(blob)
                io.BytesIO.seek(t, min(pos, len(blob)))
                return t
            compare(f"stream/{name}/{cname}/{pos}", mk)

# 2. path inputs
with tempfile.TemporaryDirectory() as tmp:
    def put(fname, data):
        p = os.path.join(tmp, fname)
        mode = "wb" if isinstance(data, bytes) else "w"
        with open(p, mode) as f:
            f.write(data)
        return p

    paths = []
    for name in ("zeros2048", "rand5000", "roland4096", "roland2049",
                 "rolandcut63", "zeros0"):
        data = payloads[name]
        paths.append(put(name + ".raw", data))
        paths.append(put(name + ".mdf", wrap_mdf(data)))
        paths.append(put(name + ".mdx", wrap_mdx(data)))
        for ext in ("raw", "mdf", "mdx"):
            for mode in ("MODE1/2352", "MODE1/2048", "mode2/2336"):
                cue = (f'FILE "{name}.{ext}" BINARY\n'
                       f'  TRACK 01 {mode}\n    INDEX 01 00:00:00\n')
                paths.append(put(f"{name}_{ext}_{mode.replace('/', '_')}.cue", cue))
            cue = (f'FILE "{name}.{ext}" BINARY\n'
                   f'  TRACK 01 AUDIO\n    INDEX 01 00:00:00\n'
                   f'  TRACK 02 MODE1/2352\n    INDEX 01 00:02:00\n')
            paths.append(put(f"{name}_{ext}_mixed.cue", cue))
    # all-audio cue -> CDDA
    put("audio.bin", bytes(2352 * 75 * 3))
    paths.append(put("audio.cue",
                     'FILE "audio.bin" BINARY\n'
                     '  TRACK 01 AUDIO\n    TITLE "One"\n    INDEX 01 00:00:00\n'
                     '  TRACK 02 audio\n    INDEX 01 00:01:00\n'
                     '  TRACK 03 Audio\n    INDEX 01 00:02:00\n'))
    paths.append(put("notracks.cue", 'FILE "audio.bin" BINARY\n'))
    paths.append(put("missingbin.cue",
                     'FILE "nope.bin" BINARY\n  TRACK 01 MODE1/2352\n'))
    paths.append(put("missingbin_audio.cue",
                     'FILE "nope.bin" BINARY\n  TRACK 01 AUDIO\n'))
    paths.append(put("plain.txt", "hello world\nthis is not a cue sheet\n"))
    paths.append(put("empty.txt", ""))
    paths.append(put("badtrack.cue", 'FILE "audio.bin" BINARY\n  garbage\n'))
    paths.append(os.path.join(tmp, "does_not_exist.img"))
    paths.append(tmp)  # a directory

    for p in paths:
        compare("path/" + os.path.basename(p), lambda p=p: p)

# 3. non-stream, non-str input
compare("none", lambda: None)
compare("int", lambda: 5)

for k in sorted(outcomes, key=str):
    print("  outcome", k, outcomes[k])
print(f"checked {checked} cases, {failures} mismatches")
sys.exit(1 if failures else 0)
