"""Equivalence demo for StreamWrapper._seek and StreamOffset
(smpl_extract/util/stream.py).

An inline copy of the ORIGINAL StreamWrapper._seek / StreamOffset is compared
with the live classes: constructor results (positional and keyword calls,
defaults, bad calls), _translate_addr/_seek return values, and - over a shared
traced file handle - the bytes, positions and the exact sequence of
seek/read/tell calls issued on the underlying stream for exhaustive and random
interleavings of reads and seeks on several (also nested) windows.
Exit 0 when everything agrees.
"""
import io
import itertools
import random
import sys
from io import IOBase, SEEK_CUR, SEEK_END, SEEK_SET
from typing import Union

from smpl_extract.util.stream import StreamOffset as LiveOffset
from smpl_extract.util.stream import StreamWrapper as LiveWrapper
from smpl_extract.util.stream import StreamReversed as LiveReversed
from smpl_extract.util.stream import BadReadSize, BadAlign


# ---------------------------------------------------------------- originals
class OrigWrapper(IOBase):
    def __init__(self, substream, size, position=0, buffer_length=0x1000):
        self.substream = substream
        self.end_of_file = size
        self.position = position
        self.buffer_length = buffer_length
        self.true_size = buffer_length

    def _translate_addr(self, address: int)->int:
        return address

    def _seek(self, address: int)->int:
        true_address = self._translate_addr(address)
        result = self.substream.seek(true_address, SEEK_SET)
        return result

    def _read(self, size: int)->bytes:
        result = self.substream.read(size)
        return result

    def tell(self)->int:
        return self.position

    def seek(self, offset: int, whence: int = SEEK_CUR):
        starting_position = 0
        if whence == SEEK_CUR:
            starting_position = self.position
        elif whence == SEEK_END:
            starting_position = self.end_of_file

        new_position = starting_position + offset
        if new_position > self.end_of_file:
            new_position = self.end_of_file
        elif new_position < 0:
            new_position = 0

        self.true_size = 0
        self._seek(new_position)
        self.position = new_position
        return new_position

    def read(self, size: Union[int, None])->bytes:
        if size is None or size < 0:
            return self.readall()

        self.true_size = size
        if self.end_of_file is not None:  # as in the tree after the empty-view fix
            self.true_size = min(self.end_of_file - self.position, size)
        if self.true_size < 0:
            self.true_size = 0

        true_position = self.substream.tell()
        expected_position = self._translate_addr(self.position)
        if expected_position != true_position:
            self._seek(self.position)

        result = self._read(self.true_size)
        self.position += self.true_size
        return result

    def readall(self)->bytes:
        result = bytes()
        while True:
            new_read = self.read(self.buffer_length)
            if len(new_read) < 1:
                break
            result += new_read
        return result


class OrigOffset(OrigWrapper):

    def __init__(
            self,
            substream:      IOBase,
            size:           int,
            offset:         int,
            position:       int = 0,
            buffer_length:  int = 0x1000
    ) -> None:
        super().__init__(
            substream,
            size,
            position=position,
            buffer_length=buffer_length
        )
        self.offset = offset

    def _translate_addr(self, address: int)->int:
        true_address = self.offset + address
        return true_address


class OrigReversed(OrigWrapper):
    """Original StreamReversed address translation (its _seek is inherited)."""

    def __init__(self, substream, size, sample_width=1, position=0, buffer_length=0x1000):
        super().__init__(substream, size, position=position, buffer_length=buffer_length)
        self.sample_width = sample_width

    def _translate_addr(self, address: int) -> int:
        if self.true_size % self.sample_width != 0:
            raise BadReadSize(
                f"Read Size: {self.true_size} is not evenly "
                f"divisible by {self.sample_width}."
            )
        true_address = self.end_of_file - (address + self.true_size)
        if true_address % self.sample_width != 0:
            raise BadAlign(
                f"Position: {true_address} is not evenly "
                f"divisible by {self.sample_width}."
            )
        return true_address


ORIG = {"W": OrigWrapper, "O": OrigOffset, "R": OrigReversed}
LIVE = {"W": LiveWrapper, "O": LiveOffset, "R": LiveReversed}


# ------------------------------------------------------------------ helpers
class TraceIO(io.BytesIO):
    def __init__(self, data):
        super().__init__(data)
        self.trace = []

    def seek(self, off, whence=0):
        r = super().seek(off, whence)
        self.trace.append(("seek", off, whence, r))
        return r

    def read(self, n=-1):
        r = super().read(n)
        self.trace.append(("read", n, len(r)))
        return r

    def tell(self):
        r = super().tell()
        self.trace.append(("tell", r))
        return r


class NoSeek:
    """Underlying object whose seek raises: the error must surface unchanged."""
    def seek(self, *a):
        raise OSError("no seek %r" % (a,))

    def tell(self):
        return 0

    def read(self, n):
        return b""


FAILS = []
COUNT = [0]


def check(label, a, b):
    COUNT[0] += 1
    if a != b:
        FAILS.append(label)
        if len(FAILS) < 10:
            print("MISMATCH", label, "\n  orig:", a, "\n  live:", b)


def state(w):
    d = dict(w.__dict__)
    d.pop("substream", None)
    return sorted(d.items())


def guarded(f):
    try:
        return ("ok", f())
    except Exception as e:  # noqa
        return ("exc", type(e).__name__, str(e))


_RND = random.Random(6)
DATA = bytes(_RND.randrange(256) for _ in range(3000))


# ------------------------------------------------------------- scenarios
def constructor_cases(impl):
    O = impl["O"]
    h = io.BytesIO(DATA)
    out = []
    calls = [
        lambda: O(h, 10, 5),
        lambda: O(h, 10, 5, 3),
        lambda: O(h, 10, 5, 3, 64),
        lambda: O(h, size=10, offset=5),
        lambda: O(h, 10, offset=5, buffer_length=7),
        lambda: O(substream=h, size=0, offset=0, position=9, buffer_length=1),
        lambda: O(h, None, 2),
        lambda: O(h, -4, -2, -1, -8),
        lambda: O(buffer_length=2, position=1, offset=3, size=4, substream=h),
    ]
    for c in calls:
        w = c()
        out.append((state(w), w.substream is h, w.tell(),
                    [w._translate_addr(a) for a in (-3, 0, 1, 77, 10**12)]))
    bad = [
        lambda: O(h, 10),
        lambda: O(h),
        lambda: O(h, 10, 5, 3, 64, 1),
        lambda: O(h, 10, 5, offset=6),
        lambda: O(h, 10, 5, nope=1),
    ]
    for c in bad:
        r = guarded(c)
        out.append(r[:2])   # message mentions the class name, compare the type only
    return out


def seek_primitive_cases(impl):
    out = []
    for kind, args in (("W", (100,)), ("O", (100, 40)), ("O", (100, 0)), ("O", (50, 2950))):
        h = TraceIO(DATA)
        w = impl[kind](h, *args)
        for a in (0, 1, 50, 99, 100, 101, 2999, 5000):
            out.append((kind, args, a, w._seek(a), h.tell(), state(w)))
        out.append(guarded(lambda: w._seek(-10**6)))   # BytesIO rejects negative
        out.append(h.trace)
        out.append(guarded(lambda: impl[kind](NoSeek(), *args)._seek(3)))
        out.append(guarded(lambda: impl[kind](NoSeek(), *args).seek(3, 0)))
    # reversed view: _translate_addr may raise before the underlying seek happens
    for sw, size, rd in itertools.product((1, 2, 3), (12, 13), (0, 2, 3, 4)):
        h = TraceIO(DATA[:64])
        w = impl["R"](h, size, sw)
        w.true_size = rd
        out.append((sw, size, rd, [guarded(lambda a=a: w._seek(a)) for a in range(0, 8)], h.trace))
    return out


OPS = [("r", 0), ("r", 1), ("r", 5), ("r", 40), ("s", 0, 0), ("s", 7, 0), ("s", -3, 1),
       ("s", 4, 1), ("s", -6, 2), ("s", 900, 0), ("t",), ("r", None)]


def make_windows(impl, handle):
    a = impl["O"](handle, 60, 100, buffer_length=16)
    b = impl["O"](handle, 60, 130, 5, 16)               # overlaps a, starts at 5
    c = impl["W"](handle, 48, buffer_length=16)
    d = impl["O"](a, 20, 10, buffer_length=8)            # nested in a
    e = impl["O"](d, 8, 4, buffer_length=8)              # nested twice
    return [a, b, c, d, e]


def apply_op(w, op):
    if op[0] == "r":
        return w.read(op[1])
    if op[0] == "s":
        return w.seek(op[1], op[2])
    return w.tell()


def schedule(impl, sched):
    handle = TraceIO(DATA)
    wins = make_windows(impl, handle)
    out = []
    for wi, op in sched:
        out.append(guarded(lambda: apply_op(wins[wi], op)))
    return out, handle.trace, [state(w) for w in wins]


def main():
    check("constructors", constructor_cases(ORIG), constructor_cases(LIVE))
    check("seek-primitive", seek_primitive_cases(ORIG), seek_primitive_cases(LIVE))

    # exhaustive: 2 streams x 3 steps, small op alphabet
    small = [("r", 5), ("r", 40), ("s", 7, 0), ("s", -6, 2)]
    steps = [(wi, op) for wi in (0, 3) for op in small]
    for sched in itertools.product(steps, repeat=3):
        check("exh%r" % (sched,), schedule(ORIG, sched), schedule(LIVE, sched))

    # random: 5 windows, long schedules, full alphabet
    for seed in range(400):
        rnd = random.Random(seed)
        sched = [(rnd.randrange(5), rnd.choice(OPS)) for _ in range(rnd.randrange(1, 40))]
        check("rnd%d" % seed, schedule(ORIG, sched), schedule(LIVE, sched))

    # isolation itself: every window read in blocks while others interleave equals the plain slice
    for seed in range(100):
        rnd = random.Random(1000 + seed)
        handle = io.BytesIO(DATA)
        wins = make_windows(LIVE, handle)
        wins[1].seek(0, 0)
        want = [DATA[100:160], DATA[130:190], DATA[:48], DATA[110:130], DATA[114:122]]
        got = [b""] * 5
        # a and d serve as parents of d and e, so only the leaf views are
        # consumed as streams here (a parent's cursor is moved by its children)
        leaves = (1, 2, 4)
        want = [want[i] if i in leaves else b"" for i in range(5)]
        live = set(leaves)
        while live:
            i = rnd.choice(sorted(live))
            blk = wins[i].read(rnd.choice([1, 3, 8, 16]))
            if not blk:
                live.discard(i)
            got[i] += blk
        check("isolation%d" % seed, want, got)

    print("checks:", COUNT[0], "failures:", len(FAILS))
    return 1 if FAILS else 0


if __name__ == "__main__":
    sys.exit(main())
