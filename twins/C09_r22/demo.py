"""Equivalence demo for r22: smpl_extract/util/sector.py SectorStream._read_sector,
the single-sector read that MdfStream (the 2352-byte raw-sector unwrapping chosen
by determine_image_type after is_mdf_image) inherits; every read of a raw-sector
image goes through it.

The refactoring moves the "does this read stay inside one sector" guard into a
new private method `_check_inside_sector(offset, size)` (which raises
AttemptToReadBeyondBuffer("Reading too much")), names the sum in the test
(`read_end = offset + size; if read_end > self.sector_length`), renames the
local start_address -> parent_address and returns `self.substream.read(size)`
directly instead of through a `result` temporary.

The ORIGINAL method is pasted below and installed in subclasses of SectorStream
and MdfStream.  Checks:
  * _read_sector called directly with many (sector_index, offset, size),
    including offset + size just below / equal to / just above the sector length,
    zero and negative values, indices beyond the end of the parent, floats
    (inf and nan included) and non-numbers: same bytes or same exception type and
    message, and the same sequence of seek/read/tell calls on the parent stream;
  * random scripts of seek / read / tell / readall on SectorStream and MdfStream
    built on the live class and on the original one (sizes that straddle the
    2048-byte user-data boundary, parents that are and are not a whole number of
    sectors, parents that fail at the k-th call): same results, same positions,
    same parent call log;
  * end to end: Roland images and a junk (AKAI-fallback) image delivered raw, as
    2352-byte sectors, MDX-wrapped and through cue sheets in a fresh temp
    directory: same kind and same `ls` text everywhere, and the raw-sector
    variant read with the live class equals the one read with the original
    method patched in.
"""
import contextlib
import io
import os
import random
import shutil
import struct
import sys
import tempfile
from io import SEEK_SET

from smpl_extract import actions
from smpl_extract.alcohol import mdf as mdf_module
from smpl_extract.alcohol.mdf import MdfStream
from smpl_extract.alcohol.mdx import MdxHeaderConstruct
from smpl_extract.roland.s7xx.data_types import FAT_AREA_ID
from smpl_extract.roland.s7xx.data_types import FAT_AREA_OFFSET
from smpl_extract.roland.s7xx.data_types import FAT_AREA_SIZE
from smpl_extract.roland.s7xx.image import IdAreaStruct
from smpl_extract.util.sector import SectorStream
from smpl_extract.util.stream import AttemptToReadBeyondBuffer


# ---- the ORIGINAL method, verbatim -----------------------------------------------
def original_read_sector(
        self,
        sector_index: int,
        offset: int,
        size: int
)->bytes:
    if offset + size > self.sector_length:
        raise AttemptToReadBeyondBuffer("Reading too much")

    start_address = self._get_address_given_sector_index(
        sector_index,
        offset
    )

    self.substream.seek(start_address, SEEK_SET)
    result = self.substream.read(size)
    return result
# --------------------------------------------------------------------------------


class OriginalSectorStream(SectorStream):
    _read_sector = original_read_sector


class OriginalMdfStream(MdfStream):
    _read_sector = original_read_sector


failures = []
checks = 0


def check(label, a, b):
    global checks
    checks += 1
    if a != b and repr(a) != repr(b):      # repr: nan arguments echoed in the call logs
        failures.append((label, a, b))


class Boom(Exception):
    pass


def outcome(fn):
    try:
        return ("ok", fn())
    except Exception as e:  # noqa: BLE001 - compared, not hidden
        return ("exc", type(e).__name__, str(e))


class Parent(io.BytesIO):
    """Parent stream that logs every call and can fail at the k-th one."""

    def __init__(self, data, fail_at=None):
        super().__init__(data)
        self.log = []
        self.fail_at = fail_at

    def _note(self, entry):
        self.log.append(entry)
        if self.fail_at is not None and len(self.log) == self.fail_at:
            raise Boom(f"call {self.fail_at}")

    def tell(self):
        self._note(("tell",))
        return super().tell()

    def seek(self, *a):
        self._note(("seek",) + a)
        return super().seek(*a)

    def read(self, *a):
        self._note(("read",) + a)
        return super().read(*a)


def header(sector_id):
    return b"\x00" + b"\xFF" * 10 + b"\x00" + struct.pack(">I", sector_id)[1:] + b"\x01"


def mdf_wrap(payload, footer=bytes(288)):
    out = bytearray()
    for i in range(0, len(payload), 2048):
        out += header(i // 2048) + payload[i:i + 2048].ljust(2048, b"\0") + footer
    return bytes(out)


def mdx_wrap(payload):
    return MdxHeaderConstruct.build(dict(
        copyright=b"\xA9" + b" " * 25,
        eof=MdxHeaderConstruct.sizeof() + len(payload),
    )) + payload


def build(kind, original, data, fail_at=None, sector_length=2048, size=None, position=0):
    parent = Parent(data)
    if kind == "mdf":
        cls = OriginalMdfStream if original else MdfStream
        stream = cls(parent, position=position)
    else:
        cls = OriginalSectorStream if original else SectorStream
        stream = cls(
            parent,
            size=len(data) if size is None else size,
            sector_length=sector_length,
            position=position,
        )
    parent.log.clear()
    parent.fail_at = fail_at
    return stream, parent


def state(stream, parent):
    return (stream.position, stream.true_size, stream.end_of_file, io.BytesIO.tell(parent))


def direct_calls(rng):
    nan = float("nan")
    inf = float("inf")
    for kind, data, sector_length in (
        ("mdf", mdf_wrap(bytes(rng.randrange(256) for _ in range(2048 * 5 + 300))), 2048),
        ("mdf", mdf_wrap(bytes(rng.randrange(256) for _ in range(4096)))[:-1000], 2048),
        ("sector", bytes(rng.randrange(256) for _ in range(1000)), 64),
        ("sector", bytes(rng.randrange(256) for _ in range(333)), 7),
        ("sector", b"", 16),
    ):
        L = sector_length
        triples = []
        for offset in (0, 1, L // 2, L - 1, L, L + 1, -1, -L):
            for size in (0, 1, L - offset - 1, L - offset, L - offset + 1, L, L + 1, -1, 10**9):
                triples.append((rng.choice([0, 1, 2, 5, 6, 1000, -1]), offset, size))
        for _ in range(600):
            triples.append((rng.randrange(-2, 12), rng.randrange(-3, L + 4), rng.randrange(-3, L + 4)))
        for odd in (1.5, float(L), nan, inf, -inf, None, "7", b"7", True, [1]):
            triples.append((1, odd, 3))
            triples.append((1, 3, odd))
            triples.append((odd, 0, 4))
            triples.append((0, odd, odd))
        raised = 0
        for n, (index, offset, size) in enumerate(triples):
            results = []
            for original in (False, True):
                stream, parent = build(kind, original, data, sector_length=L)
                out = outcome(lambda: stream._read_sector(index, offset, size))
                results.append((out, parent.log, state(stream, parent)))
            check(("direct", kind, L, n, repr((index, offset, size))), results[0], results[1])
            raised += results[1][0][:2] == ("exc", "AttemptToReadBeyondBuffer")
        check(("direct guard exercised", kind, L), raised > 50, True)

        # the guard itself: exactly the original comparison
        stream, _ = build(kind, False, data, sector_length=L)
        for offset in range(-2, L + 3, max(1, L // 37)):
            for size in (L - offset - 1, L - offset, L - offset + 1):
                expected = offset + size > L
                got = outcome(lambda: stream._read_sector(0, offset, size))[:2] == ("exc", "AttemptToReadBeyondBuffer")
                check(("guard boundary", kind, L, offset, size), got, expected)


def perform(stream, parent, script):
    trace = []
    for op, *args in script:
        if op == "seek":
            out = outcome(lambda: stream.seek(*args))
        elif op == "read":
            out = outcome(lambda: stream.read(*args))
        elif op == "readall":
            out = outcome(stream.readall)
        else:
            out = outcome(stream.tell)
        trace.append((op, args, out, state(stream, parent)))
    return trace


def random_script(rng, span, sector_length):
    L = sector_length
    script = []
    for _ in range(rng.randrange(1, 12)):
        roll = rng.random()
        if roll < 0.35:
            whence = rng.choice([0, 0, 1, 2])
            base = {0: rng.randrange(0, span + L), 1: rng.randrange(-L, L), 2: -rng.randrange(0, span + 2)}[whence]
            if rng.random() < 0.5:                      # land next to a sector boundary
                base = base - base % L + rng.choice([-2, -1, 0, 1])
            script.append(("seek", base, whence))
        elif roll < 0.9:
            size = rng.choice([
                0, 1, 2, L - 1, L, L + 1, 2 * L, 2 * L + 1, 3 * L - 1,
                rng.randrange(0, 4 * L), rng.randrange(0, 40), -1, None,
            ])
            script.append(("read", size))
        elif roll < 0.95:
            script.append(("readall",))
        else:
            script.append(("tell",))
    return script


def scripted(rng):
    payloads = [bytes(rng.randrange(256) for _ in range(n)) for n in (0, 1, 2047, 2048, 2049, 3 * 2048, 5 * 2048 + 777)]
    for n in range(500):
        kind = rng.choice(["mdf", "mdf", "sector"])
        fail_at = rng.choice([None, None, None, 1, 2, 3, 5, 8])
        if kind == "mdf":
            payload = rng.choice(payloads)
            data = mdf_wrap(payload, footer=bytes(rng.randrange(256) for _ in range(288)))
            if rng.random() < 0.3 and data:
                data = data[:len(data) - rng.randrange(1, 2352)]     # not a whole number of sectors
            L, span, kw = 2048, len(payload), {}
        else:
            L = rng.choice([1, 2, 7, 64, 512])
            data = bytes(rng.randrange(256) for _ in range(rng.randrange(0, 5000)))
            span = len(data)
            kw = dict(sector_length=L, size=rng.choice([len(data), len(data) // 2, len(data) + 50]))
        position = rng.choice([0, 0, 0, rng.randrange(0, span + 1)])
        script = random_script(rng, span, L)
        results = []
        for original in (False, True):
            stream, parent = build(kind, original, data, fail_at=fail_at, position=position, **kw)
            trace = perform(stream, parent, script)
            results.append((trace, parent.log))
        check(("script", n, kind, fail_at), results[0], results[1])

    # the unwrapped bytes are the payload
    for payload in payloads:
        stream, _ = build("mdf", False, mdf_wrap(payload))
        whole = stream.read(len(payload) + 5000)
        padded = payload.ljust(-(-len(payload) // 2048) * 2048, b"\0")
        check(("unwrapped payload", len(payload)), whole, padded)
        for _ in range(40):
            start = rng.randrange(0, len(padded) + 1)
            size = rng.randrange(0, 3 * 2048)
            stream.seek(start, 0)
            check(("window", len(payload), start, size), stream.read(size), padded[start:start + size])


def make_roland_image(rng, extra):
    values = dict(
        revision=rng.randint(0, 2**32 - 1),
        s7xx_str="S770 MR25A",
        empty_str="",
        version_str=rng.choice(["S-770 Hard Disk Ver. 2.25", "S-750 MO Disk Ver 1.02a"]),
        copyright_str="Copyright Roland",
        disk_name=rng.choice(["MYDISK", "A B C"]),
        disk_capacity=rng.randint(0, 2**32 - 1),
        num_volumes=0,
        num_performances=0,
        num_patches=rng.randint(0, 0xFFFF),
        num_partials=rng.randint(0, 0xFFFF),
        num_samples=rng.randint(0, 0xFFFF),
    )
    img = bytearray(0x110000 + extra)
    ida = IdAreaStruct.build(values)
    img[:len(ida)] = ida
    fat = bytearray(FAT_AREA_SIZE)
    struct.pack_into("<HH", fat, 0, FAT_AREA_ID, 77)
    struct.pack_into("<HH", fat, FAT_AREA_SIZE - 4, 0xFFFF, 0xFFFF)
    img[FAT_AREA_OFFSET:FAT_AREA_OFFSET + FAT_AREA_SIZE] = fat
    return bytes(img)


def ls_text(image, path=""):
    buf = io.StringIO()
    with contextlib.redirect_stdout(buf):
        actions.ls_action(image, path)
    return buf.getvalue()


def end_to_end(rng):
    workdir = tempfile.mkdtemp(prefix="r22_demo_")
    try:
        cases = [("RolandS7xxImage", make_roland_image(rng, extra)) for extra in (0, 777, 2048)]
        cases.append(("AkaiImageParser", bytes(rng.randrange(256) for _ in range(2048 * 9))))
        for n, (expected_type, payload) in enumerate(cases):
            blobs = {"raw": payload, "mdf": mdf_wrap(payload), "mdx": mdx_wrap(payload)}
            paths = {}
            for kind, blob in blobs.items():
                paths[kind] = os.path.join(workdir, f"img{n}.{kind}")
                with open(paths[kind], "wb") as f:
                    f.write(blob)
            for kind in ("raw", "mdf"):
                cue = os.path.join(workdir, f"img{n}.{kind}.cue")
                with open(cue, "w", encoding="ascii") as f:
                    f.write(f"FILE \"img{n}.{kind}\" BINARY\n  TRACK 01 MODE1/2352\n    INDEX 01 00:00:00\n")
                paths["cue->" + kind] = cue

            listings = {}
            for kind, path in paths.items():
                image = actions.determine_image_type(path)
                check(("e2e type", n, kind), type(image).__name__, expected_type)
                listings[kind] = ls_text(image)
            if expected_type == "RolandS7xxImage":
                check(("e2e same everywhere", n), len(set(listings.values())), 1)
            else:
                # the junk image is not a whole listing test, only raw-sector vs raw
                check(("e2e mdf as raw", n), listings["mdf"], listings["raw"])
                check(("e2e cue->mdf as raw", n), listings["cue->mdf"], listings["raw"])

            # the same raw-sector file read with the original method patched in
            live_class = actions.MdfStream
            actions.MdfStream = OriginalMdfStream
            try:
                image = actions.determine_image_type(paths["mdf"])
                check(("e2e original class used", n), type(image.file if hasattr(image, "file") else None).__name__
                      in ("OriginalMdfStream", "NoneType"), True)
                check(("e2e original method", n), ls_text(image), listings["mdf"])
            finally:
                actions.MdfStream = live_class
    finally:
        shutil.rmtree(workdir, ignore_errors=True)


def main():
    rng = random.Random(0x522)
    check("module sanity", mdf_module.MdfStream is MdfStream, True)
    direct_calls(rng)
    scripted(rng)
    end_to_end(rng)

    print(f"{checks} checks, {len(failures)} disagreements")
    for f in failures[:10]:
        print("  MISMATCH", repr(f)[:600])
    return 1 if failures else 0


if __name__ == "__main__":
    sys.exit(main())
