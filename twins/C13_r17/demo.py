"""Equivalence demo for add_to_sector_links (smpl_extract/util/fat.py), the
function through which both table-link walks (AKAI SAT decode and Roland FAT
decode) write a finished chain into the list of SectorLink objects.

Compares the add_to_sector_links of the tree with an inline copy of the
ORIGINAL:
  * on every link list of length 0..4 over a small alphabet (in range, first,
    last, one past the end, far past the end, negative in range, negative out
    of range, repeated) and on thousands of longer random link lists, against
    tables of several sizes.  Compared: the table afterwards (every entry), the
    sequence of __setitem__ / __len__ calls made on the table, what is left of
    the links iterator, the exception (type, arguments, type and arguments of
    __cause__);
  * end to end, on random and targeted AKAI segment allocation tables decoded
    by SegmentAllocationTableAdapter._decode with the tree's function and with
    the original patched in (sector links and exceptions compared).
Exit 0 when everything agrees, 1 otherwise.
"""
import itertools
import random
import sys

from construct.core import Int16ul

import smpl_extract.akai.sat as akai_sat
from smpl_extract.akai.data_types import AKAI_SAT_EOF_FLAG
from smpl_extract.akai.data_types import AKAI_SAT_FREE_FLAG
from smpl_extract.akai.data_types import AKAI_SAT_RESERVED_FLAG_STD
from smpl_extract.akai.data_types import AKAI_SAT_RESERVED_FLAG_V2
from smpl_extract.util.fat import InvalidFatDefinition
from smpl_extract.util.fat import SectorLink
from smpl_extract.util.fat import add_to_sector_links


def original_add_to_sector_links(links_arg, sector_links):
    # verbatim copy of the original function body

    links_iter = iter(links_arg)
    prev_link = next(links_iter)
    try:
        for link in links_iter:
            sector_links[prev_link] = SectorLink(next=link, end=False)
            prev_link = link
        sector_links[prev_link] = SectorLink(next=0, end=True)

    except IndexError as e:
        raise InvalidFatDefinition(
            f"FAT entry {prev_link} exceeds total "
            f"number of FAT entries {len(sector_links)}."
        ) from e


class LoggedTable(list):
    """the table of sector links; records how it is written"""

    def __init__(self, items):
        super().__init__(items)
        self.log = []

    def __setitem__(self, index, value):
        self.log.append(("set", index, value.next, value.end))
        return super().__setitem__(index, value)

    def __len__(self):
        self.log.append("len")
        return super().__len__()


def describe_exception(e):
    if e is None:
        return None
    return (type(e), e.args, describe_exception(e.__cause__))


def outcome(function, links, table_size):
    table = LoggedTable([SectorLink()] * table_size)
    links_iter = iter(list(links))
    error = None
    returned = None
    try:
        returned = function(links_iter, table)
    except Exception as e:  # noqa: compared below
        error = describe_exception(e)
    remaining = list(links_iter)
    log = list(table.log)
    entries = [(x.next, x.end) for x in list.__iter__(table)]
    return returned, error, remaining, log, entries


def outcome_list(function, links, table_size):
    # same with a plain list argument and a plain list table
    table = [SectorLink()] * table_size
    links = list(links)
    error = None
    try:
        function(links, table)
    except Exception as e:  # noqa: compared below
        error = describe_exception(e)
    return error, links, [(x.next, x.end) for x in table]


def check_unit():
    failures = 0
    count = 0
    for table_size in (0, 1, 2, 5, 8):
        alphabet = sorted({
            0, 1, table_size - 1, table_size, table_size + 7,
            -1, -table_size, -table_size - 1, 3
        })
        cases = []
        for length in range(0, 5):
            cases.extend(itertools.product(alphabet, repeat=length))
        rng = random.Random(1000 + table_size)
        for _ in range(3000):
            length = rng.randrange(1, 12)
            cases.append(tuple(
                rng.randrange(-table_size - 2, table_size + 3)
                for _ in range(length)
            ))
        for links in cases:
            count += 1
            for run in (outcome, outcome_list):
                expected = run(original_add_to_sector_links, links, table_size)
                actual = run(add_to_sector_links, links, table_size)
                if expected != actual:
                    failures += 1
                    if failures <= 10:
                        print("MISMATCH", run.__name__, table_size, links)
                        print("  expected", expected)
                        print("  actual  ", actual)
    print(f"unit: {count} link lists, {failures} mismatches")
    return failures


def decode_sat(block):
    adapter = akai_sat.SegmentAllocationTableAdapter(None, Int16ul[4])
    try:
        table = adapter._decode(list(block), {}, "")
    except Exception as e:  # noqa: compared below
        return ("raised", describe_exception(e))
    return ("ok", table.size, [(x.next, x.end) for x in table.sector_links])


def check_end_to_end():
    failures = 0
    count = 0
    rng = random.Random(77)
    specials = [
        AKAI_SAT_EOF_FLAG, AKAI_SAT_FREE_FLAG,
        AKAI_SAT_RESERVED_FLAG_STD, AKAI_SAT_RESERVED_FLAG_V2
    ]
    blocks = []
    for size in (0, 1, 2, 3, 6, 17, 40):
        for _ in range(400):
            block = []
            for _i in range(size):
                roll = rng.random()
                if roll < 0.35:
                    block.append(rng.choice(specials))
                elif roll < 0.9:
                    block.append(rng.randrange(0, size + 2))
                else:
                    block.append(rng.randrange(0, 0x10000))
            blocks.append(block)
    # well formed chains with one corrupted word
    for _ in range(600):
        size = rng.randrange(4, 30)
        block = [AKAI_SAT_RESERVED_FLAG_STD] * 2
        while len(block) < size:
            run = rng.randrange(1, 5)
            start = len(block)
            for k in range(run - 1):
                block.append(start + k + 1)
            block.append(AKAI_SAT_EOF_FLAG)
        victim = rng.randrange(len(block))
        block[victim] = rng.choice(
            specials + [victim, 0, len(block) - 1, len(block), 0xFFFF]
        )
        blocks.append(block)

    tree_function = akai_sat.add_to_sector_links
    for block in blocks:
        count += 1
        akai_sat.add_to_sector_links = tree_function
        actual = decode_sat(block)
        akai_sat.add_to_sector_links = original_add_to_sector_links
        try:
            expected = decode_sat(block)
        finally:
            akai_sat.add_to_sector_links = tree_function
        if expected != actual:
            failures += 1
            if failures <= 10:
                print("MISMATCH sat", block)
                print("  expected", expected)
                print("  actual  ", actual)
    print(f"end to end: {count} allocation tables, {failures} mismatches")
    return failures


def main():
    failures = check_unit() + check_end_to_end()
    if failures:
        print("FAILED")
        return 1
    print("all agree")
    return 0


if __name__ == "__main__":
    sys.exit(main())
