"""Equivalence demo for r8 (smpl_extract/akai/partition.py:
PartitionAdapter._decode_element and the size expression of the lazily read
volume area in PartitionParser).

An inline copy of the ORIGINAL PartitionAdapter / PartitionParser is built
from the same building blocks and compared with the live ones.

 A. size expression: the lambda that sizes the volume area is fished out of
    the live PartitionParser and compared with the original formula
    (total_size - header - volume table - SAT) for many total_size values.
 B. direct: _decode_element with hand-made containers; partition names "",
    "A", "A:", ":", "AB", "a:b", None (TypeError) ...; compared: Partition
    attributes, identity of parent/routines/path, behaviour of the wrapped
    child realisation (context mutation + delegated call), exceptions.
 C. end to end: synthetic AKAI partitions (several volumes with sample files,
    empty, size 1..10 sectors, header damage, per-entry damage in the volume
    table and in file tables as in property C14, truncation) parsed by both
    parsers; compared: error type/text, partition name/path/parent, SAT links,
    volumes, file names, decoded sample bytes, stream position and the trace
    of every seek/read/tell made on the shared image stream.

Exit 0 when everything agrees, 1 otherwise.
"""
import io
import random
import struct
import sys
from typing import Any
from typing import Dict

from construct.core import Bytes
from construct.core import ConstructError
from construct.core import Int16ul
from construct.core import Lazy
from construct.core import Pass
from construct.core import Struct
from construct.expr import this
from construct.lib.containers import Container

import smpl_extract.akai.partition as pm
from smpl_extract.akai.akai_string import char_ascii_to_akai
from smpl_extract.akai.data_types import AKAI_PARTITION_MAGIC
from smpl_extract.akai.data_types import AKAI_SAT_ENTRY_CNT
from smpl_extract.akai.data_types import AKAI_VOLUME_ENTRY_CNT
from smpl_extract.akai.data_types import InvalidCharacter
from smpl_extract.akai.partition import Partition
from smpl_extract.akai.partition import PartitionHeaderConstruct
from smpl_extract.akai.sat import SegmentAllocationTableAdapter
from smpl_extract.akai.volume import VolumeEntryConstruct
from smpl_extract.akai.volume import VolumesAdapter
from smpl_extract.util.constructs import ChildInfo
from smpl_extract.util.constructs import ElementAdapter


# ---------------------------------------------------------------- original
class OrigPartitionAdapter(ElementAdapter):
    def _parse(self, stream, context, path):

        try:
            partition_container = self.subcon._parse(  # type: ignore
                stream,
                context,
                path
            )
        except InvalidCharacter:
            raise ConstructError

        if partition_container.header.size <= 0:
            raise ConstructError

        result = self._decode(partition_container, context, path)
        return result

    def _decode_element(
            self,
            obj,
            child_info: ChildInfo,
            context: Dict[str, Any],
            path: str
    ):
        del path  # unused
        partition_container = obj

        partition_name = child_info.name
        parent = child_info.parent
        element_path = child_info.next_path
        routines = child_info.routines

        if len(partition_name) > 0 and partition_name[-1] != ":":
            partition_name = partition_name + ":"

        partition = Partition(
            partition_container.sat,
            self.wrap_child_realization(
                partition_container.volumes,
                context
            ),
            partition_name,
            parent,
            element_path,
            routines=routines
        )

        return partition

    def _build(self, obj, stream, context, path):
        raise NotImplementedError


def orig_volume_area_size(this):
    return this.header.total_size \
        - PartitionHeaderConstruct.sizeof() \
        - VolumeEntryConstruct[AKAI_VOLUME_ENTRY_CNT].sizeof() \
        - Int16ul[AKAI_SAT_ENTRY_CNT].sizeof()


OrigPartitionParser = OrigPartitionAdapter(
    Struct(
        "header" / PartitionHeaderConstruct,
        "volume_entries" / VolumeEntryConstruct[AKAI_VOLUME_ENTRY_CNT],
        "sat" / SegmentAllocationTableAdapter(
            this.header.partition_stream,
            Int16ul[AKAI_SAT_ENTRY_CNT]  # type: ignore
        ),
        "volumes" / Lazy(VolumesAdapter(
            this.volume_entries,
            this.sat,  # type: ignore
            Lazy(Bytes(  # type: ignore
                orig_volume_area_size
            )),
        ))
    )
).compile()


failures = []
checked = 0


def check(cond, msg):
    global checked
    checked += 1
    if not cond:
        failures.append(msg)


# ---------------------------------------------------------------- part A
def live_volume_area_size():
    parser = pm.PartitionParser
    adapter = getattr(parser, "defersubcon", parser)
    struct_ = adapter.subcon
    volumes = [sc for sc in struct_.subcons if sc.name == "volumes"][0]
    # Renamed -> Lazy -> VolumesAdapter -> Lazy -> Bytes
    return volumes.subcon.subcon.subcon.subcon.length


def part_a():
    live = live_volume_area_size()
    rng = random.Random(8)
    values = [0, 1, -1, 24573, 24574, 24575, 0x2000, 0x4000, 0x6000, 0x8000,
              0xFFFF * 0x2000, 2 ** 40, -(2 ** 40)]
    values += [k * 0x2000 for k in range(0, 70)]
    values += [rng.randrange(-10 ** 6, 10 ** 9) for _ in range(500)]
    for v in values:
        ctx = Container(header=Container(total_size=v))
        a = orig_volume_area_size(ctx)
        b = live(ctx)
        check(a == b and type(a) is type(b), f"size({v}): {a} != {b}")
    # precomputed expectation: 202 + 100*16 + 11386*2 = 24574
    check(live(Container(header=Container(total_size=24574))) == 0, "preamble")
    check(live(Container(header=Container(total_size=0x8000))) == 8194, "4 sect")
    # missing field -> same failure
    for ctx in (Container(), Container(header=Container())):
        outs = []
        for fn in (orig_volume_area_size, live):
            try:
                outs.append(("ok", fn(ctx)))
            except Exception as e:
                outs.append(("raise", type(e), str(e)))
        check(outs[0] == outs[1], f"size on bad ctx: {outs}")


# ---------------------------------------------------------------- part B
class FakeContainer:
    def __init__(self, log):
        self.sat = lambda: ("sat", id(self))
        self.log = log

        def volumes():
            log.append("volumes-called")
            return ["v1", "v2"]
        self.volumes = volumes


def run_direct(adapter_cls, name, parent, next_path, routines, ctx_factory):
    log = []
    container = FakeContainer(log)
    context = ctx_factory()
    child_info = ChildInfo(
        parent=parent, parent_path=["pp"], next_path=next_path,
        routines=routines, name=name
    )
    adapter = adapter_cls(Pass)
    try:
        part = adapter._decode_element(container, child_info, context, "path")
    except BaseException as e:  # noqa: B902
        return ("raise", type(e), str(e))
    realised = part._f_realize_children({"k": 1, "_elem_parent": part})
    desc = (
        type(part).__name__,
        part.name,
        part._f_sat is container.sat,
        part._sat,
        part.sat == ("sat", id(container)),
        part.parent is parent,
        part.path is next_path,
        part._routines is routines if routines else part._routines == {},
        part._children,
        part.type_name,
        realised,
        list(log),
        context.get("k"),
        context.get("_elem_parent") is part,
        sorted(map(str, context.keys())),
    )
    return ("ok", desc)


def part_b():
    names = ["", "A", "A:", ":", "::", "AB", "a:b", "Z ", " :", "é", None,
             5, b"A", ["A"], ("A", ":")]
    parents = [None, object()]
    paths = [["A"], [], None]
    routines_list = [None, {}, {"r": len}]
    ctxs = [
        lambda: {},
        lambda: Container(x=1),
        lambda: {"k": "old", "_": {"y": 2}},
    ]
    for name in names:
        for parent in parents:
            for next_path in paths:
                for routines in routines_list:
                    for cf in ctxs:
                        a = run_direct(
                            OrigPartitionAdapter, name, parent, next_path,
                            routines, cf
                        )
                        b = run_direct(
                            pm.PartitionAdapter, name, parent, next_path,
                            routines, cf
                        )
                        if a[0] == "ok":
                            # id(container) differs between the two runs
                            a = (a[0], a[1][:3] + a[1][4:])
                            b = (b[0], b[1][:3] + b[1][4:]) if b[0] == "ok" else b
                        check(
                            a == b,
                            f"direct mismatch name={name!r}: {a} != {b}"
                        )
    # expected values
    res = run_direct(pm.PartitionAdapter, "A", None, ["A"], {}, lambda: {})
    check(res[0] == "ok" and res[1][1] == "A:", "colon appended")
    res = run_direct(pm.PartitionAdapter, "B:", None, ["B"], {}, lambda: {})
    check(res[0] == "ok" and res[1][1] == "B:", "colon kept")
    res = run_direct(pm.PartitionAdapter, "", None, [], {}, lambda: {})
    check(res[0] == "ok" and res[1][1] == "", "empty name kept")
    res = run_direct(pm.PartitionAdapter, None, None, [], {}, lambda: {})
    check(res[0] == "raise" and res[1] is TypeError, "None name -> TypeError")


# ---------------------------------------------------------------- part C
SECT = 0x2000
PREAMBLE_HDR_LEN = 2 + 2 + len(AKAI_PARTITION_MAGIC) + 4


def akai_name(text):
    return bytes(char_ascii_to_akai(text.ljust(12)[:12]))


def make_partition(size, volumes, declared_size=None):
    """volumes: list of (name, type, [(fname, ftype, data)])."""
    buf = bytearray(size * SECT)
    hdr = (
        struct.pack("<H", size if declared_size is None else declared_size)
        + b"\x00\x00" + AKAI_PARTITION_MAGIC + b"\x55\xba\x2f\x00"
    )
    buf[:len(hdr)] = hdr
    sat = [0] * AKAI_SAT_ENTRY_CNT
    sat[0] = sat[1] = sat[2] = 0x4000
    next_sector = 3
    vol_entries = b""
    for vname, vtype, files in volumes:
        vsect = next_sector
        next_sector += 1
        sat[vsect] = 0xC000
        vol_entries += akai_name(vname) + struct.pack("<HH", vtype, vsect)
        table = b""
        for fname, ftype, data in files:
            nsect = max(1, -(-len(data) // SECT))
            start = next_sector
            for k in range(nsect):
                sat[start + k] = start + k + 1 if k < nsect - 1 else 0xC000
            next_sector += nsect
            buf[start * SECT:start * SECT + len(data)] = data
            table += (
                akai_name(fname) + b"\x00" * 4 + bytes([ftype])
                + len(data).to_bytes(3, "little")
                + struct.pack("<H", start) + b"\x00\x00"
            )
        table += b"\x00" * 8 + struct.pack("<H", 0xD747) + b"\x00" * 14
        buf[vsect * SECT:vsect * SECT + len(table)] = table
    assert next_sector <= max(size, 3)
    if len(buf) >= 24576:
        off = len(hdr)
        buf[off:off + len(vol_entries)] = vol_entries
        off = len(hdr) + 16 * AKAI_VOLUME_ENTRY_CNT
        buf[off:off + 2 * AKAI_SAT_ENTRY_CNT] = struct.pack(
            f"<{AKAI_SAT_ENTRY_CNT}H", *sat
        )
    return bytes(buf)


class TracingFile(io.BytesIO):

    def __init__(self, data):
        super().__init__(data)
        self.trace = []

    def tell(self):
        pos = super().tell()
        self.trace.append(("tell", pos))
        return pos

    def seek(self, *args):
        pos = super().seek(*args)
        self.trace.append(("seek", args, pos))
        return pos

    def read(self, *args):
        data = super().read(*args)
        self.trace.append(("read", args, len(data)))
        return data


class FakeParent:
    path = ["IMG"]


def describe_partition(part, parent, routines):
    out = [
        type(part).__name__, part.name, list(part.path),
        part.parent is parent, part._routines is routines,
    ]
    try:
        sat = part.sat
        out.append((
            sat.size,
            [(i, l.next, l.end) for i, l in enumerate(sat.sector_links[:40])],
        ))
    except Exception as e:
        out.append(("sat-raise", type(e), str(e)))
    try:
        vols = []
        for v in part.volumes:
            files = []
            entry_names = [fe.name for fe in v.file_entries]
            try:
                for f in v.files:
                    item = [type(f).__name__, f.name, list(f.path)]
                    stream = getattr(f, "_data_stream", None)
                    if stream is not None:
                        try:
                            stream.seek(0)
                            item.append(stream.read(4096))
                        except Exception as e:
                            item.append(("data-raise", type(e), str(e)))
                    files.append(item)
            except Exception as e:
                files.append(("files-raise", type(e), str(e)))
            vols.append((
                v.name, str(v.volume_type), list(v.path), v.parent is part,
                entry_names, files
            ))
        out.append(vols)
    except Exception as e:
        out.append(("volumes-raise", type(e), str(e)))
    return out


def run_image(parser, data, name, start_offset=0):
    f = TracingFile(data)
    f.seek(start_offset)
    f.trace.clear()
    parent = FakeParent()
    routines = {}
    kwargs = dict(_elem_parent=parent, _elem_routines=routines)
    if name is not None:
        kwargs["_elem_name"] = name
    try:
        part = parser.parse_stream(f, **kwargs)
    except BaseException as e:  # noqa: B902
        return (
            ("raise", type(e), str(e), type(e.__context__)),
            f.tell(), list(f.trace)
        )
    pos_after_parse = f.tell()
    trace_parse = list(f.trace)
    desc = describe_partition(part, parent, routines)
    return (("ok", desc), pos_after_parse, trace_parse, list(f.trace))


def sample(n, seed):
    rng = random.Random(seed)
    return b"\x03" + b"\x00" * 149 + bytes(rng.getrandbits(8) for _ in range(n))


def part_c():
    rng = random.Random(0xC14)
    s1, s2, s3 = sample(200, 1), sample(20000, 2), sample(64, 3)
    volumes = [
        ("VOL ONE", 1, [("SAMPLE A", 0x73, s1), ("SAMPLE B", 0xF3, s2),
                        ("THIRD", 0x73, s3)]),
        ("SECOND", 3, [("X", 0x73, s3)]),
        ("EMPTY", 1, []),
    ]
    good = make_partition(12, volumes)
    images = [
        ("good", good, 0),
        ("two", good + good, 0),
        ("second-of-two", good + good, len(good)),
        ("empty-vols", make_partition(3, []), 0),
        ("four", make_partition(4, []), 0),
        ("declared-0", make_partition(3, [], declared_size=0), 0),
        ("declared-1", make_partition(3, [], declared_size=1), 0),
        ("declared-2", make_partition(3, [], declared_size=2), 0),
        ("declared-big", make_partition(3, [], declared_size=0xFFFF), 0),
        ("declared-more", make_partition(12, volumes, declared_size=13), 0),
        ("declared-less", make_partition(12, volumes, declared_size=6), 0),
        ("truncated-hdr", good[:100], 0),
        ("truncated-vol", good[:1000], 0),
        ("truncated-sat", good[:20000], 0),
        ("truncated-body", good[:5 * SECT], 0),
        ("empty", b"", 0),
    ]
    # header damage
    for off in (0, 1, 2, 3, 4, 50, 197, 198, 199, 200, 201):
        for value in (0x00, 0x01, 0xFF):
            d = bytearray(good)
            d[off] = value
            images.append((f"hdr[{off}]={value:#x}", bytes(d), 0))
    # volume table damage (per entry, as in the property)
    vt = PREAMBLE_HDR_LEN
    for entry in (0, 1, 2, 3):
        for field_off in (0, 5, 11, 12, 13, 14, 15):
            for value in (0x00, 0x03, 0x29, 0x7F, 0xFF):
                d = bytearray(good)
                d[vt + entry * 16 + field_off] = value
                images.append(
                    (f"vol[{entry}]+{field_off}={value:#x}", bytes(d), 0)
                )
    # file table damage in volume one (sector 3)
    ft = 3 * SECT
    for entry in (0, 1, 2):
        for field_off in (0, 11, 16, 17, 19, 20, 21):
            for value in (0x00, 0x29, 0x64, 0x99, 0xFF):
                d = bytearray(good)
                d[ft + entry * 24 + field_off] = value
                images.append(
                    (f"file[{entry}]+{field_off}={value:#x}", bytes(d), 0)
                )
    # SAT damage
    sat_off = PREAMBLE_HDR_LEN + 16 * AKAI_VOLUME_ENTRY_CNT
    for _ in range(25):
        d = bytearray(good)
        for _ in range(rng.randrange(1, 4)):
            idx = rng.randrange(0, 14)
            d[sat_off + 2 * idx:sat_off + 2 * idx + 2] = struct.pack(
                "<H", rng.choice([0, 3, 4, 5, 11, 12, 0x4000, 0x8000, 0xC000,
                                  0xFFFF, rng.randrange(0, 0x10000)])
            )
        images.append(("sat-damage", bytes(d), 0))

    names = ["A", "B:", "", None]
    for idx, (label, data, offset) in enumerate(images):
        for name in (names if idx < 16 else names[:1]):
            a = run_image(OrigPartitionParser, data, name, offset)
            b = run_image(pm.PartitionParser, data, name, offset)
            check(
                a == b,
                f"image mismatch {label} name={name!r}: "
                f"{str(a)[:500]} != {str(b)[:500]}"
            )

    # expected values, independent of the inline copy
    res = run_image(pm.PartitionParser, good, "A")
    check(res[0][0] == "ok", f"good image parses: {str(res[0])[:200]}")
    if res[0][0] == "ok":
        desc = res[0][1]
        check(desc[1] == "A:" and desc[2] == ["IMG", "A"], "name and path")
        vols = desc[6]
        check(
            [v[0] for v in vols] == ["VOL ONE", "SECOND", "EMPTY"],
            f"volume names: {[v[0] for v in vols]}"
        )
        check(
            [f[1] for f in vols[0][5]] == ["SAMPLE A", "SAMPLE B", "THIRD"],
            "file names"
        )
        check(vols[0][5][0][3] == b"", "sample A data stream bytes")
        check(res[1] == 12 * SECT, f"stream position after parse: {res[1]}")
    res = run_image(pm.PartitionParser, make_partition(3, [], 0), "A")
    check(
        res[0][0] == "raise" and issubclass(res[0][1], ConstructError),
        "zero-size partition rejected"
    )


def main():
    part_a()
    part_b()
    part_c()
    if failures:
        print(f"FAIL: {len(failures)} of {checked} checks")
        for f in failures[:20]:
            print("  ", f[:1100])
        return 1
    print(f"OK: {checked} checks agree")
    return 0


if __name__ == "__main__":
    sys.exit(main())
