"""Equivalence demo for r1 (StreamWrapper.read: clamp via max(), renamed locals).

Two identical "worlds" are built over a recording BytesIO: one uses the live
classes of smpl_extract, the other uses the same classes with `read` replaced
by a verbatim copy of the ORIGINAL implementation.  The same random / exhaustive
schedules of reads and seeks are replayed in both worlds and everything that is
observable is compared: return values, exceptions, per-view state and the exact
sequence of tell/seek/read calls that reach the shared file handle.
"""
import io
import itertools
import random
import sys
from io import SEEK_CUR, SEEK_END, SEEK_SET

from smpl_extract.util.fat import FileStream
from smpl_extract.util.sector import SectorStream
from smpl_extract.util.stream import StreamOffset
from smpl_extract.util.stream import StreamReversed
from smpl_extract.util.stream import StreamWrapper


# ---- verbatim copy of the original StreamWrapper.read ----------------------
def orig_read(self, size):

    if size is None or size < 0:
        return self.readall()

    self.true_size = size
    if self.end_of_file is not None:  # as in the tree after the empty-view fix
        self.true_size = min(self.end_of_file - self.position, size)
    if self.true_size < 0:
        self.true_size = 0

    true_position = self.substream.tell()
    expected_position = self._translate_addr(self.position)
    if expected_position != true_position:
        self._seek(self.position)

    result = self._read(self.true_size)
    self.position += self.true_size
    return result


class OWrapper(StreamWrapper):
    read = orig_read


class OOffset(StreamOffset):
    read = orig_read


class OReversed(StreamReversed):
    read = orig_read


class OSector(SectorStream):
    read = orig_read


class OFile(FileStream):
    read = orig_read


LIVE = dict(W=StreamWrapper, O=StreamOffset, R=StreamReversed, S=SectorStream,
            F=FileStream)
ORIG = dict(W=OWrapper, O=OOffset, R=OReversed, S=OSector, F=OFile)


class Recorder(io.BytesIO):
    """The shared 'file handle'; logs every call that reaches it."""

    def __init__(self, data):
        super().__init__(data)
        self.log = []

    def tell(self):
        r = super().tell()
        self.log.append(("tell", r))
        return r

    def seek(self, *a):
        r = super().seek(*a)
        self.log.append(("seek", a, r))
        return r

    def read(self, *a):
        r = super().read(*a)
        self.log.append(("read", a, r))
        return r


DATA = bytes((i * 7 + (i >> 8)) & 0xFF for i in range(4096))


def build(K, rng_seed):
    """A small zoo of views that all share one handle, some of them nested."""
    rng = random.Random(rng_seed)
    fh = Recorder(DATA)
    views = []
    part = K["O"](fh, size=3000, offset=100)                    # partition window
    views.append(part)
    views.append(K["O"](part, size=700, offset=rng.randrange(0, 400)))  # nested
    views.append(K["O"](fh, size=rng.randrange(1, 900), offset=rng.randrange(0, 3000)))
    secs = [rng.randrange(0, 40) for _ in range(rng.randrange(1, 6))]
    views.append(K["F"](part, sector_size=64, sector_list=secs))   # file in partition
    secs2 = [rng.randrange(0, 60) for _ in range(rng.randrange(1, 5))]
    views.append(K["F"](fh, sector_size=32, sector_list=secs2, buffer_length=48))
    views.append(K["S"](fh, size=500, sector_length=50, buffer_length=70))
    inner = K["O"](fh, size=240, offset=rng.randrange(0, 500))
    views.append(K["R"](inner, size=240, sample_width=2, buffer_length=16))
    views.append(K["R"](K["O"](part, size=90, offset=30), size=90, sample_width=3,
                        buffer_length=9))
    views.append(K["W"](fh, size=rng.choice([0, -5, 10, 5000]), buffer_length=333))
    views.append(K["W"](fh, size=None, buffer_length=1000))       # unbounded view
    views.append(K["O"](fh, size=0, offset=17, buffer_length=100))
    return fh, views


def state(v):
    return (v.position, v.true_size, v.end_of_file)


def do(v, op):
    try:
        if op[0] == "read":
            return ("ok", v.read(op[1]))
        if op[0] == "seek":
            return ("ok", v.seek(op[1], op[2]))
        if op[0] == "readall":
            return ("ok", v.readall())
        if op[0] == "tell":
            return ("ok", v.tell())
    except Exception as e:  # noqa: BLE001 - we compare them
        return ("exc", type(e).__name__, str(e))
    raise AssertionError(op)


def random_op(rng):
    r = rng.random()
    if r < 0.55:
        return ("read", rng.choice([0, 1, 2, 3, 4, 6, 7, 16, 31, 32, 33, 50, 64,
                                    65, 100, 128, 129, 700, 5000]))
    if r < 0.62:
        return ("read", rng.choice([None, -1, -100]))
    if r < 0.9:
        return ("seek", rng.randrange(-50, 900),
                rng.choice([SEEK_SET, SEEK_CUR, SEEK_END]))
    if r < 0.95:
        return ("readall",)
    return ("tell",)


failures = 0
checked = 0


def replay(seed, schedule):
    global failures, checked
    fa, va = build(LIVE, seed)
    fb, vb = build(ORIG, seed)
    for step, (idx, op) in enumerate(schedule):
        ra = do(va[idx], op)
        rb = do(vb[idx], op)
        checked += 1
        sa = [state(v) for v in va]
        sb = [state(v) for v in vb]
        if ra != rb or sa != sb or fa.log != fb.log:
            failures += 1
            if failures < 10:
                print("MISMATCH seed", seed, "step", step, "view", idx, op)
                print("  live:", ra)
                print("  orig:", rb)
            return


# random interleavings over the whole zoo
for seed in range(400):
    rng = random.Random(1000 + seed)
    nviews = len(build(LIVE, seed)[1])
    sched = [(rng.randrange(nviews), random_op(rng)) for _ in range(60)]
    replay(seed, sched)

# exhaustive interleavings: 3 streams x 2 block reads each, several block sizes
for sizes in itertools.product([0, 5, 64, 100], repeat=2):
    for trio in [(0, 1, 3), (3, 4, 5), (1, 6, 7), (2, 8, 9), (3, 6, 10)]:
        base = [trio[0]] * 2 + [trio[1]] * 2 + [trio[2]] * 2
        for order in set(itertools.permutations(base)):
            sched = [(i, ("read", sizes[k % 2])) for k, i in enumerate(order)]
            replay(7, sched)

print(f"{checked} operations compared, {failures} mismatching schedules")
sys.exit(1 if failures else 0)
