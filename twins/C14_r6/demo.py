"""Equivalence demo for r6 (smpl_extract/akai/image.py,
AkaiImageParser._load_partitions).

The live method is compared against an inline copy of the ORIGINAL one.

 1. scripted: PartitionParser is replaced by a fake whose parse_stream
    consumes a scripted number of bytes from the image file and then returns a
    token or raises a scripted exception (InvalidPartition, ConstructError and
    subclasses end the scan; anything else must propagate).  Compared: the
    sequence of calls (stream identity, keyword names and values, including
    the partition letter), every tell()/read()/seek() made on the file, the
    resulting _partitions, the loaded flag, routines application and the
    exception that escapes, if any.
 2. real: synthetic AKAI images (1..5 valid partitions, damaged magic, zero
    size, truncation, trailing garbage, > 26 partitions) run through the
    genuine PartitionParser; compared: partition names, paths, volume lists,
    final file position and the trace of file operations.

Exit 0 when everything agrees, 1 otherwise.
"""
import io
import random
import struct
import sys
from typing import List, cast

from construct.core import ConstructError
from construct.core import StreamError

import smpl_extract.akai.image as image_mod
from smpl_extract.akai.data_types import AKAI_PARTITION_MAGIC
from smpl_extract.akai.image import AkaiImageParser
from smpl_extract.akai.partition import InvalidPartition
from smpl_extract.akai.partition import Partition


# ---------------------------------------------------------------- original
def orig_load_partitions(self):
    partition_cnt = 0
    partitions = []
    while self.file.tell() < self.file_size:
        name = chr(ord("A") + partition_cnt)
        try:
            partition = image_mod.PartitionParser.parse_stream(
                self.file,  # type: ignore
                _elem_name=name,
                _elem_parent=self,
                _elem_routines=self._routines
            )
        except (InvalidPartition, ConstructError) as e:
            break
        partitions.append(partition)
        partition_cnt += 1

    for routine in self._routines.values():
        partitions = routine(partitions)
    self._partitions = cast(List[Partition], partitions)
    self._partitions_loaded_flag = True


failures = []
checked = 0


def check(cond, msg):
    global checked
    checked += 1
    if not cond:
        failures.append(msg)


class TracingFile(io.BytesIO):
    """BytesIO that records every positional operation made on it."""

    def __init__(self, data):
        super().__init__(data)
        self.trace = []

    def tell(self):
        pos = super().tell()
        self.trace.append(("tell", pos))
        return pos

    def seek(self, *args):
        pos = super().seek(*args)
        self.trace.append(("seek", args, pos))
        return pos

    def read(self, *args):
        data = super().read(*args)
        self.trace.append(("read", args, len(data)))
        return data


# ---------------------------------------------------------------- campaign 1
class SubInvalidPartition(InvalidPartition):
    pass


class SubConstructError(ConstructError):
    pass


class Unrelated(Exception):
    pass


EXC_FACTORIES = {
    "InvalidPartition": lambda: InvalidPartition("bad"),
    "SubInvalidPartition": lambda: SubInvalidPartition(),
    "ConstructError": lambda: ConstructError("ce"),
    "StreamError": lambda: StreamError("se", path="x"),
    "SubConstructError": lambda: SubConstructError(),
    "KeyError": lambda: KeyError("k"),
    "ValueError": lambda: ValueError("v"),
    "Unrelated": lambda: Unrelated(),
    "UnicodeDecodeError": lambda: UnicodeDecodeError("ascii", b"\xff", 0, 1, "x"),
    "KeyboardInterrupt": lambda: KeyboardInterrupt(),
    "IndexError": lambda: IndexError(3),
}


class FakePartitionParser:
    """Steps: ("ok", nbytes) or ("raise", nbytes, exc-name)."""

    def __init__(self, steps):
        self.steps = list(steps)
        self.calls = []
        self.raised = []

    def parse_stream(self, *args, **kwargs):
        stream = args[0]
        self.calls.append((
            len(args),
            tuple(sorted(kwargs)),
            kwargs.get("_elem_name"),
            kwargs.get("_elem_parent"),
            kwargs.get("_elem_routines"),
        ))
        step = self.steps.pop(0) if self.steps else ("ok", 7)
        stream.read(step[1])
        if step[0] == "ok":
            return ("partition", len(self.calls), kwargs.get("_elem_name"))
        exc = EXC_FACTORIES[step[2]]()
        self.raised.append(exc)
        raise exc


def run_scripted(fn, data, steps, routines):
    fake = FakePartitionParser(steps)
    real = image_mod.PartitionParser
    image_mod.PartitionParser = fake
    try:
        f = TracingFile(data)
        image = AkaiImageParser(f)
        if routines is not None:
            image.set_routines(routines)
        f.trace.clear()
        try:
            fn(image)
            outcome = ("ok",)
        except BaseException as e:  # noqa: B902
            outcome = ("raise", type(e), e.args, e in fake.raised)
    finally:
        image_mod.PartitionParser = real
    calls = [
        (n, keys, name, parent is image, r is getattr(image, "_routines", None))
        for n, keys, name, parent, r in fake.calls
    ]
    return (
        outcome,
        calls,
        list(f.trace),
        list(image._partitions) if isinstance(image._partitions, list)
        else image._partitions,
        image._partitions_loaded_flag,
        f.tell(),
    )


def routines_variants():
    log = []

    def reverse(parts):
        log.append(("reverse", len(parts)))
        return list(reversed(parts))

    def drop_first(parts):
        log.append(("drop_first", len(parts)))
        return parts[1:]

    def to_tuple(parts):
        return tuple(parts)

    return [
        {},
        {"r": reverse},
        {"a": drop_first, "b": reverse},
        {"b": reverse, "a": drop_first},
        {"t": to_tuple},
    ]


def scripted_campaign():
    rng = random.Random(14)
    live = AkaiImageParser._load_partitions
    scripts = [
        (b"", []),
        (b"x", [("ok", 1)]),
        (b"x" * 10, [("ok", 10)]),
        (b"x" * 10, [("ok", 9), ("ok", 1)]),
        (b"x" * 10, [("ok", 0), ("ok", 0), ("ok", 10)]),
        (b"x" * 10, [("ok", 20)]),
        (b"x" * 300, [("ok", 1)] * 300),      # beyond "Z", into "[", "a", ...
    ]
    for name in EXC_FACTORIES:
        scripts.append((b"x" * 20, [("raise", 0, name)]))
        scripts.append((b"x" * 20, [("raise", 5, name)]))
        scripts.append((b"x" * 20, [("ok", 5), ("raise", 3, name), ("ok", 5)]))
        scripts.append((b"x" * 20, [("ok", 5), ("ok", 5), ("raise", 10, name)]))
        scripts.append((b"x" * 20, [("ok", 19), ("raise", 1, name)]))
    for _ in range(150):
        size = rng.randrange(0, 120)
        steps = []
        for _ in range(rng.randrange(0, 12)):
            if rng.random() < 0.8:
                steps.append(("ok", rng.randrange(0, 30)))
            else:
                steps.append(
                    ("raise", rng.randrange(0, 30),
                     rng.choice(sorted(EXC_FACTORIES)))
                )
        scripts.append((bytes(size), steps))

    for data, steps in scripts:
        for routines in routines_variants():
            a = run_scripted(orig_load_partitions, data, steps, dict(routines))
            b = run_scripted(live, data, steps, dict(routines))
            check(
                a == b,
                f"scripted mismatch len={len(data)} steps={steps[:6]} "
                f"routines={list(routines)}: {a} != {b}"
            )

    # _routines never set (set_routines not called): both must fail alike
    a = run_scripted(orig_load_partitions, b"abc", [("ok", 3)], None)
    b = run_scripted(live, b"abc", [("ok", 3)], None)
    check(a == b, f"no-routines mismatch: {a} != {b}")
    a = run_scripted(orig_load_partitions, b"", [], None)
    b = run_scripted(live, b"", [], None)
    check(a == b, f"no-routines/empty mismatch: {a} != {b}")

    # expected values, independent of the inline copy
    res = run_scripted(live, b"x" * 30, [("ok", 1)] * 30, {})
    names = [p[2] for p in res[3]]
    check(
        names == [chr(65 + i) for i in range(30)],
        f"letters wrong: {names}"
    )
    res = run_scripted(
        live, b"x" * 30,
        [("ok", 5), ("ok", 5), ("raise", 2, "InvalidPartition"), ("ok", 5)], {}
    )
    check([p[2] for p in res[3]] == ["A", "B"], "scan must stop at bad partition")
    check(res[5] == 12, "file position after stopping")


# ---------------------------------------------------------------- campaign 2
def make_partition(size, fill=b"\x00", magic=AKAI_PARTITION_MAGIC,
                   zeros=b"\x00\x00", tail=b"\x2f\x00"):
    header = (
        struct.pack("<H", size) + zeros + magic + b"\x55\xba" + tail
    )
    body_len = max(size, 0) * 0x2000 - len(header)
    return header + fill * max(body_len, 0)


def describe_image(image, f):
    parts = []
    for p in image._partitions:
        parts.append((
            type(p).__name__, p.name, tuple(p.path), p.parent is image,
            len(p.volumes),
        ))
    return parts


def run_real(fn, data, routines):
    f = TracingFile(data)
    image = AkaiImageParser(f)
    image.set_routines(routines)
    f.trace.clear()
    try:
        fn(image)
        outcome = ("ok",)
    except BaseException as e:  # noqa: B902
        outcome = ("raise", type(e), str(e))
    trace = list(f.trace)
    pos = f.tell()
    return (
        outcome, describe_image(image, f), image._partitions_loaded_flag,
        pos, trace,
    )


def real_campaign():
    rng = random.Random(1400)
    live = AkaiImageParser._load_partitions
    good3 = make_partition(3)
    good4 = make_partition(4)
    bad_magic = make_partition(
        3, magic=b"\x00" + AKAI_PARTITION_MAGIC[1:]
    )
    zero_size = make_partition(0) + bytes(0x2000)
    bad_zeros = make_partition(3, zeros=b"\x00\x01")
    bad_tail = make_partition(3, tail=b"\x2f\x01")
    images = [
        b"",
        b"\x00",
        good3,
        good3 + good4,
        good3 + good4 + good3,
        good3 * 5,
        bad_magic,
        good3 + bad_magic + good3,
        good3 + zero_size + good3,
        zero_size,
        bad_zeros + good3,
        good3 + bad_tail,
        good3 + good4[:100],
        good3 + good4[:0x2000],
        good3 + good4[:-1],
        good3[:-1],
        good3 + b"garbage",
        good3 + bytes(0x6000),
        good3 + b"\xff" * 0x6000,
        good3 * 28,                      # names run past "Z"
    ]
    for _ in range(12):
        n = rng.randrange(0, 4)
        blob = b"".join(rng.choice([good3, good4]) for _ in range(n))
        blob += bytes(rng.getrandbits(8) for _ in range(rng.choice([0, 5, 300])))
        images.append(blob)
    for _ in range(8):
        damaged = bytearray(good3 + good4 + good3)
        for _ in range(rng.randrange(1, 4)):
            base = rng.choice([0, len(good3), len(good3) + len(good4)])
            damaged[base + rng.randrange(0, 202)] = rng.getrandbits(8)
        images.append(bytes(damaged))

    def reverse(parts):
        return list(reversed(parts))

    for data in images:
        for routines in ({}, {"rev": reverse}):
            a = run_real(orig_load_partitions, data, dict(routines))
            b = run_real(live, data, dict(routines))
            check(
                a == b,
                f"real mismatch len={len(data)} routines={list(routines)}: "
                f"{str(a)[:300]} != {str(b)[:300]}"
            )

    # expected values, independent of the inline copy
    res = run_real(live, good3 + good4 + good3, {})
    check(
        [p[1] for p in res[1]] == ["A:", "B:", "C:"],
        f"names of three partitions: {res[1]}"
    )
    res = run_real(live, good3 + bad_magic + good3, {})
    check([p[1] for p in res[1]] == ["A:"], "scan stops at damaged magic")

    # the property getter still triggers exactly one load
    f = TracingFile(good3 + good4)
    image = AkaiImageParser(f)
    image.set_routines({})
    first = image.partitions
    f.trace.clear()
    second = image.partitions
    check(first is second and f.trace == [], "partitions are cached")
    check(image.children is first, "children alias")


def main():
    scripted_campaign()
    real_campaign()
    if failures:
        print(f"FAIL: {len(failures)} of {checked} checks")
        for f in failures[:20]:
            print("  ", f[:700])
        return 1
    print(f"OK: {checked} checks agree")
    return 0


if __name__ == "__main__":
    sys.exit(main())
