"""Equivalence demo for r2: MidiNote.from_int_a0 (statements reordered,
locals renamed).

Compares the live classmethod against an inline copy of the ORIGINAL body for
every byte value, a wide range of other integers, floats and wrong types
(exception type and message included), and checks the note round trips.
Exit 0 = everything agrees, 1 = a difference was found.
"""
import sys
from typing import Dict
from typing import Tuple

from smpl_extract.midi import AKAI_SAMPLE_A0
from smpl_extract.midi import MIDI_A0
from smpl_extract.midi import MidiNote
from smpl_extract.midi import NOTES_IN_OCTAVE
from smpl_extract.midi import ScaleDegree


# ---------------------------------------------------------------- original
def orig_from_int_a0(cls, byte_in: int):
    scale_table: Dict[int, Tuple[ScaleDegree, bool]] = {
        0x00:   (ScaleDegree.A, False),
        0x01:   (ScaleDegree.A, True),
        0x02:   (ScaleDegree.B, False),
        0x03:   (ScaleDegree.C, False),
        0x04:   (ScaleDegree.C, True),
        0x05:   (ScaleDegree.D, False),
        0x06:   (ScaleDegree.D, True),
        0x07:   (ScaleDegree.E, False),
        0x08:   (ScaleDegree.F, False),
        0x09:   (ScaleDegree.F, True),
        0x0A:   (ScaleDegree.G, False),
        0x0B:   (ScaleDegree.G, True),
    }

    octave = byte_in // NOTES_IN_OCTAVE
    scale_degree_raw = byte_in % NOTES_IN_OCTAVE
    scale_degree, is_sharp = scale_table[scale_degree_raw]

    return cls(scale_degree, is_sharp, octave)


def orig_from_akai_byte(cls, byte_in: int):
    byte_normalized = byte_in - AKAI_SAMPLE_A0
    return orig_from_int_a0(cls, byte_normalized)


def orig_from_midi_byte(cls, byte_in: int):
    byte_normalized = byte_in - MIDI_A0
    return orig_from_int_a0(cls, byte_normalized)


# ----------------------------------------------------------------- harness
def describe(value):
    if isinstance(value, MidiNote):
        return (
            "MidiNote",
            type(value.scale_degree), value.scale_degree,
            type(value.is_sharp), value.is_sharp,
            type(value.octave), repr(value.octave),
            repr(value), str(value),
        )
    return (type(value), repr(value))


def outcome(fn, *args):
    try:
        value = fn(*args)
    except BaseException as exc:  # noqa: BLE001 - failures are compared too
        return ("raise", type(exc), repr(exc.args))
    return ("return", describe(value))


failures = 0
checked = 0


def compare(label, new_fn, old_fn, *args):
    global failures, checked
    checked += 1
    got = outcome(new_fn, *args)
    want = outcome(old_fn, *args)
    if got != want:
        failures += 1
        if failures <= 20:
            print(f"MISMATCH {label}{args!r}:\n  live    ={got!r}\n  original={want!r}")


class Sub(MidiNote):
    """from_int_a0 is a classmethod: the subclass must be what is built."""


inputs = list(range(-600, 1200))
inputs += [2 ** 40, -2 ** 40, True, False,
           0.0, 3.0, 11.0, 12.0, 47.0, -1.0, 3.5, 1e300,
           float("inf"), float("-inf"), float("nan"),
           None, "60", "abc", "%d", b"\x3c", (60,), [60], {}, 1j, object()]

for value in inputs:
    compare("from_int_a0", MidiNote.from_int_a0,
            lambda v: orig_from_int_a0(MidiNote, v), value)
    compare("Sub.from_int_a0", Sub.from_int_a0,
            lambda v: orig_from_int_a0(Sub, v), value)
    compare("from_akai_byte", MidiNote.from_akai_byte,
            lambda v: orig_from_akai_byte(MidiNote, v), value)
    compare("from_midi_byte", MidiNote.from_midi_byte,
            lambda v: orig_from_midi_byte(MidiNote, v), value)

# the promised round trips: number -> note -> number for every byte value
for byte in range(256):
    checked += 3
    if MidiNote.from_int_a0(byte).to_int_a0() != byte:
        failures += 1
        print("a0 round trip broken for", byte)
    if MidiNote.from_akai_byte(byte).to_akai_byte() != byte:
        failures += 1
        print("akai round trip broken for", byte)
    if MidiNote.from_midi_byte(byte).to_midi_byte() != byte:
        failures += 1
        print("midi round trip broken for", byte)

# note -> text -> note for the 12 note names x octaves 0-9
for number in range(NOTES_IN_OCTAVE * 10):
    note = MidiNote.from_int_a0(number)
    checked += 1
    if MidiNote.from_string(note.to_string()) != note:
        failures += 1
        print("text round trip broken for", note)

# precomputed anchors from the project's own tests / constants
expected = {60: "C3", 21: "A0", 22: "A#0", 127: "G8", 0: "C-2"}
for byte, text in expected.items():
    checked += 1
    if str(MidiNote.from_midi_byte(byte)) != text:
        failures += 1
        print("unexpected text", byte, str(MidiNote.from_midi_byte(byte)), text)

print(f"{checked} comparisons, {failures} mismatches")
sys.exit(1 if failures else 0)
