"""r20 evidence: smpl_extract/akai/akai_string.py, _char_format_convert_byte
(the generic character-map conversion, used for ASCII -> AKAI) behaves exactly
like the original implementation pasted below, for all four (src, dst) format
pairs, invalid formats, every integer in a wide range, bools, floats, numpy
scalars/arrays, objects with odd comparison results and non-numeric objects;
then whole names through char_ascii_to_akai, the ASCII <-> AKAI round trip
over sampled names up to length 12, and the AkaiPaddedString construct.
Exit 0 = all agree, 1 = difference.
"""
import fractions
import itertools
import random
import sys

import smpl_extract.akai.akai_string as live
from smpl_extract.akai.data_types import CHAR_MAP_A
from smpl_extract.akai.data_types import CHAR_MAP_MINUS
from smpl_extract.akai.data_types import CHAR_MAP_NINE
from smpl_extract.akai.data_types import CHAR_MAP_PERIOD
from smpl_extract.akai.data_types import CHAR_MAP_PLUS
from smpl_extract.akai.data_types import CHAR_MAP_POUND
from smpl_extract.akai.data_types import CHAR_MAP_SPACE
from smpl_extract.akai.data_types import CHAR_MAP_Z
from smpl_extract.akai.data_types import CHAR_MAP_ZERO
from smpl_extract.akai.data_types import CharFormat
from smpl_extract.akai.data_types import InvalidCharacter


# ---------------------------------------------------------------- ORIGINAL --
def orig_char_format_convert_byte(byte_in, src_fmt, dst_fmt):

    src_zero = CHAR_MAP_ZERO[src_fmt]
    src_nine = CHAR_MAP_NINE[src_fmt]
    dst_zero = CHAR_MAP_ZERO[dst_fmt]
    src_A = CHAR_MAP_A[src_fmt]
    src_Z = CHAR_MAP_Z[src_fmt]
    dst_A = CHAR_MAP_A[dst_fmt]

    if src_zero <= byte_in <= src_nine:
        return dst_zero + byte_in - src_zero

    elif src_A <= byte_in <= src_Z:
        return dst_A + byte_in - src_A

    symbol_map = {
        CHAR_MAP_SPACE[src_fmt]:   CHAR_MAP_SPACE[dst_fmt],
        CHAR_MAP_POUND[src_fmt]:   CHAR_MAP_POUND[dst_fmt],
        CHAR_MAP_PLUS[src_fmt]:    CHAR_MAP_PLUS[dst_fmt],
        CHAR_MAP_MINUS[src_fmt]:   CHAR_MAP_MINUS[dst_fmt],
        CHAR_MAP_PERIOD[src_fmt]:  CHAR_MAP_PERIOD[dst_fmt],
    }

    resulting_symbol = symbol_map.get(byte_in)

    if resulting_symbol is None:
        raise InvalidCharacter

    return resulting_symbol


def orig_char_format_convert(bytes_in, src_fmt, dst_fmt):
    result = list(map(
        lambda x: orig_char_format_convert_byte(x, src_fmt, dst_fmt),
        bytes_in
    ))
    return result


def orig_char_ascii_to_akai(str_in):
    if isinstance(str_in, str):
        bytes_in = str_in.upper().encode("ascii")
    else:
        bytes_in = str_in
    result = orig_char_format_convert(
        bytes_in,
        CharFormat.ASCII,
        CharFormat.AKAI
    )
    return bytes(result)
# ------------------------------------------------------------ END ORIGINAL --


class Comparisons:
    """Records every rich comparison made on it and answers from a script."""
    def __init__(self, answers):
        self.answers = list(answers)
        self.log = []

    def _answer(self, op, other):
        self.log.append((op, other))
        return self.answers.pop(0) if self.answers else False

    # `const <= obj` is answered by the reflected obj.__ge__(const)
    def __ge__(self, other):
        return self._answer("ge", other)

    def __le__(self, other):
        return self._answer("le", other)

    def __add__(self, other):
        self.log.append(("add", other))
        return 1000

    def __radd__(self, other):
        self.log.append(("radd", other))
        return 1000

    __hash__ = object.__hash__


def outcome(fn, *args):
    try:
        value = fn(*args)
    except BaseException as exc:  # noqa: B902
        return ("exc", type(exc), str(exc))
    return ("ok", type(value), repr(value))


failures = []
checked = 0


def compare(label, new_fn, old_fn, *args):
    global checked
    checked += 1
    got = outcome(new_fn, *args)
    want = outcome(old_fn, *args)
    if got != want:
        failures.append((label, args, got, want))


formats = [CharFormat.ASCII, CharFormat.AKAI]
single_inputs = list(range(-300, 700))
single_inputs += [True, False, 2**31, -2**31, 2**64]
single_inputs += [0.0, 3.0, 3.5, 9.5, 10.0, 10.5, 36.5, 37.0, 40.0, 40.5,
                  32.0, 35.0, 43.0, 45.0, 46.0, 48.0, 57.0, 57.5, 65.0, 90.0,
                  90.5, 64.5, float("inf"), float("-inf"), float("nan")]
single_inputs += [fractions.Fraction(65, 1), fractions.Fraction(131, 2),
                  complex(65, 0), None, "", "A", "0", b"A", b"", (65,), [65],
                  {65}, object]
try:
    import numpy as np
    single_inputs += [np.uint8(v) for v in range(256)]
    single_inputs += [np.int16(-1), np.int64(65), np.float32(65.0),
                      np.float64(46.0), np.float64(12.25), np.array(65),
                      np.array([65]), np.array([48, 65]), np.array([])]
except ImportError:
    pass

for src_fmt, dst_fmt in itertools.product(formats, repeat=2):
    for value in single_inputs:
        compare(f"byte/{src_fmt.name}->{dst_fmt.name}",
                live._char_format_convert_byte, orig_char_format_convert_byte,
                value, src_fmt, dst_fmt)

# invalid formats fail in the same place with the same KeyError
for src_fmt, dst_fmt in [(None, CharFormat.AKAI), (CharFormat.ASCII, None),
                         ("ASCII", "AKAI"), (1, 2), (CharFormat.AKAI, 7)]:
    for value in (0, 48, 65, 200):
        compare("bad-format", live._char_format_convert_byte,
                orig_char_format_convert_byte, value, src_fmt, dst_fmt)

# which comparisons are made, and in which order, on a scripted object
scripts = [(), (True,), (True, True), (True, False), (False, True),
           (False, True, True), (True, False, True, True),
           (True, False, True, False), (False, False), (0, 1, 1), (1, 1),
           ("", "x", "y"), ([], [0], [0]), (True, False, False, True)]
for script in scripts:
    checked += 1
    probe_new, probe_old = Comparisons(script), Comparisons(script)
    got = outcome(live._char_format_convert_byte, probe_new,
                  CharFormat.ASCII, CharFormat.AKAI)
    want = outcome(orig_char_format_convert_byte, probe_old,
                   CharFormat.ASCII, CharFormat.AKAI)
    # the repr of an unhashable/unknown object never shows up here: results
    # are ints or exceptions
    if got != want or probe_new.log != probe_old.log:
        failures.append(("scripted", script, got, want, probe_new.log,
                         probe_old.log))

# whole names
alphabet = "0123456789 ABCDEFGHIJKLMNOPQRSTUVWXYZ#+-."
compare("alphabet", live.char_ascii_to_akai, orig_char_ascii_to_akai, alphabet)
compare("alphabet-lower", live.char_ascii_to_akai, orig_char_ascii_to_akai,
        alphabet.lower())
compare("alphabet-bytes", live.char_ascii_to_akai, orig_char_ascii_to_akai,
        alphabet.encode("ascii"))
compare("lower-bytes", live.char_ascii_to_akai, orig_char_ascii_to_akai,
        b"kick 01")
for text in ["", " ", "Kick 01", "snare#2", "a+b-c.d", "BAD_NAME", "tab\t",
             "café", "ß", "١", "x" * 300, "@", "[", "`", "{",
             "/", ":", "!", "$", ",", "~", "\x00", "\x7f"]:
    compare("text", live.char_ascii_to_akai, orig_char_ascii_to_akai, text)
for value in [None, 5, 5.5, [65, 66], [65, 300], [65, "B"], (48, 57),
              bytearray(b"AB"), memoryview(b"AB"), range(48, 58),
              range(40, 60)]:
    compare("other", live.char_ascii_to_akai, orig_char_ascii_to_akai, value)
# one-shot iterators: each side gets its own
for data in (b"AB", b"A_B", b""):
    compare("iterator", lambda d: live.char_ascii_to_akai(iter(d)),
            lambda d: orig_char_ascii_to_akai(iter(d)), data)
for char_code in range(0, 0x250):
    compare("one-char", live.char_ascii_to_akai, orig_char_ascii_to_akai,
            chr(char_code))
for byte in range(256):
    compare("one-byte", live.char_ascii_to_akai, orig_char_ascii_to_akai,
            bytes([byte]))

rng = random.Random(1820)
for _ in range(4000):
    name = "".join(rng.choice(alphabet) for _ in range(rng.randint(0, 12)))
    compare("name", live.char_ascii_to_akai, orig_char_ascii_to_akai, name)
    # the promised round trip
    checked += 1
    if live.char_akai_to_ascii(live.char_ascii_to_akai(name)) != name:
        failures.append(("round-trip", name))
for _ in range(1500):
    name = "".join(chr(rng.randrange(32, 127))
                   for _ in range(rng.randint(1, 12)))
    compare("noisy-name", live.char_ascii_to_akai, orig_char_ascii_to_akai,
            name)

# bijection on the 41 valid characters, everything else rejected
accepted = {}
for byte in range(256):
    try:
        accepted[byte] = live._char_format_convert_byte(
            byte, CharFormat.ASCII, CharFormat.AKAI)
    except InvalidCharacter:
        pass
checked += 1
if (bytes(sorted(accepted)).decode("ascii") != "".join(sorted(alphabet))
        or sorted(accepted.values()) != list(range(41))):
    failures.append(("bijection", accepted))

# the construct used for the 12-character AKAI names
padded = live.AkaiPaddedString(12)
for name in ["", "A", "KICK 01", "SNARE#2", "A+B-C.D", "ABCDEFGHIJKL",
             "0123456789 Z", "lower"]:
    checked += 2
    raw = orig_char_ascii_to_akai(name)
    want = raw + bytes([0x0A]) * (12 - len(raw))
    if padded.build(name) != want:
        failures.append(("padded-build", name, padded.build(name), want))
    if padded.parse(want) != name.upper():
        failures.append(("padded-parse", name, padded.parse(want)))

for failure in failures[:20]:
    print("MISMATCH", failure)
print(f"r20 demo: {checked} comparisons, {len(failures)} mismatches")
sys.exit(1 if failures else 0)
