"""Equivalence demo for r24: smpl_extract.transcoder.get_num_frames_possible
and get_buffer_sizes.  make_transcoder uses them to choose the buffer_size of
the PassthroughTranscoder, i.e. the size of the chunks that are read from a
CDDA track window and truncated to whole frames by resize_buffer.

Inline copies of the ORIGINAL functions are compared with the live ones:

  A. get_num_frames_possible: a grid of frame sizes x target sizes (default
     argument, ints of both signs, zero, bools, floats, nan/inf, Fractions,
     huge values, non-numbers) on real DataStream objects and on tracing
     stand-ins; the value and its exact type, or the exception (type and
     message), and the ordered attribute-access log must agree.
  B. get_buffer_sizes: random lists / tuples / one-shot iterators of such
     streams (empty ones included); same comparison.
  C. chunking: make_transcoder on windows over random data (lengths that are
     not multiples of the frame size) with the original functions patched
     into the module vs the live ones: transcoder type, buffer_size, the
     exact sequence of chunks and the reads seen by the underlying stream.
  D. end to end: cue/bin pairs exported to WAV both ways; trees and printed
     text must be byte-identical and the PCM must tile the bin, the last
     track truncated to whole 4-byte frames (independent expected values).
Exit 0 on full agreement, 1 otherwise.
"""
import contextlib
import fractions
import io
import math
import os
import random
import shutil
import sys
import tempfile

from smpl_extract import actions
from smpl_extract import transcoder
from smpl_extract.data_streams import DataStream
from smpl_extract.data_streams import Endianess
from smpl_extract.data_streams import StreamEncoding
from smpl_extract.util.stream import StreamOffset


ORIGINAL_SOURCE = '''
def get_num_frames_possible(
        stream: DataStream, 
        target_size: int = _DEFAULT_BUFFER_SIZE
) -> int:
    frame_size = stream.frame_size
    num_frames = max(1, target_size // frame_size)
    return num_frames


def get_buffer_sizes(streams: List[DataStream]) -> List[int]:
    num_frames = min(list(get_num_frames_possible(x) for x in streams))
    buffer_sizes = list(num_frames * x.frame_size for x in streams)
    return buffer_sizes
'''
# the originals live in their own namespace so that the original
# get_buffer_sizes calls the original get_num_frames_possible
_original_globals = dict(transcoder.__dict__)
exec(compile(ORIGINAL_SOURCE, "<original>", "exec"), _original_globals)
original_num_frames = _original_globals["get_num_frames_possible"]
original_buffer_sizes = _original_globals["get_buffer_sizes"]
live_num_frames = transcoder.get_num_frames_possible
live_buffer_sizes = transcoder.get_buffer_sizes


def outcome_of(function, *args):
    try:
        result = function(*args)
    except BaseException as e:
        return ("EXC", type(e).__name__, str(e))
    if isinstance(result, list):
        return ("OK", [(repr(x), type(x).__name__) for x in result])
    return ("OK", repr(result), type(result).__name__)


class TracedStream:
    def __init__(self, label, frame_size, log):
        self.label = label
        self._frame_size = frame_size
        self.log = log

    @property
    def frame_size(self):
        self.log.append(("frame_size", self.label))
        if isinstance(self._frame_size, BaseException):
            raise self._frame_size
        return self._frame_size


FRAME_SIZES = [1, 2, 3, 4, 6, 8, 12, 16, 4095, 4096, 4097, 8192, 10**30, 0,
               -1, -4, -4097, True, False, 0.5, 4.0, -2.5, math.inf, math.nan,
               fractions.Fraction(3, 2), fractions.Fraction(-5, 3), "4", None,
               4 + 0j]
TARGET_SIZES = [None, 0x1000, 0, 1, 2, 3, 4, 5, 7, 8, 4095, 4097, 2352,
                2**64, -1, -4, -4096, True, False, 0.5, 4096.0, -3.5,
                math.inf, -math.inf, math.nan, fractions.Fraction(9, 2),
                "4096", None, b"x"]


def num_frames_cases():
    failures = 0
    count = 0
    for frame_size in FRAME_SIZES:
        for position, target in enumerate(TARGET_SIZES):
            args = () if position == 0 else (target,)
            results = []
            for function in (original_num_frames, live_num_frames):
                log = []
                traced = TracedStream("t", frame_size, log)
                results.append((outcome_of(function, traced, *args), log))
            count += 1
            if results[0] != results[1]:
                failures += 1
                if failures < 10:
                    print("MISMATCH (num_frames)", frame_size, args, results)
    for width in (1, 2, 4, 8):
        for channels in (0, 1, 2, 3, 6):
            stream = DataStream(io.BytesIO(), StreamEncoding(
                Endianess.LITTLE, width, channels))
            for position, target in enumerate(TARGET_SIZES):
                args = () if position == 0 else (target,)
                expected = outcome_of(original_num_frames, stream, *args)
                actual = outcome_of(live_num_frames, stream, *args)
                count += 1
                if expected != actual:
                    failures += 1
                    if failures < 10:
                        print("MISMATCH (num_frames)", width, channels, args)
    return count, failures


def buffer_sizes_cases():
    rng = random.Random(0x324)
    failures = 0
    count = 0
    common = [1, 2, 3, 4, 6, 8, 12, 16, 4096, 4097, 5000]
    for number in range(6000):
        pool = common if number % 3 else FRAME_SIZES + [StopIteration("s"),
                                                        KeyError("k")]
        sizes = [rng.choice(pool) for _ in range(rng.randint(0, 6))]
        container = rng.choice([list, list, tuple, iter, reversed])
        results = []
        for function in (original_buffer_sizes, live_buffer_sizes):
            log = []
            streams = [TracedStream("t%d" % k, size, log)
                       for k, size in enumerate(sizes)]
            results.append((outcome_of(function, container(streams)), log))
        count += 1
        if results[0] != results[1]:
            failures += 1
            if failures < 10:
                print("MISMATCH (buffer_sizes)", sizes, container, results)
    for number in range(500):
        streams = [DataStream(io.BytesIO(), StreamEncoding(
            Endianess.LITTLE, rng.choice([1, 2, 4, 8]), rng.randint(0, 4)))
            for _ in range(rng.randint(0, 4))]
        expected = outcome_of(original_buffer_sizes, streams)
        actual = outcome_of(live_buffer_sizes, streams)
        count += 1
        if expected != actual:
            failures += 1
            print("MISMATCH (buffer_sizes, DataStream)", streams)
    return count, failures


# ---------------------------------------------------------------- chunking
@contextlib.contextmanager
def patched(num_frames, buffer_sizes):
    transcoder.get_num_frames_possible = num_frames
    transcoder.get_buffer_sizes = buffer_sizes
    try:
        yield
    finally:
        transcoder.get_num_frames_possible = live_num_frames
        transcoder.get_buffer_sizes = live_buffer_sizes


class TracingBytes(io.BytesIO):
    def __init__(self, data):
        super().__init__(data)
        self.log = []

    def read(self, *args):
        result = super().read(*args)
        self.log.append(("read", args, len(result)))
        return result

    def seek(self, *args):
        result = super().seek(*args)
        self.log.append(("seek", args, result))
        return result


def run_chunks(functions, data, offset, size, width, channels, dest):
    base = TracingBytes(data)
    window = StreamOffset(base, size, offset)
    stream = DataStream(window, StreamEncoding(
        Endianess.LITTLE, width, channels))
    with patched(*functions):
        try:
            generator = transcoder.make_transcoder([stream], dest)
            chunks = list(generator)
        except BaseException as e:
            return ("EXC", type(e).__name__, str(e), base.log)
    return ("OK", type(generator).__name__,
            getattr(generator, "buffer_size", None), chunks, base.log)


def chunking_cases():
    rng = random.Random(0x2424)
    failures = 0
    count = 0
    for number in range(700):
        length = rng.choice([0, 1, 3, 4, 5, 4095, 4096, 4097, 8192, 9999,
                             rng.randint(0, 30000)])
        data = bytes(rng.getrandbits(8) for _ in range(length))
        offset = rng.choice([0, 0, 1, 2352, rng.randint(0, length + 2)])
        size = rng.choice([length - offset, max(0, length - offset),
                           rng.randint(0, length + 5)])
        width = rng.choice([1, 2, 2, 2, 4])
        channels = rng.choice([1, 2, 2, 2, 3])
        dest = StreamEncoding(
            Endianess.LITTLE, rng.choice([width, width, 2]),
            rng.choice([channels, channels, 2]))
        expected = run_chunks((original_num_frames, original_buffer_sizes),
                              data, offset, size, width, channels, dest)
        actual = run_chunks((live_num_frames, live_buffer_sizes),
                            data, offset, size, width, channels, dest)
        count += 1
        if expected != actual:
            failures += 1
            if failures < 10:
                print("MISMATCH (chunking)", number, length, offset, size,
                      width, channels, dest)
        if width == 2 and channels == 2 and dest == StreamEncoding(
                Endianess.LITTLE, 2, 2) and 0 <= size <= length - offset:
            # independent: passthrough, 4096-byte chunks, whole frames only
            count += 1
            joined = b"".join(actual[3]) if actual[0] == "OK" else None
            if actual[0] != "OK" or actual[1] != "PassthroughTranscoder" \
                    or actual[2] != 4096 \
                    or joined != data[offset:offset + size - size % 4]:
                failures += 1
                print("MISMATCH (passthrough)", number, length, offset, size)
    return count, failures


# ------------------------------------------------------------------ export
def msf(total):
    return "%02d:%02d:%02d" % (total // 4500, (total // 75) % 60, total % 75)


def make_cue(rng, n_sectors):
    lines = ["FILE \"disc.bin\" BINARY\n"]
    position = rng.randint(0, 2)
    for t in range(rng.randint(1, 6)):
        lines.append("  TRACK %02d AUDIO\n" % (t + 1))
        if rng.random() < 0.6:
            lines.append("    TITLE \"%s\"\n" % rng.choice(
                ["Intro", "Intro", "a/b", "Loop L", "Loop R", "x."]))
        for k in range(rng.choice([1, 1, 2, 3])):
            lines.append("    INDEX %02d %s\n" % (k, msf(position)))
            position += rng.choice([1, 1, 2, 3])
        if position >= n_sectors:
            break
    return lines


def read_tree(root):
    found = {}
    for directory, _dirs, files in os.walk(root):
        for name in files:
            path = os.path.join(directory, name)
            with open(path, "rb") as f:
                found[os.path.relpath(path, root)] = f.read()
    return found


def run_export(functions, cue_path, destination):
    captured = io.StringIO()
    os.mkdir(destination)
    with patched(*functions), contextlib.redirect_stdout(captured):
        actions.export_samples_to_wav(cue_path, destination)
    return read_tree(destination), captured.getvalue()


def export_cases():
    rng = random.Random(0x324324)
    failures = 0
    count = 0
    base = tempfile.mkdtemp(prefix="r24demo_")
    try:
        for number in range(80):
            n_sectors = rng.randint(1, 14)
            tail = rng.choice([0, 0, 1, 2, 3, 5, 1177, 2351])
            data = bytes(rng.getrandbits(8)
                         for _ in range(n_sectors*2352 + tail))
            lines = make_cue(rng, n_sectors)
            directory = os.path.join(base, "case%03d" % number)
            os.mkdir(directory)
            with open(os.path.join(directory, "disc.bin"), "wb") as f:
                f.write(data)
            cue_path = os.path.join(directory, "disc.cue")
            with open(cue_path, "w", encoding="ascii") as f:
                f.writelines(lines)
            expected = run_export(
                (original_num_frames, original_buffer_sizes), cue_path,
                os.path.join(directory, "out_a"))
            actual = run_export(
                (live_num_frames, live_buffer_sizes), cue_path,
                os.path.join(directory, "out_b"))
            count += 1
            if expected != actual:
                failures += 1
                print("MISMATCH (export)", number)
                continue
            starts = []
            in_track = False
            for line in lines:
                words = line.split()
                if words[0] == "TRACK":
                    in_track = True
                elif words[0] == "INDEX" and in_track:
                    mm, ss, ff = (int(x) for x in words[2].split(":"))
                    starts.append(((mm*60 + ss)*75 + ff)*2352)
                    in_track = False
            if starts[-1] > len(data):
                continue
            ends = starts[1:] + [len(data) - (len(data) - starts[-1]) % 4]
            exported = [line[len("Exported "):]
                        for line in actual[1].splitlines()
                        if line.startswith("Exported ")]
            count += 1
            if len(exported) != len(starts) \
                    or sorted(exported) != sorted(actual[0]):
                failures += 1
                print("MISMATCH (file list)", number, exported)
                continue
            joined = b""
            for name, start, end in zip(exported, starts, ends):
                blob = actual[0][name]
                if blob[44:] != data[start:end]:
                    failures += 1
                    print("MISMATCH (tiling)", number, name)
                    break
                joined += blob[44:]
            else:
                if joined != data[starts[0]:ends[-1]]:
                    failures += 1
                    print("MISMATCH (concatenation)", number)
    finally:
        shutil.rmtree(base, ignore_errors=True)
    return count, failures


def main():
    total = 0
    failed = 0
    for part in (num_frames_cases, buffer_sizes_cases, chunking_cases,
                 export_cases):
        count, failures = part()
        print(part.__name__, "cases:", count, "failures:", failures)
        total += count
        failed += failures
    if transcoder.get_num_frames_possible is not live_num_frames \
            or transcoder.get_buffer_sizes is not live_buffer_sizes:
        print("module not restored")
        failed += 1
    print("total cases:", total, "failures:", failed)
    return 1 if failed else 0


if __name__ == "__main__":
    sys.exit(main())
