"""Equivalence demo for r2: ElementAdapter.wrap_child_realization
(smpl_extract/util/constructs.py).

Compares the live closure against an inline copy of the ORIGINAL implementation
for plain dict / construct Container / OrderedDict contexts, many random
additions (overwrites, new keys, nested "_" contexts, aliasing, empty), and
f_realize callables that read the context, return values or raise.
Also runs the real Traversable.children path on top of both versions.
Exit 0 = everything agrees, 1 = mismatch.
"""
from collections import OrderedDict
import copy
import random
import sys

from construct.lib.containers import Container

from smpl_extract.structural import Traversable
from smpl_extract.util.constructs import ElementAdapter
from smpl_extract.util.constructs import pull_child_info


def orig_wrap_child_realization(f_realize, context):
    """Verbatim copy of the original body (minus the cls argument)."""

    def wrapped_realize(context_additions):
        for key, value in context_additions.items():
            context[key] = value
        result_wrapped = f_realize()
        return result_wrapped

    result = wrapped_realize
    return result


class Boom(Exception):
    pass


KEYS = ["_elem_parent", "_elem_routines", "fat", "_", "_index", "name", "x", ""]


def random_mapping(rng, factory):
    m = factory()
    for _ in range(rng.randint(0, 5)):
        k = rng.choice(KEYS)
        if k == "_":
            m[k] = factory()
            m[k]["inner"] = rng.randint(0, 9)
        else:
            m[k] = rng.choice([None, 0, 1, "s", (1, 2), [rng.randint(0, 9)]])
    return m


def snapshot(m):
    return (type(m).__name__, [(k, repr(v)) for k, v in m.items()])


def run(wrapper, factory, seed):
    rng = random.Random(seed)
    context = random_mapping(rng, factory)
    log = []
    mode = rng.choice(["value", "read", "raise", "mutate"])

    def f_realize():
        log.append(("realize", snapshot(context)))
        if mode == "value":
            return ["child", seed]
        if mode == "read":
            info = pull_child_info(context)
            return [repr(info)]
        if mode == "mutate":
            context["touched"] = context.get("touched", 0) + 1
            return context
        raise Boom(seed)

    wrapped = wrapper(f_realize, context)
    trace = [("callable", callable(wrapped), wrapped.__name__)]
    for call in range(rng.randint(1, 4)):
        choice = rng.random()
        if choice < 0.1:
            additions = {}
        elif choice < 0.2:
            additions = context  # aliasing: additions is the context itself
        elif choice < 0.3:
            additions = OrderedDict(random_mapping(rng, dict))
        elif choice < 0.4:
            additions = Container(random_mapping(rng, dict))
        else:
            additions = random_mapping(rng, dict)
        before_additions = snapshot(additions)
        try:
            res = wrapped(additions)
            trace.append(("ok", repr(res), res is context))
        except (Boom, AttributeError, TypeError, KeyError) as e:
            trace.append(("exc", type(e).__name__, repr(e)))
        trace.append(("ctx", snapshot(context)))
        trace.append(("additions_unchanged_or_alias",
                      additions is context or snapshot(additions) == before_additions))
    return trace, log


class Child:
    def __init__(self, name):
        self.name = name
        self.safe_name = name
        self.type_name = "T"


def run_traversable(wrapper, factory):
    context = factory()
    context["_"] = factory()
    context["_"]["_elem_parent"] = "outer-parent"
    context["_elem_name"] = "N"
    seen = []

    def f_realize():
        seen.append(snapshot_ids(context))
        return [Child("a"), Child("b")]

    def routine(items):
        seen.append(("routine", [c.name for c in items]))
        return list(reversed(items))

    node = Traversable(
        wrapper(f_realize, context),
        routines={"r": routine},
        path=["p"],
    )
    first = node.children
    second = node.children
    return (
        [c.name for c in first],
        first is second,
        seen,
        context["_elem_parent"] is node,
        context["_elem_routines"] is node._routines,
        list(context.keys()),
    )


def snapshot_ids(m):
    return [(k, type(v).__name__) for k, v in m.items()]


def main():
    live = ElementAdapter.wrap_child_realization
    bad = 0
    cases = 0
    for factory in (dict, Container, OrderedDict):
        for seed in range(1500):
            cases += 1
            expected = run(orig_wrap_child_realization, factory, seed)
            actual = run(live, factory, seed)
            if expected != actual:
                bad += 1
                if bad <= 5:
                    print("MISMATCH", factory.__name__, seed)
                    print("  expected", expected)
                    print("  actual  ", actual)
        cases += 1
        if run_traversable(orig_wrap_child_realization, factory) != \
                run_traversable(live, factory):
            bad += 1
            print("MISMATCH traversable", factory.__name__)

    # subclass access path used by the adapters (self.wrap_child_realization)
    class Sub(ElementAdapter):
        pass

    ctx_a, ctx_b = Container(a=1), Container(a=1)
    ra = Sub.wrap_child_realization(lambda: 5, ctx_a)({"a": 2, "b": 3})
    rb = orig_wrap_child_realization(lambda: 5, ctx_b)({"a": 2, "b": 3})
    cases += 1
    if (ra, snapshot(ctx_a)) != (rb, snapshot(ctx_b)):
        bad += 1
        print("MISMATCH subclass path")

    print("cases=%d mismatches=%d" % (cases, bad))
    return 1 if bad else 0


if __name__ == "__main__":
    sys.exit(main())
