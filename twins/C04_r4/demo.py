"""Equivalence demo for r4 (smpl_extract/transcoder.py: resize_buffer
rewritten with a guard clause and `len - len % frame_size` instead of
`(len // frame_size) * frame_size`; encode_frame's list(generator) turned into
a list comprehension and its call chain split into named steps).

Compares the module's functions with inline copies of the ORIGINAL ones, then
runs complete transcoders (passthrough and pipeline; mono, stereo, split
streams, odd tails, both endiannesses) once with the module as found and once
with the originals patched in, recording every read()/seek() on the streams.
Exit 0 = all agree, 1 = difference.
"""
import io
import itertools
import random
import sys

import numpy as np

from smpl_extract import transcoder as T
from smpl_extract.data_streams import DataStream
from smpl_extract.data_streams import Endianess
from smpl_extract.data_streams import StreamEncoding

pad_channels = T.pad_channels


# --------------------------------------------------------------------------
# ORIGINAL implementations (verbatim)
# --------------------------------------------------------------------------
def orig_resize_buffer(buffer: bytes, frame_size: int) -> bytes:
    if len(buffer) % frame_size != 0:
        num_frames = len(buffer) // frame_size
        true_size = num_frames * frame_size
        buffer = buffer[:true_size]
    return buffer


def orig_encode_frame(channels, dest_dtype) -> bytes:
    channels = pad_channels(channels)
    channels = list(x.astype(dest_dtype) for x in channels)
    result = np.vstack(channels).reshape((-1,), order='F').tobytes()
    return result


# --------------------------------------------------------------------------
failures = []
checks = 0
n_ok = 0


def outcome(f):
    try:
        r = f()
        return ("ok", type(r).__name__, r)
    except BaseException as e:  # noqa
        return ("exc", type(e).__name__, str(e))


def check(label, f_new, f_old):
    global checks, n_ok
    checks += 1
    a = outcome(f_new)
    b = outcome(f_old)
    if a[0] == "ok":
        n_ok += 1
    if a != b:
        failures.append((label, a, b))


rnd = random.Random(44)

# 1. resize_buffer: all lengths 0..96 x frame sizes, several buffer types
for length, frame_size in itertools.product(
        range(0, 97), [1, 2, 3, 4, 5, 6, 7, 8, 12, 16, 64, 96, 97, 4096, 0, -1, -2, -5]):
    data = bytes(rnd.getrandbits(8) for _ in range(length))
    for kind, buf in (("bytes", data), ("bytearray", bytearray(data)),
                      ("memoryview", memoryview(data))):
        check(("resize", kind, length, frame_size),
              lambda: bytes(T.resize_buffer(buf, frame_size)),
              lambda: bytes(orig_resize_buffer(buf, frame_size)))
        # a buffer that is already frame aligned is handed back as is
        check(("resize-identity", kind, length, frame_size),
              lambda: T.resize_buffer(buf, frame_size) is buf,
              lambda: orig_resize_buffer(buf, frame_size) is buf)
# big buffers, frame sizes as produced by StreamEncoding (width x channels)
for width, ch in itertools.product([1, 2, 4, 8], [1, 2, 3, 4, 6]):
    for length in (0x1000, 0x1000 - 1, 0x1000 + 1, 12345, width * ch, width * ch - 1):
        data = bytes(length)
        check(("resize-big", width, ch, length),
              lambda: T.resize_buffer(data, width * ch),
              lambda: orig_resize_buffer(data, width * ch))
# wrong argument types
for buf, fs in [(None, 2), (b"abc", None), (b"abcde", 2.0), (b"abcdef", 2.0),
                (b"abcdef", 2.5), (b"abcde", "2"), ("abcde", 2), ([1, 2, 3], 2),
                (5, 2), (b"abcde", True)]:
    check(("resize-odd", repr(buf), repr(fs)),
          lambda: T.resize_buffer(buf, fs),
          lambda: orig_resize_buffer(buf, fs))

# 2. encode_frame on random channel sets
src_dtypes = ["int8", "uint8", "int16", ">i2", "int32", "uint16", "float32"]
dst_dtypes = ["int16", "<i2", ">i2", "int8", "uint8", "int32", "int64", "float64"]
for k in range(1500):
    n_ch = rnd.choice([1, 1, 2, 2, 3, 4])
    base = rnd.choice([0, 1, 2, 3, 17, 100, 2048])
    sdt = np.dtype(rnd.choice(src_dtypes))
    ddt = np.dtype(rnd.choice(dst_dtypes))
    chans = []
    for _ in range(n_ch):
        n = max(0, base - rnd.choice([0, 0, 0, 1, 2, 5]))
        chans.append(np.array([rnd.randrange(-128, 128) for _ in range(n)]).astype(sdt))
    before = [c.copy() for c in chans]
    check(("encode", k, n_ch, base, str(sdt), str(ddt)),
          lambda: T.encode_frame(list(chans), ddt),
          lambda: orig_encode_frame(list(chans), ddt))
    checks += 1
    if not all(np.array_equal(a, b) and a.dtype == b.dtype for a, b in zip(before, chans)):
        failures.append(("encode mutated its input", k))
# the caller's list object is left alone
lst = [np.arange(4, dtype="int16"), np.arange(2, dtype="int16")]
snapshot = list(lst)
T.encode_frame(lst, np.dtype("int16"))
checks += 1
if len(lst) != 2 or any(a is not b for a, b in zip(lst, snapshot)):
    failures.append(("encode rebinds caller list",))
# error paths
bad_inputs = [
    (lambda: [], "int16"),
    (lambda: [np.zeros(0, "int16")], "int16"),
    (lambda: [np.zeros((2, 2), "int16"), np.zeros(4, "int16")], "int16"),
    (lambda: [np.zeros(3, "int16"), [1, 2, 3]], "int16"),
    (lambda: [[1, 2, 3]], "int16"),
    (lambda: [np.zeros(3, "int16")], "no-such-dtype"),
    (lambda: [np.zeros(3, "int16")], None),
    (lambda: None, "int16"),
    (lambda: [np.array(["a", "b"])], "int16"),
    (lambda: (np.arange(3, dtype="int8"), np.arange(5, dtype="int8")), np.dtype("int16")),
    (lambda: iter([np.arange(3, dtype="int8")]), np.dtype("int16")),
]
for i, (make_channels, dt) in enumerate(bad_inputs):
    check(("encode-bad", i),
          lambda: T.encode_frame(make_channels(), dt),
          lambda: orig_encode_frame(make_channels(), dt))


# 3. complete transcoder runs, module as found vs. originals patched in
class LoggingStream(io.BytesIO):
    def __init__(self, data, log, tag):
        super().__init__(data)
        self._log = log
        self._tag = tag

    def read(self, size=-1):
        r = super().read(size)
        self._log.append((self._tag, "read", size, len(r)))
        return r

    def seek(self, pos, whence=0):
        self._log.append((self._tag, "seek", pos, whence))
        return super().seek(pos, whence)


def transcode(stream_specs, dest):
    log = []
    streams = [
        DataStream(LoggingStream(data, log, i), enc)
        for i, (data, enc) in enumerate(stream_specs)
    ]
    blocks = list(T.make_transcoder(streams, dest))
    return (blocks, log)


def with_originals(f):
    saved = (T.resize_buffer, T.encode_frame)
    T.resize_buffer, T.encode_frame = orig_resize_buffer, orig_encode_frame
    try:
        return f()
    finally:
        T.resize_buffer, T.encode_frame = saved


L, B = Endianess.LITTLE, Endianess.BIG
lengths = [0, 1, 2, 3, 4, 5, 7, 8, 100, 101, 4095, 4096, 4097, 8191, 8192, 8193, 12290]
for n in lengths:
    pcm = bytes(rnd.getrandbits(8) for _ in range(n))
    pcm2 = bytes(rnd.getrandbits(8) for _ in range(max(0, n - rnd.choice([0, 1, 2, 3, 50]))))
    cases = {
        # passthrough, 16 bit mono / interleaved stereo
        "pt-mono16": ([(pcm, StreamEncoding(L, 2, 1))], StreamEncoding(L, 2, 1)),
        "pt-stereo16": ([(pcm, StreamEncoding(L, 2, 2))], StreamEncoding(L, 2, 2)),
        "pt-mono8": ([(pcm, StreamEncoding(L, 1, 1))], StreamEncoding(L, 1, 1)),
        # pipeline: endianness change
        "be-mono16": ([(pcm, StreamEncoding(B, 2, 1))], StreamEncoding(L, 2, 1)),
        "be-stereo16": ([(pcm, StreamEncoding(B, 2, 2))], StreamEncoding(L, 2, 2)),
        # pipeline: two mono streams -> stereo, equal and unequal lengths
        "split-le": ([(pcm, StreamEncoding(L, 2, 1)), (pcm2, StreamEncoding(L, 2, 1))],
                     StreamEncoding(L, 2, 2)),
        "split-be": ([(pcm, StreamEncoding(B, 2, 1)), (pcm2, StreamEncoding(B, 2, 1))],
                     StreamEncoding(L, 2, 2)),
        "split-mixed": ([(pcm, StreamEncoding(B, 2, 1)), (pcm2, StreamEncoding(L, 2, 1))],
                        StreamEncoding(L, 2, 2)),
        "to-be": ([(pcm, StreamEncoding(L, 2, 1))], StreamEncoding(B, 2, 1)),
        "stereo+mono": ([(pcm, StreamEncoding(L, 2, 2)), (pcm2, StreamEncoding(L, 2, 1))],
                        StreamEncoding(L, 2, 3)),
        # channel count mismatch -> exception
        "mismatch": ([(pcm, StreamEncoding(L, 2, 1))], StreamEncoding(L, 2, 2)),
        "none": ([], StreamEncoding(L, 2, 1)),
    }
    for name, (specs, dest) in cases.items():
        check(("transcode", name, n),
              lambda: transcode(specs, dest),
              lambda: with_originals(lambda: transcode(specs, dest)))
        # every emitted block is a whole number of output frames
        r = outcome(lambda: transcode(specs, dest))
        if r[0] == "ok":
            checks += 1
            fs = dest.sample_width * dest.num_interleaved_channels
            if any(len(b) % fs for b in r[2][0]):
                failures.append(("unaligned block", name, n))

print(f"{checks} checks ({n_ok} compared calls returned normally), {len(failures)} differences")
for f in failures[:8]:
    print("DIFF", str(f)[:600])
sys.exit(1 if failures else 0)
