"""Equivalence demo for the ChickSysCustomIirFilter.process refactoring (iir.pyx).

ChickSysCustomIirFilter.process allocates the int16 output block into which
the ChickenSys IIR kernel stores its saturated samples (limits +-32767, then
truncation towards zero) and returns a copy of it.  The edit spells the
allocation `np.zeros((x.size,), dtype=np.int16)` instead of
`np.zeros((x.size,)).astype(np.int16)`, puts the kernel call on one line
(same six arguments in the same order) and returns `y.astype(np.int16)`
directly instead of rebinding y first.

iir.pyx ships pre-built and Cython is not installed, so the edited text has
no runtime effect on the compiled module.  To still exercise the *edited
text*, the pure-Python `class IirFilter` / `class ChickSysCustomIirFilter`
blocks are cut out of smpl_extract/filters/iir.pyx and exec'd with the
compiled kernels (_c_process / _c_chickensys_process) bound in their
namespace.  They are compared against
  (a) an inline copy of the ORIGINAL class text, exec'd the same way, and
  (b) the compiled classes.

Scenarios: blocks of every length for the three presets and for gains that
drive the recursion far beyond the int16 range in both directions (result
dtype, shape, bytes, flags, a new array each call, values inside +-32767,
state arrays updated in place), every composition of short signals, random
splits of long and extreme-valued ones, reset / flush / reuse, awkward
arguments (other dtypes, 2-D, 0-d, strided, read-only, non-arrays, objects
with odd `size` attributes) and broken instances (which missing attribute is
reported pins the order in which the arguments are read), and a recording
kernel that checks what exactly is handed to the kernel.

Exit 0 when everything agrees, 1 otherwise.
"""
import itertools
import os
import random
import sys
import warnings
from typing import Tuple

import numpy as np

import smpl_extract.filters.iir as compiled
from smpl_extract.filters import common

warnings.simplefilter("ignore")

PYX = os.path.join(os.path.dirname(os.path.abspath(compiled.__file__)), "iir.pyx")

ORIGINAL_CLASSES = '''\
class IirFilter:


    def __init__(self, B: np.ndarray, A: np.ndarray) -> None:
        self.B = B
        self.A = A
        self.n_x_prev = max(0, len(B) - 1)
        self.n_y_prev = max(0, len(A) - 1)
        self.reset_state()


    def reset_state(
            self,
            **kwargs
    ):
        x_prev = kwargs.get("x_prev", None)
        y_prev = kwargs.get("y_prev", None)
        x_prev = x_prev or np.zeros(self.n_x_prev, dtype=np.float64)
        y_prev = y_prev or np.zeros(self.n_y_prev, dtype=np.float64)
        self.x_prev = x_prev.astype(np.float64)
        self.y_prev = y_prev.astype(np.float64)


    def process(self, x: np.ndarray) -> np.ndarray:
        x = x.astype(dtype=np.float64)
        y = np.zeros((x.size,)).astype(np.float64)
        _c_process(
            x,
            y,
            self.B,
            self.A,
            self.x_prev,
            self.y_prev
        )
        return y


    def get_remaining(self) -> np.ndarray:
        y = np.zeros((0,), dtype=np.float64)
        self.reset_state()
        return y


class ChickSysCustomIirFilter(IirFilter):


    def __init__(self, coeffs: Tuple[float, float, float]) -> None:
        B = np.asarray([coeffs[0], coeffs[1]])
        A = np.asarray([1.0, -coeffs[2]])
        super().__init__(B, A)


    def process(self, x: np.ndarray) -> np.ndarray:
        y = np.zeros((x.size,)).astype(np.int16)
        _c_chickensys_process(
            x,
            y,
            self.B,
            self.A,
            self.x_prev,
            self.y_prev
        )
        y = y.astype(np.int16)
        return y
'''


def _cut_class(lines, name):
    start = next(i for i, l in enumerate(lines) if l.startswith("class " + name))
    end = len(lines)
    for j in range(start + 1, len(lines)):
        l = lines[j]
        if l.strip() and not l[0].isspace():
            end = j
            break
    return "".join(lines[start:end])


def _namespace():
    return {"np": np, "Tuple": Tuple, "_c_process": compiled._c_process,
            "_c_chickensys_process": compiled._c_chickensys_process}


def load_original():
    ns = _namespace()
    exec(compile(ORIGINAL_CLASSES, "<original iir.pyx classes>", "exec"), ns)
    return ns["IirFilter"], ns["ChickSysCustomIirFilter"]


def load_text():
    with open(PYX, "r", encoding="utf-8") as fh:
        lines = fh.readlines()
    ns = _namespace()
    exec(compile(_cut_class(lines, "IirFilter"), PYX + ":IirFilter", "exec"), ns)
    exec(compile(_cut_class(lines, "ChickSysCustomIirFilter"), PYX + ":ChickSysCustomIirFilter", "exec"), ns)
    return ns["IirFilter"], ns["ChickSysCustomIirFilter"]


OrigIir, OrigChick = load_original()
TextIir, TextChick = load_text()
IIRS = [OrigIir, TextIir, compiled.IirFilter]
CHICKS = [OrigChick, TextChick, compiled.ChickSysCustomIirFilter]

FAILS = []
CHECKS = [0]


def expect(label, ok, *info):
    CHECKS[0] += 1
    if not ok:
        FAILS.append((label,) + info)


def same_value(a, b):
    if isinstance(a, np.ndarray) or isinstance(b, np.ndarray):
        return (isinstance(a, np.ndarray) and isinstance(b, np.ndarray) and a.dtype == b.dtype
                and a.shape == b.shape and a.tobytes() == b.tobytes())
    if isinstance(a, (list, tuple)) and isinstance(b, (list, tuple)):
        return type(a) is type(b) and len(a) == len(b) and all(same_value(p, q) for p, q in zip(a, b))
    return type(a) is type(b) and a == b


def outcome(fn):
    try:
        return ("ok", fn())
    except BaseException as e:  # noqa
        return ("exc", type(e).__name__, str(e))


def same_outcome(a, b):
    if a[0] != b[0]:
        return False
    if a[0] == "exc":
        return a[1:] == b[1:]
    return same_value(a[1], b[1])


def state(f):
    return {k: (v.copy() if isinstance(v, np.ndarray) else v) for k, v in sorted(vars(f).items())}


def same_state(f, g):
    sf, sg = state(f), state(g)
    return sf.keys() == sg.keys() and all(same_value(sf[k], sg[k]) for k in sf)


def check(label, objs, call):
    """run call(obj) on every object; the first one is the reference"""
    outs = [outcome(lambda o=o: call(o)) for o in objs]
    expect(label + " outcome", all(same_outcome(outs[0], o) for o in outs[1:]), outs)
    expect(label + " state", all(same_state(objs[0], o) for o in objs[1:]),
           [state(o) for o in objs])
    return outs


rng = random.Random(1920)
nrng = np.random.default_rng(1920)


def coeff_sets():
    # NB: len(A) == 1 is deliberately not used: with an empty feedback window the
    # compiled kernel writes out of bounds (pre-existing, unrelated to this edit).
    yield np.asarray([1.0]), np.asarray([1.0, 0.0])
    yield np.asarray([0.5, 0.25]), np.asarray([1.0, -0.5])
    yield np.asarray([1.0, -1.0, 0.5]), np.asarray([2.0, 0.5])
    yield np.asarray([0.25]), np.asarray([1.0, 0.3, -0.2, 0.1])
    for _ in range(10):
        nb, na = rng.randint(1, 5), rng.randint(2, 5)
        A = nrng.uniform(-0.4, 0.4, na)
        A[0] = rng.choice([1.0, 2.0, -1.5, 0.5])
        yield nrng.uniform(-1, 1, nb), A


PRESETS = [(0.5923, 0.1516, 0.2560), (0.7071, 0.1213, 0.1716),
           (22082 / 32767, 4967 / 32767, 8411 / 32767), (1.0, 0.0, 0.0), (1.9, 0.9, 0.99)]


def splits(n):
    if n == 0:
        yield []
    elif n <= 7:
        for bits in itertools.product([0, 1], repeat=n - 1):
            yield [i + 1 for i, b in enumerate(bits) if b] + [n]
    else:
        yield [n]
        yield list(range(1, n + 1))
        for _ in range(4):
            k = rng.randint(0, min(n - 1, 8))
            yield sorted(rng.sample(range(1, n), k)) + [n]


def signals():
    for n in range(0, 8):
        yield nrng.integers(-32768, 32768, n).astype(np.int16)
    yield np.asarray([32767, -32768] * 6, dtype=np.int16)
    yield np.full(15, 32767, dtype=np.int16)
    yield np.full(15, -32768, dtype=np.int16)
    for _ in range(4):
        yield nrng.integers(-32768, 32768, rng.randint(8, 60)).astype(np.int16)


def run_stream(f, x, cuts, flush_at=None):
    out, lo = [], 0
    for j, hi in enumerate(cuts):
        if flush_at is not None and j == flush_at:
            out.append(f.get_remaining())
            out.append(f.x_prev.copy())
            out.append(f.y_prev.copy())
        out.append(f.process(x[lo:hi]))
        out.append(f.x_prev.copy())
        out.append(f.y_prev.copy())
        lo = hi
    out.append(f.get_remaining())
    out.append(f.x_prev.copy())
    out.append(f.y_prev.copy())
    return out


def make_recording(text):
    """class built from `text` whose kernel records its arguments before running"""
    log = []

    def kernel(x, y, B, A, x_prev, y_prev):
        log.append((type(x).__name__, None if not isinstance(x, np.ndarray) else (x.dtype.str, x.shape),
                    type(y).__name__, y.dtype.str, y.shape, y.tobytes(), y.flags.c_contiguous,
                    y.flags.writeable, y.flags.owndata, B.tobytes(), A.tobytes(),
                    x_prev.tobytes(), y_prev.tobytes()))
        return compiled._c_chickensys_process(x, y, B, A, x_prev, y_prev)

    ns = _namespace()
    ns["_c_chickensys_process"] = kernel
    exec(compile(text, "<recording>", "exec"), ns)
    return ns["ChickSysCustomIirFilter"], log


class Sized:
    """not an array, but has a size"""

    def __init__(self, size):
        self.size = size


HOT = [(1.5, 1.5, 0.9), (-1.5, -1.5, 0.9), (3.0, 0.0, -0.99), (100.0, -100.0, -1.0), (1.00003, 0.0, 0.0),
       (-0.5, 0.0, 0.0), (1.0, 1.0, 1.0)]


def main():
    with open(PYX, "r", encoding="utf-8") as fh:
        lines = fh.readlines()
    current_text = _cut_class(lines, "IirFilter") + "\n\n" + _cut_class(lines, "ChickSysCustomIirFilter")
    n_streams = 0
    n_blocks = 0

    # 1. single blocks
    for c in PRESETS[:3] + HOT:
        for n in list(range(0, 12)) + [31, 200]:
            for kind in range(3):
                if kind == 0:
                    x = nrng.integers(-32768, 32768, n).astype(np.int16)
                elif kind == 1:
                    x = nrng.choice(np.asarray([-32768, -32767, -1, 0, 1, 32766, 32767], dtype=np.int16), n)
                else:
                    x = np.full(n, rng.choice([32767, -32768]), dtype=np.int16)
                keep = x.copy()
                trio = [cls(c) for cls in CHICKS]
                ids = [(id(f.x_prev), id(f.y_prev)) for f in trio]
                outs = check("block", trio, lambda f: f.process(x))
                n_blocks += 1
                expect("caller block untouched", same_value(x, keep))
                expect("state arrays updated in place", ids == [(id(f.x_prev), id(f.y_prev)) for f in trio])
                for f, o in zip(trio, outs):
                    expect("block ok", o[0] == "ok", o)
                    if o[0] != "ok":
                        continue
                    y = o[1]
                    expect("block value", isinstance(y, np.ndarray) and y.dtype == np.int16 and y.shape == (n,)
                           and y.flags.c_contiguous and y.flags.writeable and y.flags.owndata and y.base is None
                           and (n == 0 or (y.min() >= -32767 and y.max() <= 32767)), y)
                    y2 = f.process(x)
                    expect("new block each call", y2 is not y and y2.shape == y.shape)
                outs2 = [outcome(lambda f=f: f.process(x)) for f in trio]
                expect("third block", all(same_outcome(outs2[0], o) for o in outs2[1:]))

    # 2. streams
    sigs = list(signals())
    for c in PRESETS + HOT[:4]:
        for x in sigs:
            for cuts in splits(len(x)):
                flush_at = rng.choice([None, None, rng.randrange(len(cuts))]) if cuts else None
                fs = [cls(c) for cls in CHICKS]
                check("stream", fs, lambda f: run_stream(f, x, cuts, flush_at))
                n_streams += 1
                if n_streams % 6 == 0:
                    z = nrng.integers(-32768, 32768, 10).astype(np.int16)
                    check("reuse", fs, lambda f: run_stream(f, z, [3, 4, 10]))
    for cls in (common.ChickSysStandardDeemphFilter, common.ChickSysDarkerDeemphFilter,
                common.ChickSysSpecialDeemphFilter):
        for x in sigs:
            for cuts in list(splits(len(x)))[:20]:
                f = cls()
                g = TextChick((f.B[0], f.B[1], -f.A[1]))
                a, b = outcome(lambda: run_stream(f, x, cuts)), outcome(lambda: run_stream(g, x, cuts))
                expect("preset stream", same_outcome(a, b) and a[0] == "ok", cls.__name__, cuts)

    # 3. awkward arguments
    ro = np.arange(6, dtype=np.int16)
    ro.flags.writeable = False
    odd = [
        np.asarray([1, 2, 3], dtype=np.int8), np.asarray([1, 2, 3], dtype=np.uint16),
        np.asarray([70000, -70000], dtype=np.int32), np.asarray([1, 2], dtype=np.int64),
        np.asarray([0.5, -0.25], dtype=np.float64), np.asarray([1.5], dtype=np.float32),
        np.asarray([True, False]), np.asarray([1 + 2j]), np.asarray(["a", "b"]),
        np.asarray([[1, 2], [3, 4]], dtype=np.int16), np.zeros((0, 3), dtype=np.int16),
        np.zeros((3, 0), dtype=np.int16), np.asarray(5, dtype=np.int16),
        np.arange(20, dtype=np.int16)[::3], np.arange(20, dtype=np.int16)[::-1],
        np.arange(20, dtype=np.int16)[5:5], ro, np.arange(6, dtype=">i2"), np.arange(6, dtype="<i2"),
        [1, 2, 3], (1, 2), None, 3, 2.5, "xyz", b"ab", bytearray(b"abcd"), memoryview(b"abcdef"),
        np.int16(4), np.float64(2.0), range(4), {"size": 3},
        Sized(3), Sized(0), Sized(-1), Sized(2.5), Sized(None), Sized("3"), Sized((2, 2)), Sized([3]),
        Sized(np.int64(4)), Sized(True), Sized(2 ** 70),
    ]
    for blk in odd:
        trio = [cls(PRESETS[0]) for cls in CHICKS]
        warm = nrng.integers(-32768, 32768, 5).astype(np.int16)
        check("odd warm", trio, lambda f: f.process(warm))
        outs = check("odd %s %r" % (type(blk).__name__, getattr(blk, "size", None)), trio, lambda f: f.process(blk))
        check("odd process after", trio, lambda f: f.process(warm))

    # 4. broken instances: order in which the arguments are read
    names = ("B", "A", "x_prev", "y_prev")
    groups = [g for k in (1, 2, 3, 4) for g in itertools.combinations(names, k)]
    for group in groups:
        for blk in (np.asarray([1, 2, 3], dtype=np.int16), [1, 2, 3], Sized(-1)):
            trio = [cls(PRESETS[1]) for cls in CHICKS]
            for f in trio:
                for name in group:
                    delattr(f, name)
            check("missing %r" % (group,), trio, lambda f: f.process(blk))
    for attr, val in (("B", [0.5, 0.25]), ("A", None), ("x_prev", np.zeros(1, dtype=np.float32)),
                      ("y_prev", np.zeros(3)), ("x_prev", np.zeros(4)), ("A", np.asarray([0.0, 1.0])),
                      ("B", np.asarray([1.0])), ("B", np.asarray([]))):
        trio = [cls(PRESETS[2]) for cls in CHICKS]
        for f in trio:
            setattr(f, attr, val.copy() if isinstance(val, np.ndarray) else val)
        blk = np.asarray([30000, -30000, 12], dtype=np.int16)
        check("bad %s" % attr, trio, lambda f: f.process(blk))
        check("bad %s again" % attr, trio, lambda f: f.process(blk))

    # 5. what exactly reaches the kernel
    RecOrig, log_orig = make_recording(ORIGINAL_CLASSES)
    RecText, log_text = make_recording(current_text)
    for c in PRESETS[:3] + HOT[:3]:
        f, g = RecOrig(c), RecText(c)
        for n in (0, 1, 2, 7, 64):
            x = nrng.integers(-32768, 32768, n).astype(np.int16)
            check("recorded", [f, g], lambda h: h.process(x))
        for blk in (np.zeros((2, 2), dtype=np.int16), Sized(3), np.arange(4.0)):
            check("recorded odd", [f, g], lambda h: h.process(blk))
    expect("kernel arguments", log_orig == log_text and len(log_orig) > 30, len(log_orig), len(log_text))

    print("blocks: %d, streams: %d, checks: %d, failures: %d" % (n_blocks, n_streams, CHECKS[0], len(FAILS)))
    for fail in FAILS[:10]:
        print("FAIL", fail)
    return 1 if FAILS else 0


if __name__ == "__main__":
    sys.exit(main())
