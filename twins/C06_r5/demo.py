"""Equivalence demo for Image._add_count_to_name (C06, r5).

Compares the live method against an inline copy of the ORIGINAL body on a
large set of names and counters (results and exception types/messages).
"""
import itertools
import random
import re
import sys

from smpl_extract.structural import Image


_STEREO_FILENAME = re.compile(r"(.*?)([\s-]+)(L|R)\s*$")


def original_add_count_to_name(name, count):
    count_str = "(" + str(count) + ")"
    delim = " "
    tokens = [name, count_str]
    match = _STEREO_FILENAME.match(name)
    if match:
        tokens = [
            match.group(1),
            count_str,
            match.group(3)
        ]
    new_name = delim.join(tokens)
    return new_name


def outcome(fn, *args):
    try:
        value = fn(*args)
        return ("ok", type(value).__name__, value)
    except Exception as exc:  # noqa: BLE001
        return ("exc", type(exc).__name__, str(exc))


class StrSub(str):
    pass


class OddCount:
    def __str__(self):
        return "odd"

    def __format__(self, spec):
        return "FORMAT-SHOULD-NOT-BE-USED"


class BadCount:
    def __str__(self):
        raise ValueError("no str")


def main():
    image = Image(lambda ctx: [])
    assert Image._STEREO_FILENAME.pattern == _STEREO_FILENAME.pattern
    assert Image._STEREO_FILENAME.flags == _STEREO_FILENAME.flags

    names = [
        "", " ", "L", "R", " L", " R", "-L", "-R", "- L", " - R", "  -- L  ",
        "PIANO L", "PIANO R", "PIANO-L", "PIANO -R", "PIANO  L ", "PIANOL",
        "PIANO L L", "PIANO R L", "A L\n", "A\tL", "A\nL", "A\n L", "\n L",
        "STRINGS (2) L", "STRINGS (2)", "(2)", "(2) R", "a l", "a r", "A-B",
        "A - B", "L R", "R L", "-", "--", " - ", "L ", "R  ", "X L.", "X .L",
        "Ä L", " L", "x R", "x R", "x\x1fR", "x\x0bL",
        "track 01", "Track 01 - L", "0", "0 L", "a" * 200 + " R",
        StrSub("SUB L"), StrSub("SUB"),
    ]
    alphabet = ["A", "b", "L", "R", " ", "-", "\t", "\n", ".", "(", ")", "2", "_"]
    for n in range(0, 5):
        for combo in itertools.product(alphabet, repeat=n):
            names.append("".join(combo))
    rng = random.Random(606)
    pool = "ABLRlr -_.()#0123456789\t\né "
    for _ in range(20000):
        names.append("".join(rng.choice(pool) for _ in range(rng.randint(0, 14))))

    counts = [0, 1, 2, 3, 9, 10, 99, 100, -1, 10 ** 30, True, 2.5, "7", None,
              OddCount()]
    bad_names = [None, 5, b"AB L", ["A L"], ("A", "L")]
    bad_counts = [BadCount()]

    checked = 0
    failures = 0
    for name in names:
        for count in (counts if len(name) < 8 else counts[:4]):
            got = outcome(image._add_count_to_name, name, count)
            want = outcome(original_add_count_to_name, name, count)
            checked += 1
            if got != want:
                failures += 1
                if failures <= 10:
                    print("MISMATCH", repr(name), repr(count), got, want)
    for name in bad_names:
        for count in counts + bad_counts:
            got = outcome(image._add_count_to_name, name, count)
            want = outcome(original_add_count_to_name, name, count)
            checked += 1
            if got != want:
                failures += 1
                print("MISMATCH", repr(name), repr(count), got, want)
    for count in bad_counts:
        for name in names[:60]:
            got = outcome(image._add_count_to_name, name, count)
            want = outcome(original_add_count_to_name, name, count)
            checked += 1
            if got != want:
                failures += 1
                print("MISMATCH", repr(name), repr(count), got, want)

    print(f"checked {checked} cases, {failures} mismatches")
    return 1 if failures else 0


if __name__ == "__main__":
    sys.exit(main())
