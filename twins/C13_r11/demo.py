"""Equivalence demo for _pull_from_context (smpl_extract/util/constructs.py).

Compares the function in the tree with an inline copy of the ORIGINAL on
nested contexts 0..4 levels deep (plain dicts, construct Containers and a
mapping that logs every keys()/[] access so that the ORDER of accesses is
compared too), with the key present at every possible level, missing "_"
links, "_" links that are not mappings, key == "_", falsy values and several
defaults.  pull_child_info (its only caller) is compared as well.
Exit 0 when everything agrees.
"""
import itertools
import sys

from construct.lib.containers import Container

from smpl_extract.util import constructs
from smpl_extract.util.constructs import ChildInfo
from smpl_extract.util.constructs import _pull_from_context
from smpl_extract.util.constructs import pull_child_info


# verbatim copy of the original function
def original_pull_from_context(context, key, default=None):
    current_context = context
    for i in range(2):
        if key in current_context.keys():
            result = current_context[key]
            return result
        if "_" not in current_context.keys():
            break
        current_context = current_context["_"]
    result = default
    return result


# verbatim copy of the original caller, bound to the original helper
def original_pull_child_info(context, name=None):
    _pull = original_pull_from_context
    parent = None
    parent_path = []
    routines = []
    resultant_path = parent_path

    # name
    if name is None:
        name = _pull(context, "_elem_name", None)
    # parent
    parent = _pull(context, "_elem_parent", None)
    # parent_path
    if parent is not None:
        parent_path = parent.path
    # resultant_path
    if name is not None:
        resultant_path = parent_path + [name]
    else:
        resultant_path = parent_path
    # routines
    routines = _pull(context, "_elem_routines", [])

    result = ChildInfo(
        parent=parent,
        parent_path=parent_path,
        next_path=resultant_path,
        routines=routines,
        name=name
    )
    return result


LOG = []


class LoggingMapping:
    """minimal mapping: only keys() and [] exist, every use is logged"""

    def __init__(self, label, data):
        self.label = label
        self.data = data

    def keys(self):
        LOG.append((self.label, "keys"))
        return self.data.keys()

    def __getitem__(self, item):
        LOG.append((self.label, "get", item))
        return self.data[item]


def build_chain(kind, level_dicts, tail):
    """innermost context first; each level links to the next through "_" """
    outer = tail
    built = None
    for depth in reversed(range(len(level_dicts))):
        data = dict(level_dicts[depth])
        if outer is not NO_LINK:
            data["_"] = outer
        if kind == "dict":
            built = data
        elif kind == "container":
            built = Container(data)
        else:
            built = LoggingMapping(f"L{depth}", data)
        outer = built
    return built


NO_LINK = object()
failures = 0
checked = 0


def run(func, *args):
    del LOG[:]
    try:
        value = ("ok", func(*args))
    except Exception as exc:  # noqa: BLE001
        value = ("exc", type(exc), str(exc))
    return value, list(LOG)


def same(a, b):
    # results must be the very same objects (or equal exceptions / logs)
    (kind_a, *rest_a), log_a = a
    (kind_b, *rest_b), log_b = b
    if kind_a != kind_b or log_a != log_b:
        return False
    if kind_a == "ok":
        return rest_a[0] is rest_b[0]
    return rest_a == rest_b


def check(context, key, *default):
    global failures, checked
    checked += 1
    expected = run(original_pull_from_context, context, key, *default)
    actual = run(_pull_from_context, context, key, *default)
    if not same(expected, actual):
        failures += 1
        if failures <= 10:
            print("MISMATCH", context, key, default, expected, actual, sep="\n  ")


values = {"v0": "zero", "v1": 0, "v2": None, "v3": [], "v4": "four"}
sentinel = object()
for kind in ("dict", "container", "logging"):
    for depth in range(1, 6):
        # which levels carry the key: every subset
        for present in itertools.product((False, True), repeat=depth):
            level_dicts = []
            for lvl, has in enumerate(present):
                d = {"other": lvl}
                if has:
                    d["k"] = values[f"v{lvl}"]
                level_dicts.append(d)
            for tail in (NO_LINK, None, 5, "text", {"k": "tail"}, {}):
                context = build_chain(kind, level_dicts, tail)
                for key in ("k", "missing", "_", "other"):
                    check(context, key)
                    check(context, key, sentinel)
                    check(context, key, [])

# degenerate contexts
for context in ({}, Container(), {"_": {}}, {"_": {"_": {"k": 1}}}, {"_": None},
                {"k": 1, "_": None}, None, 7, "str", [], [("k", 1)]):
    for key in ("k", "_", "", None, 3, ("t",), ["unhashable"]):
        check(context, key)
        check(context, key, "dflt")


# the caller
class Parent:
    def __init__(self, path):
        self.path = path


def info_outcome(func, context, *name):
    try:
        info = func(context, *name)
    except Exception as exc:  # noqa: BLE001
        return ("exc", type(exc), str(exc))
    parent = info.parent
    return (
        "ok", info, id(info.parent), id(info.routines) if info.routines else None,
        info.next_path is info.parent_path,
        parent is not None and info.parent_path is parent.path,
    )


parent_a, parent_b = Parent(["img"]), Parent([])
routines = {"r": len}
options = {
    "_elem_name": (NO_LINK, "A", "", None),
    "_elem_parent": (NO_LINK, parent_a, parent_b, None),
    "_elem_routines": (NO_LINK, routines, {}, None),
}
level_choices = []
for combo in itertools.product(*options.values()):
    level_choices.append({k: v for k, v in zip(options, combo) if v is not NO_LINK})
sample = level_choices[::3]
for kind in ("dict", "container"):
    for inner in level_choices:
        for outer in sample:
            for far in ({}, {"_elem_name": "far", "_elem_parent": parent_a, "_elem_routines": routines}):
                context = build_chain(kind, [inner, outer, far], NO_LINK)
                for name in ((), ("given",), (None,)):
                    checked += 1
                    expected = info_outcome(original_pull_child_info, context, *name)
                    actual = info_outcome(pull_child_info, context, *name)
                    if expected != actual:
                        failures += 1
                        if failures <= 10:
                            print("INFO MISMATCH", context, name, expected, actual, sep="\n  ")

assert constructs._pull_from_context is _pull_from_context
print(f"checked {checked} cases, {failures} mismatches")
sys.exit(1 if failures else 0)
