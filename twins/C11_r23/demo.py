"""Equivalence demo for FatAreaAdapter._decode (smpl_extract/roland/s7xx/fat.py).

_decode receives the parsed FAT area of a Roland S-7xx image together with
`fat_data_stream`, the ONE shared data-area window (StreamOffset over the image
handle) declared in FatAreaStruct, walks every cluster chain of the FAT, and
hands window + chains to the RolandFileAllocationTable from which every
RolandFile (sample data stream) of the image reads.

The live adapter is compared with an adapter that carries a verbatim copy of
the ORIGINAL _decode:

 1. _decode called directly on hand-made and random FAT containers: valid
    tables with straight / fragmented / backwards chains, chains that end in
    the last usable entries, chains merging into already visited clusters,
    loops, ERROR / RESERVED / FREE values at the head and in the middle of a
    chain, bad identifiers, every pair of version flags, entries >= 0x10000
    (only reachable through a hand-made container).  Compared: exception type
    and text, or version, num_remaining_clusters, table size, identity of the
    window object, every SectorLink value, and the sharing pattern of the
    default SectorLink object;
 2. end to end over ONE traced handle: a generated image (FAT area at 0x80800,
    data area at 0x2b1000) is parsed with both adapters through FatAreaStruct;
    the seek/tell/read traces of the parse must agree; files are opened with
    get_file (also with a cluster offset) and read in blocks, the reads of
    three files interleaved exhaustively (3 streams x 2 blocks) and randomly
    with random block sizes.  Per file the bytes must equal the original's,
    those of an isolated sequential read, and an independent oracle (the
    clusters of the chain cut out of the image); the traces must agree.
Exit 0 when everything agrees, 1 otherwise.
"""
import io
import itertools
import random
import sys
from typing import cast

from construct.core import Adapter
from construct.core import ConstructError

from smpl_extract.roland.s7xx.data_types import DATA_FAT_OFFSET
from smpl_extract.roland.s7xx.data_types import FAT_AREA_ID
from smpl_extract.roland.s7xx.data_types import FAT_AREA_OFFSET
from smpl_extract.roland.s7xx.data_types import FAT_ERROR_FLAG
from smpl_extract.roland.s7xx.data_types import FAT_FREE_FLAG
from smpl_extract.roland.s7xx.data_types import FAT_IS_END_F
from smpl_extract.roland.s7xx.data_types import FAT_NUM_ENTRIES
from smpl_extract.roland.s7xx.data_types import FAT_RESERVED_FLAG
from smpl_extract.roland.s7xx.data_types import FAT_VERSION_1_FLAG
from smpl_extract.roland.s7xx.data_types import FAT_VERSION_2_FLAG
from smpl_extract.roland.s7xx.data_types import ROLAND_CLUSTER_SIZE
from smpl_extract.roland.s7xx.fat import FatArea
from smpl_extract.roland.s7xx.fat import FatAreaAdapter
from smpl_extract.roland.s7xx.fat import FatAreaContainer
from smpl_extract.roland.s7xx.fat import FatAreaMetadataContainer
from smpl_extract.roland.s7xx.fat import FatAreaStruct
from smpl_extract.roland.s7xx.fat import RolandFileAllocationTable
from smpl_extract.util.fat import SectorLink
from smpl_extract.util.fat import add_to_sector_links


class OrigFatAreaAdapter(Adapter):
    """Adapter with the ORIGINAL _decode pasted in."""

    def _decode(self, obj, context, path) -> FatArea:
        container = cast(FatAreaContainer, obj)

        fat_id = container.metadata.fat_id
        if fat_id != FAT_AREA_ID:
            raise ConstructError((
                "Bad FAT identifier. "
                f"Expected {FAT_AREA_ID}, found {fat_id}"
            ))

        num_remaining_clusters = container.metadata.num_unused_clusters

        version_flag_1 = container.metadata.version_flag_1
        version_flag_2 = container.metadata.version_flag_2

        version_map = {
            FAT_VERSION_1_FLAG: 1,
            FAT_VERSION_2_FLAG: 2
        }

        version = 1

        for version_flag in (version_flag_1, version_flag_2):
            if version_flag != FAT_VERSION_1_FLAG:
                if version_flag not in version_map.keys():
                    raise ConstructError((
                        f"Unknown FAT version {version_flag}."
                    ))
                version = version_map[version_flag]
                break

        fat_entries = container.fat_entries

        sector_links = [SectorLink()] * FAT_NUM_ENTRIES
        dirty_flags = [False] * FAT_NUM_ENTRIES
        dirty_flags[0:2] = [True, True]
        for i in range(2, FAT_NUM_ENTRIES - 9):

            if dirty_flags[i]:
                continue

            subpath_links = []
            subpath_visited = set()
            subpath_index = i
            while True:
                if subpath_index >= FAT_NUM_ENTRIES:
                    break

                if subpath_index in subpath_visited:
                    raise ConstructError("Encountered a loop in FAT.")
                subpath_visited.add(subpath_index)

                value = fat_entries[subpath_index]
                dirty_flags[subpath_index] = True

                if value == FAT_ERROR_FLAG:
                    raise ConstructError("Encountered ERROR_FLAG in FAT.")

                if value in (FAT_RESERVED_FLAG, FAT_FREE_FLAG):
                    if len(subpath_links) > 0:
                        if value == FAT_RESERVED_FLAG:
                            err_type = "RESERVE_FLAG"
                        else:
                            err_type = "FREE_FLAG"
                        raise ConstructError(f"Unexpected {err_type} in FAT.")
                    else:
                        break

                subpath_links.append(subpath_index)

                if FAT_IS_END_F(value):
                    add_to_sector_links(subpath_links, sector_links)
                    break

                subpath_index = value
                continue

        fat = RolandFileAllocationTable(
            container.fat_data_stream,
            FAT_NUM_ENTRIES,
            sector_links
        )

        result = FatArea(
            version,
            num_remaining_clusters,
            fat
        )
        return result

    def _encode(self, obj, context, path):
        raise NotImplementedError


LIVE = FatAreaAdapter(FatAreaStruct)
ORIG = OrigFatAreaAdapter(FatAreaStruct)

FAILURES = []


def check(condition, label):
    if not condition:
        FAILURES.append(label)
        if len(FAILURES) <= 20:
            print("MISMATCH:", label)


def summarize(fat_area, window):
    links = fat_area.fat.sector_links
    first_ids = {}
    sharing = []
    for index, link in enumerate(links):
        sharing.append(first_ids.setdefault(id(link), index))
    return (
        type(fat_area).__name__,
        fat_area.version,
        fat_area.num_remaining_clusters,
        type(fat_area.fat).__name__,
        fat_area.fat.size,
        fat_area.fat.parent_stream is window,
        [(link.next, link.end) for link in links],
        sharing,
    )


def decode_outcome(adapter, container):
    try:
        fat_area = adapter._decode(container, {}, "(demo)")
    except Exception as e:  # noqa - every exception is part of the behaviour
        return ("exc", type(e).__name__, str(e))
    return ("ok", summarize(fat_area, container.fat_data_stream))


def make_container(entries, fat_id=FAT_AREA_ID, unused=7,
                   flags=(FAT_VERSION_1_FLAG, FAT_VERSION_1_FLAG)):
    window = object()
    return FatAreaContainer(
        fat_entries=entries,
        metadata=FatAreaMetadataContainer(fat_id, unused, flags[0], flags[1]),
        stream_size=0,
        fat_data_stream=window,  # type: ignore
    )


def blank_entries():
    entries = [FAT_FREE_FLAG] * FAT_NUM_ENTRIES
    entries[0] = FAT_AREA_ID
    entries[1] = 7
    entries[-2] = FAT_VERSION_1_FLAG
    entries[-1] = FAT_VERSION_1_FLAG
    return entries


def put_chain(entries, clusters, end_value=0xffff):
    for a, b in zip(clusters, clusters[1:]):
        entries[a] = b
    entries[clusters[-1]] = end_value


# ---------------------------------------------------------------- part 1
def handmade_cases():
    cases = []

    def case(label, mutate, **kwargs):
        entries = blank_entries()
        mutate(entries)
        cases.append((label, make_container(entries, **kwargs)))

    case("empty table", lambda e: None)
    case("straight chain", lambda e: put_chain(e, [2, 3, 4, 5]))
    case("fragmented chain", lambda e: put_chain(e, [10, 500, 11, 40000, 12]))
    case("backwards chain", lambda e: put_chain(e, [900, 800, 700, 2]))
    case("two chains", lambda e: (put_chain(e, [2, 4, 6]), put_chain(e, [3, 5, 7], 0xfff8)))
    for end_value in (0xfff8, 0xfff9, 0xfffe, 0xffff):
        case(f"end value {end_value:#x}", lambda e, v=end_value: put_chain(e, [20, 21], v))
    case("single cluster file", lambda e: put_chain(e, [77]))
    case("chain into last entries", lambda e: put_chain(e, [65520, 65530, 65535, 65527]))
    case("chain starting at 65526", lambda e: put_chain(e, [65526, 65534]))
    case("chain starting at 65527 is never walked", lambda e: put_chain(e, [65527, 65528]))
    case("chain through clusters 0 and 1", lambda e: put_chain(e, [30, 1, 0, 31]))
    case("merge into visited chain", lambda e: (put_chain(e, [2, 3, 4]), put_chain(e, [9, 3])))
    case("merge into later chain", lambda e: (put_chain(e, [50, 51, 52]), put_chain(e, [9, 51])))
    case("self loop", lambda e: e.__setitem__(40, 40))
    case("long loop", lambda e: put_chain(e, [60, 61, 62, 60], 61))

    def loop3(e):
        e[60], e[61], e[62] = 61, 62, 60
    case("loop of three", loop3)
    case("error flag at head", lambda e: e.__setitem__(15, FAT_ERROR_FLAG))
    case("error flag mid chain", lambda e: put_chain(e, [15, 16, 17], FAT_ERROR_FLAG))
    case("reserved at head", lambda e: e.__setitem__(15, FAT_RESERVED_FLAG))
    case("reserved mid chain", lambda e: put_chain(e, [15, 16, 17], FAT_RESERVED_FLAG))
    case("free mid chain", lambda e: put_chain(e, [15, 16, 17], FAT_FREE_FLAG))
    case("free after one link", lambda e: put_chain(e, [15, 16], FAT_FREE_FLAG))
    case("reserved after one link", lambda e: put_chain(e, [15, 16], FAT_RESERVED_FLAG))
    case("pointer to cluster 1 (value 1 is RESERVED)", lambda e: e.__setitem__(15, 1))
    case("all reserved", lambda e: e.__setitem__(slice(2, 65000), [FAT_RESERVED_FLAG] * 64998))
    case("entry beyond the table", lambda e: put_chain(e, [15, 16], 0x10000))
    case("entry far beyond the table", lambda e: put_chain(e, [15, 16, 17], 10 ** 9))
    case("beyond the table then valid chain", lambda e: (put_chain(e, [15, 16], 70000), put_chain(e, [18, 19])))
    case("bool entries", lambda e: e.__setitem__(slice(2, 6), [True, False, True, False]))
    case("bad id", lambda e: None, fat_id=0x1234)
    case("bad id zero", lambda e: put_chain(e, [2, 3]), fat_id=0)
    for f1 in (FAT_VERSION_1_FLAG, FAT_VERSION_2_FLAG, 0, 0xfffd, 1):
        for f2 in (FAT_VERSION_1_FLAG, FAT_VERSION_2_FLAG, 0x1111):
            case(f"flags {f1:#x} {f2:#x}", lambda e: put_chain(e, [2, 3]), flags=(f1, f2))
    case("unused count", lambda e: None, unused=65535)
    return cases


def random_cases(n, seed):
    rng = random.Random(seed)
    cases = []
    for number in range(n):
        entries = blank_entries()
        pool = rng.sample(range(2, rng.choice((200, 3000, FAT_NUM_ENTRIES))), 150)
        cursor = 0
        for _ in range(rng.randrange(1, 12)):
            length = rng.randrange(1, 14)
            clusters = pool[cursor:cursor + length]
            cursor += length
            put_chain(entries, clusters, rng.choice((0xfff8, 0xfffb, 0xffff)))
        anomaly = rng.random()
        if anomaly < 0.5:
            pass  # valid table
        elif anomaly < 0.6:
            entries[rng.choice(pool[:cursor])] = FAT_ERROR_FLAG
        elif anomaly < 0.7:
            entries[rng.choice(pool[:cursor])] = rng.choice((FAT_FREE_FLAG, FAT_RESERVED_FLAG))
        elif anomaly < 0.8:
            entries[rng.choice(pool[:cursor])] = rng.choice(pool[:cursor])
        elif anomaly < 0.9:
            entries[rng.choice(pool[:cursor])] = rng.randrange(2, FAT_NUM_ENTRIES)
        else:
            for index in rng.sample(pool[:cursor], 3):
                entries[index] = rng.choice((0, 1, FAT_ERROR_FLAG, 0x10000, rng.randrange(2, 300)))
        cases.append((f"random #{number}", make_container(entries)))
    return cases


def part_direct():
    seen = {"ok": 0, "exc": 0}
    messages = set()
    cases = handmade_cases() + random_cases(60, 31)
    for label, container in cases:
        a = decode_outcome(LIVE, container)
        b = decode_outcome(ORIG, container)
        check(a == b, f"{label}: {a[:3] if a[0] == 'exc' else 'ok'} != {b[:3] if b[0] == 'exc' else 'ok'}")
        seen[a[0]] += 1
        if a[0] == "exc":
            messages.add(a[2])
    # the interesting branches must really have been taken
    for needle in ("loop", "ERROR_FLAG", "RESERVE_FLAG", "FREE_FLAG", "identifier", "version"):
        check(any(needle in m for m in messages), f"no case produced a '{needle}' error")
    check(seen["ok"] > 30 and seen["exc"] > 15, f"unbalanced cases {seen}")
    return len(cases)


# ---------------------------------------------------------------- part 2
class TracedBytesIO(io.BytesIO):
    def __init__(self, data):
        super().__init__(data)
        self.trace = []

    def seek(self, offset, whence=0):
        result = super().seek(offset, whence)
        self.trace.append(("seek", offset, whence, result))
        return result

    def tell(self):
        result = super().tell()
        self.trace.append(("tell", result))
        return result

    def read(self, size=-1):
        result = super().read(size)
        self.trace.append(("read", size, len(result), hash(bytes(result))))
        return result


NUM_DATA_CLUSTERS = 24
CHAINS = {
    2: [2, 9, 3, 15, 4],
    5: [5, 6, 7],
    20: [20, 8, 19, 10, 18],
    23: [23],
}
# (start cluster, cluster_offset)
FILES = [(2, 0), (20, 1), (5, 0)]


def build_image():
    rng = random.Random(4242)
    image = bytearray(rng.randbytes(DATA_FAT_OFFSET + NUM_DATA_CLUSTERS * ROLAND_CLUSTER_SIZE))
    entries = blank_entries()
    for clusters in CHAINS.values():
        put_chain(entries, clusters, rng.choice((0xfff8, 0xffff)))
    fat = b"".join(value.to_bytes(2, "little") for value in entries)
    image[FAT_AREA_OFFSET:FAT_AREA_OFFSET + len(fat)] = fat
    return bytes(image)


IMAGE = build_image()


def oracle(file_index, nbytes):
    start, cluster_offset = FILES[file_index]
    clusters = CHAINS[start][cluster_offset:]
    data = b"".join(
        IMAGE[DATA_FAT_OFFSET + c * ROLAND_CLUSTER_SIZE:
              DATA_FAT_OFFSET + (c + 1) * ROLAND_CLUSTER_SIZE]
        for c in clusters
    )
    return data[:nbytes]


def open_files(adapter):
    handle = TracedBytesIO(IMAGE)
    handle.seek(FAT_AREA_OFFSET)
    fat_area = adapter.parse_stream(handle)
    parse_trace = list(handle.trace)
    files = [fat_area.fat.get_file(start, skip) for start, skip in FILES]
    return handle, fat_area, files, parse_trace


def run_schedule(adapter, schedule, block_sizes):
    handle, fat_area, files, _ = open_files(adapter)
    got = [b"" for _ in files]
    for index in schedule:
        got[index] += files[index].read(block_sizes[index])
    return got, handle.trace


_ISOLATED = {}


def isolated(adapter, index, block_size, num_blocks):
    key = (index, block_size, num_blocks)
    if key not in _ISOLATED:  # every isolated read starts from a fresh parse
        _, _, files, _ = open_files(adapter)
        result = b""
        for _ in range(num_blocks):
            result += files[index].read(block_size)
        _ISOLATED[key] = result
    return _ISOLATED[key]


def part_end_to_end():
    count = 0
    live = open_files(LIVE)
    orig = open_files(ORIG)
    check(live[3] == orig[3], "parse traces differ")
    check(
        summarize(live[1], live[1].fat.parent_stream) == summarize(orig[1], orig[1].fat.parent_stream),
        "parsed FAT areas differ"
    )
    for a, b in zip(live[2], orig[2]):
        check(a.sector_list == b.sector_list and a.end_of_file == b.end_of_file, "opened files differ")
    for (start, skip), f in zip(FILES, live[2]):
        check(f.sector_list == CHAINS[start][skip:], f"chain of file {start} wrong")
        check(f.substream is live[1].fat.parent_stream, "file does not read through the shared window")

    block_sizes = [7000, ROLAND_CLUSTER_SIZE, 12000]
    for schedule in sorted(set(itertools.permutations([0, 0, 1, 1, 2, 2]))):
        a = run_schedule(LIVE, schedule, block_sizes)
        b = run_schedule(ORIG, schedule, block_sizes)
        check(a == b, f"schedule {schedule}: live != original")
        for index in range(3):
            alone = isolated(LIVE, index, block_sizes[index], 2)
            check(a[0][index] == alone, f"schedule {schedule}: file {index} disturbed")
            check(alone == oracle(index, 2 * block_sizes[index]), f"oracle file {index}")
        count += 1
    rng = random.Random(3)
    for _ in range(25):
        block_sizes = [rng.randrange(1, 20000) for _ in range(3)]
        blocks = [rng.randrange(0, 5) for _ in range(3)]
        schedule = [i for i in range(3) for _ in range(blocks[i])]
        rng.shuffle(schedule)
        a = run_schedule(LIVE, schedule, block_sizes)
        b = run_schedule(ORIG, schedule, block_sizes)
        check(a == b, f"random schedule {schedule} {block_sizes}: live != original")
        for index in range(3):
            alone = isolated(LIVE, index, block_sizes[index], blocks[index])
            check(a[0][index] == alone, f"random schedule: file {index} disturbed")
            check(alone == oracle(index, blocks[index] * block_sizes[index]),
                  f"random oracle file {index}")
        count += 1
    return count


def main():
    n1 = part_direct()
    n2 = part_end_to_end()
    print(f"direct containers: {n1}, schedules: {n2}")
    if FAILURES:
        print(f"{len(FAILURES)} mismatches")
        return 1
    print("all agree")
    return 0


if __name__ == "__main__":
    sys.exit(main())
