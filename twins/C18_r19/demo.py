"""r19 evidence: smpl_extract/akai/data_types.py, parse_akai_tune_cents and
build_akai_tune_cents (tuning byte <-> cents) behave exactly like the original
functions pasted below: results are compared by type and by exact repr (so a
one-ulp float difference or an int/float swap would show), for a wide integer
range, many floats (rounding ties included), bools, numpy scalars/arrays,
Fractions, Decimals and non-numeric objects; then through the AkaiTuneCents
construct adapter and over the byte -> cents -> byte round trip.
Exit 0 = all agree, 1 = difference.
"""
import decimal
import fractions
import random
import sys
import warnings

from construct.core import Int8sl

import smpl_extract.akai.data_types as live


# ---------------------------------------------------------------- ORIGINAL --
def orig_parse_akai_tune_cents(obj)->float:
    # line equation: y = m(x-x1) + y1
    M = 100/255
    X1 = -128
    Y1 = -50

    x: int = obj
    if x == 0:
        return 0
    result = M*(x - X1) + Y1
    return result


def orig_build_akai_tune_cents(obj)->int:
    # line equation: y = m(x-x1) + y1
    M = 255/100
    X1 = -50
    Y1 = -128

    x: float = obj
    if x == 0:
        return 0
    result = round(M*(x - X1)) + Y1
    return result
# ------------------------------------------------------------ END ORIGINAL --


class EqualsZero:
    """Compares equal to everything; supports no arithmetic."""
    def __eq__(self, other):
        return True
    __hash__ = None


class NeverEqual:
    """Compares unequal to everything, arithmetic gives fixed numbers."""
    def __eq__(self, other):
        return False
    __hash__ = None

    def __sub__(self, other):
        return 7

    def __rsub__(self, other):
        return 9


class OddTruth:
    """== returns an object whose truth value raises."""
    class _Result:
        def __bool__(self):
            raise RuntimeError("no truth value")

    def __eq__(self, other):
        return OddTruth._Result()
    __hash__ = None


def outcome(fn, *args):
    try:
        value = fn(*args)
    except BaseException as exc:  # noqa: B902
        return ("exc", type(exc), str(exc))
    return ("ok", type(value), repr(value))


failures = []
checked = 0


def compare(label, new_fn, old_fn, *args):
    global checked
    checked += 1
    got = outcome(new_fn, *args)
    want = outcome(old_fn, *args)
    if got != want:
        failures.append((label, args, got, want))


rng = random.Random(1819)

# numpy int8 inputs overflow in `x - X1` in the original and the refactored
# code alike; the wrapped results are compared, the warning text is noise.
warnings.simplefilter("ignore", RuntimeWarning)

ints = list(range(-1200, 1200)) + [2**31, -2**31, 2**64, -10**30]
floats = [0.0, -0.0, 0.5, -0.5, 1e-320, -1e-320, 49.99999, 50.0, -50.0,
          50.00001, 1e300, -1e300, float("inf"), float("-inf"), float("nan")]
floats += [n / 255 * 100 for n in range(-300, 300)]
floats += [(k + 0.5) * 100 / 255 - 50 for k in range(0, 256)]   # rounding ties
floats += [c / 4 for c in range(-260, 261)]
floats += [rng.uniform(-80, 80) for _ in range(3000)]
others = [True, False, None, "", "0", "12", b"\x00", b"", (0,), [0], [], {},
          object, complex(0, 0), complex(3, 1),
          fractions.Fraction(0), fractions.Fraction(1, 3),
          fractions.Fraction(-101, 2), decimal.Decimal(0),
          decimal.Decimal("12.5"), EqualsZero(), NeverEqual(), OddTruth()]
try:
    import numpy as np
    others += [np.int8(v) for v in range(-128, 128)]
    others += [np.uint8(0), np.uint8(200), np.float32(0.0), np.float32(12.5),
               np.float64(-0.0), np.float64(33.3), np.array(0), np.array(5),
               np.array([0]), np.array([0, 1]), np.array([])]
except ImportError:
    pass

for value in ints + floats + others:
    compare("parse", live.parse_akai_tune_cents, orig_parse_akai_tune_cents,
            value)
    compare("build", live.build_akai_tune_cents, orig_build_akai_tune_cents,
            value)

# every cents value that parse can produce for a signed or unsigned byte
for byte in range(-128, 256):
    cents = orig_parse_akai_tune_cents(byte)
    compare("build(parse)", live.build_akai_tune_cents,
            orig_build_akai_tune_cents, cents)

# keyword spelling of the only parameter
compare("parse-kw", lambda v: live.parse_akai_tune_cents(obj=v),
        lambda v: orig_parse_akai_tune_cents(obj=v), 17)
compare("build-kw", lambda v: live.build_akai_tune_cents(obj=v),
        lambda v: orig_build_akai_tune_cents(obj=v), 17.25)

# through the construct adapter used by the AKAI sample / program headers
codec = live.AkaiTuneCents(Int8sl)
for byte in range(-128, 128):
    raw = Int8sl.build(byte)
    checked += 1
    parsed = codec.parse(raw)
    want = orig_parse_akai_tune_cents(byte)
    if (type(parsed), repr(parsed)) != (type(want), repr(want)):
        failures.append(("adapter-parse", byte, parsed, want))
    checked += 1
    if codec.build(parsed) != raw:
        failures.append(("adapter-round-trip", byte, parsed))

# the promised round trip: byte -> cents -> byte
for byte in range(-128, 128):
    checked += 1
    back = live.build_akai_tune_cents(live.parse_akai_tune_cents(byte))
    if back != byte or type(back) is not int:
        failures.append(("round-trip", byte, back))

for failure in failures[:20]:
    print("MISMATCH", failure)
print(f"r19 demo: {checked} comparisons, {len(failures)} mismatches")
sys.exit(1 if failures else 0)
