"""r22 evidence: smpl_extract/midi.py - the note-name regular expression
MIDI_NOTE_STR_REGEX, ScaleDegree.__str__ / ScaleDegree.from_string and, on top
of them, MidiNote.from_string / to_string behave exactly like the original
module, whose full source is pasted below (ORIGINAL_SOURCE) and executed into
a private module object.  Compared: regex match / fullmatch / search / findall
results on every string of length <= 3 over a mixed alphabet and on sampled
longer strings (Unicode digits, case-folding oddities, whitespace, newlines
included); ScaleDegree.from_string on every code point up to U+2FFF plus
multi-character, empty and non-string inputs; MidiNote.from_string on all
12 x 10 note names in several spellings and on invalid text; the
byte -> note -> text -> note -> byte round trip for all 256 byte values in
both the AKAI and the MIDI numbering.
Exit 0 = all agree, 1 = difference.
"""
import itertools
import random
import sys
import types

import smpl_extract.midi as live


# ---------------------------------------------------------------- ORIGINAL --
ORIGINAL_SOURCE = r'''
from dataclasses import dataclass
import enum
import re
from typing import Dict
from typing import Tuple


NOTES_IN_OCTAVE = 12
AKAI_SAMPLE_A0  = 21    # C0 at 24, C3 at 60
MIDI_A0         = 21    # C3 at 60


MIDI_NOTE_STR_REGEX = re.compile(r"([A-Ga-g])(#?)(\d)")


class ScaleDegree(enum.IntEnum):
    A = 0
    B = 1
    C = 2
    D = 3
    E = 4
    F = 5
    G = 6
    def __str__(self):
        return chr(self.value + ord('A'))
    @classmethod
    def from_string(cls, input: str):
        input = input.upper().strip()
        return cls(ord(input) - ord('A'))


@dataclass(frozen=True, repr=False)
class MidiNote:
    scale_degree:   ScaleDegree = ScaleDegree.A 
    is_sharp:       bool        = False
    octave:         int         = 0


    def to_string(self) -> str:
        scale_degree_string = str(self.scale_degree)
        is_sharp_string = "#" if self.is_sharp else ""
        octave_string = str(self.octave)
        return "".join([
            scale_degree_string,
            is_sharp_string,
            octave_string
        ])


    def itemize(self):
        result = self.to_string()
        return result


    def __str__(self)->str:
        return self.to_string()


    def __repr__(self)->str:
        result = f"MidiNote({self.to_string()})"
        return result


    @classmethod
    def from_string(cls, input: str):
        input = input.upper().strip()
        matches = MIDI_NOTE_STR_REGEX.match(input)
        if matches is None:
            raise re.error("Could not parse note")
        scale_degree = ScaleDegree.from_string(matches.groups()[0])
        is_sharp = len(matches.groups()[1]) > 0
        octave = int(matches.groups()[2])
        result = cls(scale_degree, is_sharp, octave) 
        return result


    @classmethod
    def from_int_a0(cls, byte_in: int):
        scale_table: Dict[int, Tuple[ScaleDegree, bool]] = {
            0x00:   (ScaleDegree.A, False),
            0x01:   (ScaleDegree.A, True),
            0x02:   (ScaleDegree.B, False),
            0x03:   (ScaleDegree.C, False),
            0x04:   (ScaleDegree.C, True),
            0x05:   (ScaleDegree.D, False),
            0x06:   (ScaleDegree.D, True),
            0x07:   (ScaleDegree.E, False),
            0x08:   (ScaleDegree.F, False),
            0x09:   (ScaleDegree.F, True),
            0x0A:   (ScaleDegree.G, False),
            0x0B:   (ScaleDegree.G, True),
        }
        
        octave = byte_in // NOTES_IN_OCTAVE
        scale_degree_raw = byte_in % NOTES_IN_OCTAVE
        scale_degree, is_sharp = scale_table[scale_degree_raw]

        return cls(scale_degree, is_sharp, octave)

    @classmethod
    def from_akai_byte(cls, byte_in: int):
        byte_normalized = byte_in - AKAI_SAMPLE_A0
        return cls.from_int_a0(byte_normalized)


    @classmethod
    def from_midi_byte(cls, byte_in: int):
        byte_normalized = byte_in - MIDI_A0
        return cls.from_int_a0(byte_normalized)

    
    def to_int_a0(self)->int:

        scale_table: Dict[Tuple[ScaleDegree, bool], int] = {
            (ScaleDegree.A, False):    0x00,
            (ScaleDegree.A, True):     0x01,
            (ScaleDegree.B, False):    0x02,
            (ScaleDegree.B, True):     0x03,   # B# = C
            (ScaleDegree.C, False):    0x03,
            (ScaleDegree.C, True):     0x04,
            (ScaleDegree.D, False):    0x05,
            (ScaleDegree.D, True):     0x06,
            (ScaleDegree.E, False):    0x07,
            (ScaleDegree.E, True):     0x08,   # E# = F
            (ScaleDegree.F, False):    0x08,
            (ScaleDegree.F, True):     0x09,
            (ScaleDegree.G, False):    0x0A,
            (ScaleDegree.G, True):     0x0B
        }
        
        byte_out = scale_table[(self.scale_degree, self.is_sharp)] \
            + (NOTES_IN_OCTAVE * self.octave)

        return byte_out


    def to_akai_byte(self)->int:
        byte_offset = self.to_int_a0()
        byte_out = byte_offset + AKAI_SAMPLE_A0
        return byte_out

    
    def to_midi_byte(self)->int:
        byte_offset = self.to_int_a0()
        byte_out = byte_offset + MIDI_A0
        return byte_out

'''
# ------------------------------------------------------------ END ORIGINAL --

orig = types.ModuleType("orig_midi")
sys.modules["orig_midi"] = orig      # dataclass() looks the module up
exec(compile(ORIGINAL_SOURCE, "orig_midi.py", "exec"), orig.__dict__)


failures = []
checks = 0


def plain(value):
    """Make results of the two modules comparable."""
    if isinstance(value, (live.MidiNote, orig.MidiNote)):
        return ("MidiNote", plain(value.scale_degree), value.is_sharp,
                type(value.octave).__name__, value.octave)
    if isinstance(value, (live.ScaleDegree, orig.ScaleDegree)):
        return ("ScaleDegree", value.name, int(value))
    return (type(value).__name__, value)


def outcome(fn, *args):
    try:
        value = fn(*args)
    except BaseException as exc:  # noqa
        return ("raise", type(exc).__name__, tuple(map(str, exc.args)))
    return ("ok", plain(value))


def compare(label, new_fn, old_fn, *args):
    global checks
    checks += 1
    got = outcome(new_fn, *args)
    want = outcome(old_fn, *args)
    if got != want:
        failures.append((label, args, got, want))


def match_summary(match):
    if match is None:
        return None
    return (match.span(), match.groups(), match.group(0), match.lastindex,
            match.regs)


def regex_summary(regex, text):
    return (
        match_summary(regex.match(text)),
        match_summary(regex.fullmatch(text)),
        match_summary(regex.search(text)),
        regex.findall(text),
        regex.split(text),
        regex.sub("<>", text),
        [match_summary(m) for m in regex.finditer(text)],
    )


def compare_regex(text):
    global checks
    checks += 1
    got = regex_summary(live.MIDI_NOTE_STR_REGEX, text)
    want = regex_summary(orig.MIDI_NOTE_STR_REGEX, text)
    if got != want:
        failures.append(("regex", text, got, want))


# 0. the compiled objects have the same shape
checks += 1
if (live.MIDI_NOTE_STR_REGEX.groups != orig.MIDI_NOTE_STR_REGEX.groups
        or live.MIDI_NOTE_STR_REGEX.flags != orig.MIDI_NOTE_STR_REGEX.flags
        or live.MIDI_NOTE_STR_REGEX.groupindex
        != orig.MIDI_NOTE_STR_REGEX.groupindex):
    failures.append(("regex shape",))

# 1. regex: every string of length <= 3 over a mixed alphabet
ALPHABET = ["A", "a", "G", "g", "H", "h", "@", "`", "#", "0", "9", "/", ":",
            " ", "\n", "٣", "²", "１", "K", "à",
            "Α", "{", "1"]
for length in range(0, 4):
    for letters in itertools.product(ALPHABET, repeat=length):
        compare_regex("".join(letters))

# 2. regex + from_string: sampled longer strings
rng = random.Random(0x5EED22)
for _ in range(4000):
    text = "".join(rng.choice(ALPHABET) for _ in range(rng.randrange(4, 10)))
    compare_regex(text)
    compare("from_string sampled", live.MidiNote.from_string,
            orig.MidiNote.from_string, text)

# 3. ScaleDegree.from_string / __str__ on every code point up to U+2FFF
for code_point in range(0x3000):
    char = chr(code_point)
    compare("degree from_string", live.ScaleDegree.from_string,
            orig.ScaleDegree.from_string, char)
for text in ["", " ", "  a ", "\tb\n", "AB", "a#", "ss", "ß", "ﬁ",
             "c ", " G", "h", "H", "@", "0", "\U0001d400"]:
    compare("degree from_string text", live.ScaleDegree.from_string,
            orig.ScaleDegree.from_string, text)
for bad in [None, 3, b"A", ["A"], 2.5]:
    compare("degree from_string bad", live.ScaleDegree.from_string,
            orig.ScaleDegree.from_string, bad)
for number in range(-2, 10):
    checks += 1
    got = outcome(lambda: str(live.ScaleDegree(number)))
    want = outcome(lambda: str(orig.ScaleDegree(number)))
    if got != want:
        failures.append(("degree str", number, got, want))
    checks += 1
    got = outcome(lambda: format(live.ScaleDegree(number)))
    want = outcome(lambda: format(orig.ScaleDegree(number)))
    if got != want:
        failures.append(("degree format", number, got, want))

# 4. MidiNote.from_string on every note name, several spellings, every length
#    <= 3 string of the alphabet, and non-strings
for letter in "ABCDEFGH":
    for sharp in ("", "#", "##", "b"):
        for octave in list(range(0, 10)) + [10, -1]:
            name = "%s%s%s" % (letter, sharp, octave)
            for text in (name, name.lower(), "  " + name + " ", name + "7",
                         "x" + name, name + "\n", "\t" + name.lower()):
                compare("from_string", live.MidiNote.from_string,
                        orig.MidiNote.from_string, text)
for length in range(0, 4):
    for letters in itertools.product(ALPHABET, repeat=length):
        compare("from_string product", live.MidiNote.from_string,
                orig.MidiNote.from_string, "".join(letters))
for bad in [None, 60, b"C3", ["C3"]]:
    compare("from_string bad", live.MidiNote.from_string,
            orig.MidiNote.from_string, bad)

# 5. all 256 byte values, both numberings: byte -> note -> text -> note -> byte
for byte in range(256):
    for from_name, to_name in (("from_akai_byte", "to_akai_byte"),
                               ("from_midi_byte", "to_midi_byte")):
        def trip(module, byte=byte, from_name=from_name, to_name=to_name):
            note = getattr(module.MidiNote, from_name)(byte)
            text = note.to_string()
            back = getattr(module.MidiNote.from_string(text), to_name)()
            return (plain(note), text, str(note), repr(note), note.itemize(),
                    getattr(note, to_name)(), back)
        checks += 1
        got = outcome(trip, live)
        want = outcome(trip, orig)
        if got != want:
            failures.append(("trip", byte, from_name, got, want))
        # promised round trip for octaves 0-9
        if got[0] == "ok":
            values = got[1][1]
            octave = values[0][4]
            if 0 <= octave <= 9 and values[6] != byte:
                failures.append(("round trip broken", byte, values))

# 6. the text of all 12 x 10 notes parses back to the same note
for degree in live.ScaleDegree:
    for sharp in (False, True):
        for octave in range(10):
            checks += 1
            a = live.MidiNote(degree, sharp, octave)
            b = orig.MidiNote(orig.ScaleDegree(int(degree)), sharp, octave)
            if a.to_string() != b.to_string():
                failures.append(("to_string", degree, sharp, octave))
            if live.MidiNote.from_string(a.to_string()) != a:
                failures.append(("text round trip", degree, sharp, octave))
            if plain(live.MidiNote.from_string(a.to_string())) != \
                    plain(orig.MidiNote.from_string(b.to_string())):
                failures.append(("text round trip 2", degree, sharp, octave))

if failures:
    print("r22 demo: %d of %d checks differ" % (len(failures), checks))
    for failure in failures[:20]:
        print("  ", failure)
    sys.exit(1)
print("r22 demo: %d checks agree" % checks)
sys.exit(0)
