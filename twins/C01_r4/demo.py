"""Equivalence demo for r4: WavSampleAdapter._encode (smpl_extract/generalized/wav.py).

Builds WAV files for many generalized Samples with the module's
WavSampleBuilder / export_wav and with an adapter carrying an inline copy of the
ORIGINAL _encode, and compares the produced bytes, the raised exceptions, the
structure returned by _encode and the order of calls made on the source
streams.  Exit 0 when everything agrees, 1 otherwise.
"""
import io
import os
import random
import sys
import tempfile

from construct import Adapter
from construct import Container

from smpl_extract.data_streams import DataStream
from smpl_extract.data_streams import Endianess
from smpl_extract.data_streams import NoDataStream
from smpl_extract.data_streams import StreamEncoding
from smpl_extract.formats.wav import RiffStruct
from smpl_extract.formats.wav import WavRiffChunkType
from smpl_extract.generalized import wav as wav_mod
from smpl_extract.generalized.sample import ChannelConfig
from smpl_extract.generalized.sample import LoopRegion
from smpl_extract.generalized.sample import LoopType
from smpl_extract.generalized.sample import Sample
from smpl_extract.generalized.wav import get_fmt_chunk_data
from smpl_extract.generalized.wav import get_smpl_chunk_data
from smpl_extract.midi import MidiNote
from smpl_extract.transcoder import make_transcoder


class OriginalWavSampleAdapter(Adapter):

    def _encode(self, obj, context, path):
        # ---- verbatim copy of the original body ----
        del context, path  # Unused
        sample = obj

        if len(sample.data_streams) < 1:
            raise NoDataStream("Sample has no data stream")

        dest_encoding = StreamEncoding(
            endianess=Endianess.LITTLE,  # WAV Specification
            sample_width=sample.data_streams[0].encoding.sample_width,
            num_interleaved_channels=sample.num_channels
        )

        riff_chunks = []

        # fmt chunk
        riff_chunks.append(Container({
            "riff_id":  WavRiffChunkType.FMT,
            "data":     get_fmt_chunk_data(sample, dest_encoding)
        }))

        # smpl chunk
        requires_smpl_chunk = any((x is not None for x in (
                sample.midi_note,
                sample.pitch_offset_cents,
                sample.pitch_offset_semi
            ))) or len(sample.loop_regions) > 0

        if requires_smpl_chunk:
            riff_chunks.append(Container({
                "riff_id":  WavRiffChunkType.SMPL,
                "data":     get_smpl_chunk_data(sample)
            }))

        # data chunk
        data_generator = make_transcoder(sample.data_streams, dest_encoding)
        riff_chunks.append(Container({
            "riff_id":  WavRiffChunkType.DATA,
            "data":     data_generator
        }))

        result = Container({
            "data": Container({
                "chunks": riff_chunks
            })
        })
        return result

    def _decode(self, obj, context, path):
        raise NotImplementedError


OriginalBuilder = OriginalWavSampleAdapter(RiffStruct)


class LoggingBytesIO(io.BytesIO):
    def __init__(self, data, log, tag):
        super().__init__(data)
        self._log = log
        self._tag = tag

    def seek(self, *a):
        self._log.append((self._tag, "seek") + a)
        return super().seek(*a)

    def read(self, *a):
        self._log.append((self._tag, "read") + a)
        return super().read(*a)


def make_specs():
    rnd = random.Random(31337)
    specs = []
    lengths = [0, 1, 2, 3, 140, 4095, 4096, 4097, 8192 - 140, 8192, 8192 + 2, 20000]
    notes = [None, "C4", "A0", "G9"]
    for n_frames in lengths:
        for width, endian in ((2, Endianess.LITTLE), (2, Endianess.BIG), (1, Endianess.LITTLE)):
            for n_streams in (1, 2):
                specs.append(dict(
                    n_frames=n_frames, width=width, endian=endian,
                    n_streams=n_streams, num_channels=n_streams,
                    rate=rnd.choice([44100, 22050, 8000, 48000, 0, 65535]),
                    note=rnd.choice(notes),
                    semi=rnd.choice([None, 0, 1, -3, 12]),
                    cents=rnd.choice([None, 0, 25, -49]),
                    loops=rnd.randrange(0, 3),
                    seed=rnd.randrange(1 << 30),
                ))
    # error paths
    specs.append(dict(n_frames=10, width=2, endian=Endianess.LITTLE, n_streams=0,
                      num_channels=1, rate=44100, note=None, semi=None, cents=None,
                      loops=0, seed=1))
    specs.append(dict(n_frames=10, width=2, endian=Endianess.LITTLE, n_streams=2,
                      num_channels=1, rate=44100, note="C4", semi=None, cents=None,
                      loops=1, seed=2))
    specs.append(dict(n_frames=10, width=2, endian=Endianess.LITTLE, n_streams=1,
                      num_channels=3, rate=44100, note=None, semi=2, cents=None,
                      loops=0, seed=3))
    for _ in range(150):
        specs.append(dict(
            n_frames=rnd.randrange(0, 12000), width=rnd.choice([1, 2, 4]),
            endian=rnd.choice([Endianess.LITTLE, Endianess.BIG]),
            n_streams=rnd.choice([1, 1, 2]), num_channels=rnd.choice([1, 2]),
            rate=rnd.choice([44100, 32000, 0, 1, 96000]),
            note=rnd.choice(notes), semi=rnd.choice([None, 0, 5, -5]),
            cents=rnd.choice([None, 0, 10, -10, 49]),
            loops=rnd.randrange(0, 4), seed=rnd.randrange(1 << 30),
        ))
    return specs


def make_sample(spec, log):
    rnd = random.Random(spec["seed"])
    enc = StreamEncoding(
        endianess=spec["endian"], sample_width=spec["width"],
        num_interleaved_channels=1,
    )
    streams = []
    for k in range(spec["n_streams"]):
        data = bytes(rnd.randrange(256) for _ in range(spec["n_frames"] * spec["width"]))
        streams.append(DataStream(LoggingBytesIO(data, log, k), enc))
    loops = []
    for k in range(spec["loops"]):
        a = rnd.randrange(0, spec["n_frames"] + 1)
        b = rnd.randrange(a, spec["n_frames"] + 1)
        loops.append(LoopRegion(
            start_sample=a, end_sample=b,
            loop_type=rnd.choice(list(LoopType)),
            repeat_forever=rnd.choice([True, False]),
            play_cnt=rnd.choice([None, 0, 3]),
            duration=rnd.choice([None, 0.5, 2.0]),
        ))
    return Sample(
        name="demo",
        channel_config=ChannelConfig.MONO if spec["n_streams"] < 2 else ChannelConfig.STEREO_SPLIT_STREAMS,
        sample_rate=spec["rate"],
        num_channels=spec["num_channels"],
        num_audio_samples=spec["n_frames"],
        data_streams=streams,
        loop_regions=loops,
        midi_note=MidiNote.from_string(spec["note"]) if spec["note"] else None,
        pitch_offset_semi=spec["semi"],
        pitch_offset_cents=spec["cents"],
    )


def run_build(builder, spec):
    log = []
    sample = make_sample(spec, log)
    try:
        out = builder.build(sample)
    except BaseException as e:  # noqa
        return ("exc", type(e).__name__, str(e), log)
    return ("ok", out, log)


def run_encode(adapter, spec):
    log = []
    sample = make_sample(spec, log)
    try:
        tree = adapter._encode(sample, {}, "p")
    except BaseException as e:  # noqa
        return ("exc", type(e).__name__, str(e), log)
    chunks = tree["data"]["chunks"]
    shape = (
        type(tree).__name__, list(tree.keys()),
        type(tree["data"]).__name__, list(tree["data"].keys()),
        [(type(c).__name__, list(c.keys()), c["riff_id"], type(c["data"]).__name__) for c in chunks],
        [c["data"] for c in chunks[:-1]],
    )
    return ("ok", shape, log)


def run_export(fn_builder, spec, tmpdir):
    log = []
    sample = make_sample(spec, log)
    target = os.path.join(tmpdir, "x.wav")
    if os.path.exists(target):
        os.remove(target)
    try:
        if fn_builder is None:
            wav_mod.export_wav(sample, target)
        else:
            with open(target, "wb") as f:
                fn_builder.build_stream(sample, f)
    except BaseException as e:  # noqa
        res = ("exc", type(e).__name__, str(e))
    else:
        res = ("ok",)
    data = open(target, "rb").read() if os.path.exists(target) else None
    return res + (data, log)


def main():
    bad = 0
    specs = make_specs()
    with tempfile.TemporaryDirectory() as tmpdir:
        for spec in specs:
            checks = (
                (run_build(wav_mod.WavSampleBuilder, spec), run_build(OriginalBuilder, spec)),
                (run_encode(wav_mod.WavSampleBuilder, spec), run_encode(OriginalBuilder, spec)),
                (run_export(None, spec, tmpdir), run_export(OriginalBuilder, spec, tmpdir)),
            )
            for got, exp in checks:
                if got != exp:
                    bad += 1
                    if bad < 5:
                        print("MISMATCH", spec, got[:1], exp[:1])
    ok_cnt = sum(1 for s in specs if run_build(OriginalBuilder, s)[0] == "ok")
    print(f"{len(specs)} samples ({ok_cnt} build ok), {bad} mismatches")
    if ok_cnt < len(specs) // 2:
        print("demo is not exercising the success path")
        return 1
    return 1 if bad else 0


if __name__ == "__main__":
    sys.exit(main())
