"""Equivalence demo for r1: SegmentAllocationTableAdapter._decode (smpl_extract/akai/sat.py).

Compares the module's _decode against an inline copy of the ORIGINAL
implementation on hand-written and random SAT word blocks.
Exit 0 when everything agrees, 1 otherwise.
"""
import random
import sys

from construct import Int16ul

from smpl_extract.akai.sat import SegmentAllocationTable
from smpl_extract.akai.sat import SegmentAllocationTableAdapter
from smpl_extract.akai.data_types import AKAI_SAT_EOF_FLAG
from smpl_extract.akai.data_types import AKAI_SAT_FREE_FLAG
from smpl_extract.akai.data_types import AKAI_SAT_RESERVED_FLAG_STD
from smpl_extract.akai.data_types import AKAI_SAT_RESERVED_FLAG_V2
from smpl_extract.util.fat import add_to_sector_links
from smpl_extract.util.fat import SectorLink


def original_decode(self, obj, context, path):
    # ---- verbatim copy of the original body ----
    del path  # Unused
    block = obj
    if callable(self.partition_stream):
        partition_stream = self.partition_stream(context)
    else:
        partition_stream = self.partition_stream

    size = len(block)
    sector_links = [SectorLink()] * size
    dirty_flags = [False] * size

    previous_sector_was_directory = True
    for i in range(size):
        if not dirty_flags[i]:

            links = []
            subpath_index = i

            continue_flag = True
            while continue_flag:
                if subpath_index >= size:
                    continue_flag = False
                    break

                value_current = block[subpath_index]
                current_sector_is_directory = value_current in (
                        AKAI_SAT_RESERVED_FLAG_STD,
                        AKAI_SAT_RESERVED_FLAG_V2
                )

                if not current_sector_is_directory and previous_sector_was_directory and len(links) > 0:
                    add_to_sector_links(links, sector_links)
                    previous_sector_was_directory = False
                    continue_flag = False
                    break
                elif value_current == AKAI_SAT_FREE_FLAG or \
                        (value_current < size and dirty_flags[value_current]):

                    continue_flag = False
                    dirty_flags[subpath_index] = True
                    previous_sector_was_directory = False
                    break
                elif value_current == AKAI_SAT_EOF_FLAG:
                    links.append(subpath_index)
                    add_to_sector_links(links, sector_links)
                    dirty_flags[subpath_index] = True
                    previous_sector_was_directory = current_sector_is_directory
                    continue_flag = False
                    break

                dirty_flags[subpath_index] = True
                links.append(subpath_index)
                if not current_sector_is_directory:
                    subpath_index = value_current
                else:
                    subpath_index += 1
                previous_sector_was_directory = current_sector_is_directory

        else:
            pass

    result = SegmentAllocationTable(partition_stream, size, sector_links)
    return result


def run(fn, adapter, block, context):
    try:
        table = fn(adapter, list(block), context, "path")
    except BaseException as e:  # noqa
        return ("exc", type(e).__name__, str(e))
    return (
        "ok",
        table.size,
        [(l.next, l.end) for l in table.sector_links],
        id(table.parent_stream),
    )


def make_blocks():
    rnd = random.Random(20240928)
    EOF, FREE = AKAI_SAT_EOF_FLAG, AKAI_SAT_FREE_FLAG
    STD, V2 = AKAI_SAT_RESERVED_FLAG_STD, AKAI_SAT_RESERVED_FLAG_V2
    blocks = [
        [],
        [FREE],
        [EOF],
        [STD],
        [V2],
        [STD, STD, STD, EOF],
        [STD, STD, 4, EOF, 3, FREE],
        [STD, V2, FREE, 5, EOF, 4],          # head not the lowest sector
        [STD, STD, 3, 2, EOF],               # chain revisiting
        [1, 2, 3, 4, 5, EOF],
        [5, EOF, 1, 2, 3, 4],
        [1, 0],                              # loop
        [2, 2, 2],                           # self loop
        [7, EOF],                            # link beyond size
        [STD, 100, EOF],
        [STD, STD, EOF, STD, STD, EOF, 7, 8, EOF],
        [EOF, EOF, EOF, EOF],
        [FREE, FREE, STD, STD, FREE, 6, EOF],
        [0xFFFF, 0x7FFF, 0xBFFF],
    ]
    vocab_flags = [EOF, FREE, STD, V2]
    for _ in range(6000):
        n = rnd.choice([1, 2, 3, 4, 5, 6, 8, 12, 20, 40])
        b = []
        for _ in range(n):
            r = rnd.random()
            if r < 0.35:
                b.append(rnd.choice(vocab_flags))
            elif r < 0.9:
                b.append(rnd.randrange(0, n))
            else:
                b.append(rnd.randrange(0, 0x10000))
        blocks.append(b)
    # realistic layouts: directory run, then files with shuffled chains
    for _ in range(300):
        n = rnd.choice([64, 200, 1000])
        b = [FREE] * n
        ndir = rnd.randrange(1, 6)
        for k in range(ndir):
            b[k] = rnd.choice([STD, V2])
        free = list(range(ndir, n))
        rnd.shuffle(free)
        while len(free) > 4 and rnd.random() < 0.9:
            length = rnd.randrange(1, min(12, len(free)))
            chain, free = free[:length], free[length:]
            for a, c in zip(chain, chain[1:]):
                b[a] = c
            b[chain[-1]] = EOF
        blocks.append(b)
    # full-size table
    n = 11386
    b = [FREE] * n
    for k in range(3):
        b[k] = STD
    free = list(range(3, n))
    rnd.shuffle(free)
    while len(free) > 50:
        length = rnd.randrange(1, 40)
        chain, free = free[:length], free[length:]
        for a, c in zip(chain, chain[1:]):
            b[a] = c
        b[chain[-1]] = EOF
    blocks.append(b)
    return blocks


def main():
    stream_obj = object()
    ctx = {"k": object()}
    adapters = [
        SegmentAllocationTableAdapter(stream_obj, Int16ul[4]),
        SegmentAllocationTableAdapter(lambda c: c["k"], Int16ul[4]),
    ]
    bad = 0
    cnt = 0
    for block in make_blocks():
        for adapter in adapters:
            got = run(SegmentAllocationTableAdapter._decode, adapter, block, ctx)
            exp = run(original_decode, adapter, block, ctx)
            cnt += 1
            if got != exp:
                bad += 1
                if bad < 5:
                    print("MISMATCH", block[:40], got[:2], exp[:2])
    print(f"{cnt} cases, {bad} mismatches")
    return 1 if bad else 0


if __name__ == "__main__":
    sys.exit(main())
