"""Equivalence evidence for r6: process_value / itemize_general
(smpl_extract/util/dataclass.py).

Compares the live functions with an inline copy of the ORIGINAL implementation
on edge cases, random nested values and real AKAI elements; also compares the
order of attribute / item accesses.  Exit 0 = all agree, 1 = difference found.
"""
import io
import random
import sys
from collections import OrderedDict
from collections.abc import Iterable
from dataclasses import dataclass
from dataclasses import field
from dataclasses import fields
from dataclasses import is_dataclass
from enum import Enum
from io import IOBase

from construct.lib.containers import Container
from construct.lib.containers import ListContainer

from smpl_extract.util import dataclass as live
from smpl_extract.util.constructs import sanitize_container


# --------------------------------------------------------------------------
# inline copy of the ORIGINAL implementation
# --------------------------------------------------------------------------
def orig_process_value(value):
    if hasattr(value, "itemize"):
        result = value.itemize()
    elif is_dataclass(value):
        result = orig_itemize_general(value)
    elif not isinstance(value, str) and not isinstance(value, IOBase) \
            and isinstance(value, Iterable):

        result = orig_itemize_general(value)  # type: ignore
    else:
        result = str(value)
        return result

    return result


def orig_itemize_general(self):
    if isinstance(self, Container):
        sanitized = sanitize_container(self)
        result = {
            k: orig_process_value(v) for k, v in sanitized.items()
        }
    elif isinstance(self, dict):
        result = {
            k: orig_process_value(v) for k, v in self.items()
        }
    elif is_dataclass(self):
        result = {
            k.name: orig_process_value(getattr(self, k.name))
            for k in fields(self)
        }
    else:
        result = tuple(orig_process_value(v) for v in self)
    return result


# --------------------------------------------------------------------------
# comparison helpers
# --------------------------------------------------------------------------
def deep_same(a, b):
    if type(a) is not type(b):
        return False
    if isinstance(a, dict):
        if list(a.keys()) != list(b.keys()):
            return False
        return all(deep_same(a[k], b[k]) for k in a)
    if isinstance(a, tuple):
        return len(a) == len(b) and all(deep_same(x, y) for x, y in zip(a, b))
    return a == b


def outcome(fn, make_value):
    try:
        return ("ok", fn(make_value()))
    except Exception as e:  # noqa
        return ("exc", type(e).__name__, str(e))


failures = 0
checked = 0


def check(make_value, label=None):
    """make_value is a factory so one-shot iterators are fresh for each side."""
    global failures, checked
    if not callable(make_value):
        v = make_value
        make_value = lambda: v
    for new_fn, old_fn in (
            (live.process_value, orig_process_value),
            (live.itemize_general, orig_itemize_general)):
        checked += 1
        got = outcome(new_fn, make_value)
        want = outcome(old_fn, make_value)
        same = (got[0] == want[0]) and (
            deep_same(got[1], want[1]) if got[0] == "ok" else got == want
        )
        if not same:
            failures += 1
            if failures <= 5:
                print("MISMATCH", label or repr(make_value())[:200],
                      new_fn.__name__)
                print(" got :", repr(got)[:300])
                print(" want:", repr(want)[:300])


# --------------------------------------------------------------------------
# test types
# --------------------------------------------------------------------------
class Colour(Enum):
    RED = 1
    BLUE = 2


@dataclass
class Inner:
    a: int = 1
    b: str = "two"
    _hidden: int = 3


@dataclass
class Outer:
    inner: Inner = field(default_factory=Inner)
    many: tuple = (Inner(5, "x"), Inner(6, "y"))
    mapping: dict = field(default_factory=lambda: {"k": Inner(), "_p": 1})
    colour: Colour = Colour.RED
    nothing: None = None


@dataclass
class DataContainer(Container):
    """dataclass AND construct Container (like VelocityZoneContainer)"""
    x: int = 1
    y: int = 2


class WithItemize:
    def __init__(self, payload):
        self.payload = payload
    def itemize(self):
        return {"itemized": str(self.payload)}


@dataclass
class DataWithItemize:
    x: int = 1
    def itemize(self):
        return ("custom", )


class IterableStream(io.BytesIO):
    def __repr__(self):  # address-free, so both sides print the same text
        return "<IterableStream>"


class TextStream(io.StringIO):
    def __repr__(self):
        return "<TextStream>"


class Unprintable:
    def __str__(self):
        raise ValueError("no str for you")


@dataclass
class Broken:
    x: int = 0
    def __post_init__(self):
        del self.x  # getattr falls back to the class default


@dataclass
class BrokenNoDefault:
    x: int
    y: int = 2
    def __post_init__(self):
        del self.x  # getattr raises AttributeError


LOG = []


class Tracing(dict):
    """dict subclass recording when items() is taken"""
    def items(self):
        LOG.append("items")
        return super().items()


@dataclass
class TracingData:
    first: object = None
    second: object = None
    def __getattribute__(self, name):
        if name in ("first", "second"):
            LOG.append("get " + name)
        return object.__getattribute__(self, name)


class TracedValue:
    def __init__(self, name):
        self.name = name
    def __str__(self):
        LOG.append("str " + self.name)
        return self.name


def gen3():
    yield 1
    yield "two"
    yield (3, )


cont = Container(a=1, _io="stream", b=Container(c=2, _d=3), e=ListContainer([1, 2]))
cont2 = Container()
cont2[""] = "empty key is dropped"
cont2["_x"] = 1
cont2["ok"] = [Container(_y=1, z=Colour.BLUE)]
dc = DataContainer()
dc["extra"] = 7
dc["_private"] = 8

edge_values = [
    0, 1, -1, 1.5, True, None, "", "text", b"bytes", bytearray(b"ba"),
    (), [], {}, set(), frozenset({1}), range(4), "s" * 100,
    (1, 2, 3), [1, "2", 3.0], {"a": 1, "b": (2, 3)}, {1: 2, None: 3, (1, 2): 4},
    OrderedDict([("z", 1), ("a", 2)]), {"_kept_in_plain_dict": 1, "": 2},
    Colour.RED, Colour, Inner(), Inner, Outer(), Outer, dc, DataContainer,
    cont, cont2, ListContainer([Container(a=1, _b=2), 3]),
    WithItemize(5), DataWithItemize(), (WithItemize(1), DataWithItemize()),
    {"k": WithItemize((1, 2))}, Broken(), object(), Ellipsis, 3 + 4j,
    {"a": {"b": {"c": {"d": ({"e": [Inner()]}, )}}}},
    {"x": 1}.keys(), {"x": 1}.values(), {"x": 1}.items(),
    memoryview(b"ab"), Unprintable, int, str,
]
for v in edge_values:
    check(v)
# streams are consumed by iteration: use factories so each side gets a fresh one
check(lambda: IterableStream(b"abc\ndef\n"), "BytesIO subclass")
check(lambda: TextStream("abc\n"), "StringIO subclass")
check(lambda: IterableStream(b"x\ny\n"), "IOBase subclass")
check(lambda: {"stream": IterableStream(b"abc")}, "stream in dict")
check(lambda: (IterableStream(b"l1\nl2"), ), "stream in tuple")
check(lambda: Container(_io=IterableStream(b"abc"), s=IterableStream(b"a\nb")), "stream in container")
check(gen3, "generator")
check(lambda: iter([1, [2, 3]]), "iterator")
check(lambda: map(str, range(3)), "map")
check(lambda: Unprintable(), "unprintable")
check(lambda: (1, Unprintable()), "unprintable nested")
check(lambda: {"a": Unprintable()}, "unprintable in dict")
check(lambda: Container(a=Unprintable()), "unprintable in container")
check(lambda: BrokenNoDefault(1), "dataclass with missing attribute")
check(lambda: Container({1: 2}), "container with int key (len(k) fails)")

# order of accesses
for make in (
        lambda: Tracing(a=TracedValue("va"), b=(TracedValue("vb"), )),
        lambda: TracingData(TracedValue("f"), [TracedValue("s1"), TracedValue("s2")]),
        lambda: (TracingData(TracedValue("f"), TracedValue("s")),
                 Tracing(k=TracedValue("v"))),
):
    for new_fn, old_fn in ((live.process_value, orig_process_value),
                           (live.itemize_general, orig_itemize_general)):
        checked += 1
        del LOG[:]
        got = outcome(new_fn, make)
        log_new = list(LOG)
        del LOG[:]
        want = outcome(old_fn, make)
        log_old = list(LOG)
        if got != want or log_new != log_old:
            failures += 1
            print("TRACE MISMATCH", log_new, log_old)


# --------------------------------------------------------------------------
# random nested values
# --------------------------------------------------------------------------
def random_value(rng, depth=0):
    r = rng.random()
    if depth > 4 or r < 0.35:
        return rng.choice([
            0, -5, 44100, 2.5, True, False, None, "", "name", "C#4",
            Colour.BLUE, b"raw", 1 << 40,
        ])
    if r < 0.45:
        return tuple(random_value(rng, depth + 1) for _ in range(rng.randrange(4)))
    if r < 0.55:
        return [random_value(rng, depth + 1) for _ in range(rng.randrange(4))]
    if r < 0.70:
        return {
            rng.choice(["a", "b", "_c", "", "dd", 1, None]):
                random_value(rng, depth + 1)
            for _ in range(rng.randrange(5))
        }
    if r < 0.82:
        c = Container()
        for _ in range(rng.randrange(5)):
            c[rng.choice(["a", "b", "_c", "", "dd", "_io"])] = \
                random_value(rng, depth + 1)
        return c
    if r < 0.88:
        return ListContainer(
            random_value(rng, depth + 1) for _ in range(rng.randrange(4)))
    if r < 0.94:
        return Inner(random_value(rng, depth + 1), random_value(rng, depth + 1))
    if r < 0.97:
        d = DataContainer(random_value(rng, depth + 1))
        d["k"] = random_value(rng, depth + 1)
        return d
    return WithItemize(random_value(rng, depth + 1))


rng = random.Random(6)
for _ in range(3000):
    check(random_value(rng))


# --------------------------------------------------------------------------
# real elements
# --------------------------------------------------------------------------
from smpl_extract.akai.data_types import AkaiLoopType
from smpl_extract.akai.data_types import SampleType
from smpl_extract.akai.keygroup import Keygroup
from smpl_extract.akai.keygroup import KeygroupConstruct
from smpl_extract.akai.keygroup import VelocityZone
from smpl_extract.akai.program import Program
from smpl_extract.akai.sample import AkaiSample
from smpl_extract.akai.sample import LoopEntry


def public_items(elem):
    exclude = ["name", "path", "type_id", "type_name", "safe_name", "export_name"]
    return {
        k.name: getattr(elem, k.name) for k in fields(elem)
        if elem.is_public_field(k.name, exclude)
    }


for st in list(SampleType):
    for lt in list(AkaiLoopType):
        loops = tuple(
            LoopEntry(rng.randrange(1000), rng.randrange(100000) + 0.5,
                      rng.randrange(10000), bool(rng.randrange(2)))
            for _ in range(rng.randrange(0, 9))
        )
        smp = AkaiSample(
            "FILE", "SAMPLE NAME", st, rng.choice([44100, 22050]), 2,
            rng.randrange(1 << 24), rng.randrange(1 << 20), rng.randrange(1 << 24),
            pitch_cents=rng.randrange(-50, 50), pitch_semi=rng.randrange(-50, 50),
            loop_type=lt, loop_entries=loops, _path=["img", "vol", "FILE"]
        )
        check(public_items(smp))
        checked += 1
        if not deep_same(smp.itemize(), orig_itemize_general(public_items(smp))):
            failures += 1
            print("MISMATCH AkaiSample.itemize")

for nkg in range(0, 10):
    kgs = [
        Keygroup(
            tune_semitones=rng.randrange(-50, 50),
            velocity_zones=[
                VelocityZone(sample_name="S%d" % rng.randrange(1000),
                             low_velocity=rng.randrange(64),
                             high_velocity=64 + rng.randrange(64))
                for _ in range(rng.randrange(0, 5))
            ]
        )
        for _ in range(nkg)
    ]
    prog = Program(
        program_name="PROGRAM %d" % nkg, number_of_keygroups=nkg,
        polyphony=rng.randrange(32), keygroups=kgs, file_name="PRG",
        type_name="S1000 Program", _path=["img", "vol", "PRG"]
    )
    check(public_items(prog))
    check(kgs)
    checked += 1
    if not deep_same(prog.itemize(), orig_itemize_general(public_items(prog))):
        failures += 1
        print("MISMATCH Program.itemize")

# a parsed construct Container (with _io etc.)
try:
    from smpl_extract.akai.keygroup import KeygroupContainer
    built = KeygroupConstruct.build(KeygroupContainer())
    parsed = KeygroupConstruct.parse(built)
    check(parsed, "parsed keygroup container")
except Exception as e:  # building is not what this demo is about
    print("note: keygroup build/parse skipped:", type(e).__name__, e)

print("r6 demo: %d comparisons, %d failures" % (checked, failures))
sys.exit(1 if failures else 0)
