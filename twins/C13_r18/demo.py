"""Equivalence demo for SubStreamConstruct._parse (smpl_extract/util/stream.py),
the construct that builds the `partition_stream` window of every AKAI
partition header parsed by the partition scan loop (and the FAT data stream of
a Roland image).

Compares the _parse of the tree with an inline copy of the ORIGINAL:
  * on a grid of SubStreamConstruct declarations: substream classes
    (StreamWrapper, StreamOffset, a recording factory, a factory that raises,
    a non-callable object that must be handed back untouched), positional and
    keyword arguments that are constants, lambdas, construct `this`
    expressions, callables that raise, with contexts that have / lack the
    referenced fields.  Compared: the type and the attributes of the produced
    stream, identity for the pass-through case, the exception (type and
    arguments), and the ORDER in which the argument callables are evaluated
    and the factory is called (a shared event log);
  * _build (which delegates to _parse) on the same grid;
  * end to end: PartitionHeaderConstruct.parse_stream on images with random
    and edge-case partition sizes at several start offsets, with the tree's
    method and with the original patched in (header fields, partition stream
    window, bytes read through the window, stream position afterwards,
    exceptions).
Exit 0 when everything agrees, 1 otherwise.
"""
import io
import itertools
import random
import sys

from construct.core import ConstructError
from construct.expr import this
from construct.lib.containers import Container

from smpl_extract.akai.data_types import AKAI_PARTITION_MAGIC
from smpl_extract.akai.partition import PartitionHeaderConstruct
from smpl_extract.util.stream import StreamOffset
from smpl_extract.util.stream import StreamWrapper
from smpl_extract.util.stream import SubStreamConstruct


def original_parse(self, stream, context, path):
    # verbatim copy of the original method body
    del path  # Unused

    if callable(self.substream_class):
        args_eval = [self._eval_callable(arg, context) for arg in self.args]
        kwargs_eval = {key : self._eval_callable(value, context) for key, value in self.kwargs.items()}
        result = self.substream_class(stream, *args_eval, **kwargs_eval)
    else:
        result = self.substream_class
    return result


TREE_PARSE = SubStreamConstruct._parse

EVENTS = []


class Boom(Exception):
    pass


def logged(tag, value):
    def evaluate(ctx):
        EVENTS.append(("eval", tag))
        return value
    return evaluate


def raising(tag):
    def evaluate(ctx):
        EVENTS.append(("eval", tag))
        raise Boom(tag)
    return evaluate


def recording_factory(stream, *args, **kwargs):
    EVENTS.append(("factory", args, tuple(kwargs.items())))
    return ("made", id(stream), args, tuple(kwargs.items()))


def raising_factory(stream, *args, **kwargs):
    EVENTS.append(("factory", args, tuple(kwargs.items())))
    raise Boom("factory")


class NotCallable:
    pass


PASS_THROUGH = NotCallable()
PASS_THROUGH_STREAM = StreamWrapper(io.BytesIO(b"abc"), 3)


def describe(value):
    if isinstance(value, StreamWrapper):
        fields = dict(vars(value))
        fields["substream"] = id(fields["substream"])
        return (type(value), sorted(fields.items()))
    return value


def run_case(method, method_name, factory, args, kwargs, context, stream):
    del EVENTS[:]
    construct = SubStreamConstruct(factory, *args, **kwargs)
    try:
        if method_name == "_parse":
            value = method(construct, stream, context, "(demo)")
        else:
            # _build delegates to whatever _parse the class currently has
            saved = SubStreamConstruct._parse
            SubStreamConstruct._parse = method
            try:
                value = construct._build(None, stream, context, "(demo)")
            finally:
                SubStreamConstruct._parse = saved
    except Exception as e:  # noqa: compared below
        return ("raised", type(e), e.args, list(EVENTS))
    same_object = value is factory
    return ("ok", describe(value), same_object, list(EVENTS))


def check_grid():
    failures = 0
    count = 0
    base = io.BytesIO(bytes(range(256)) * 4)
    contexts = [
        Container(total_size=64, start_address=3, stream_size=1000),
        Container(total_size=0, start_address=0),
        Container(),
        Container(_=Container(total_size=5), start_address=1),
    ]
    values = [
        ("const", 16),
        ("zero", 0),
        ("lambda", lambda ctx: ctx.total_size),
        ("this", this.total_size),
        ("thisexpr", this.stream_size - 7),
        ("lambda2", lambda ctx: ctx.start_address + 1),
        ("logged", logged("a", 11)),
        ("logged2", logged("b", 2)),
        ("raising", raising("r")),
        ("none", None),
    ]
    declarations = []
    # positional / keyword layouts for the real stream classes
    for (_n1, size), (_n2, offset) in itertools.product(values, repeat=2):
        declarations.append((StreamWrapper, (size,), {}))
        declarations.append((StreamWrapper, (), {"size": size, "position": offset}))
        declarations.append((StreamOffset, (size, offset), {}))
        declarations.append((StreamOffset, (), {"size": size, "offset": offset}))
        declarations.append((StreamOffset, (size,), {"offset": offset}))
        declarations.append((StreamOffset, (), {"offset": offset, "size": size}))
    # order of evaluation with a recording factory
    order_values = [
        logged("p0", 1), logged("p1", 2), raising("px"),
        logged("k0", 3), 5, this.total_size
    ]
    for a, b, c, d in itertools.product(order_values, repeat=4):
        declarations.append((recording_factory, (a, b), {"x": c, "y": d}))
    for a, b in itertools.product(order_values, repeat=2):
        declarations.append((recording_factory, (), {"y": a, "x": b}))
        declarations.append((recording_factory, (a, b), {}))
        declarations.append((raising_factory, (a,), {"k": b}))
        declarations.append((PASS_THROUGH, (a,), {"k": b}))
        declarations.append((PASS_THROUGH_STREAM, (a,), {"k": b}))
    declarations.append((recording_factory, (), {}))
    declarations.append((StreamWrapper, (), {}))
    declarations.append((PASS_THROUGH, (), {}))
    declarations.append((StreamOffset, (1, 2, 3, 4, 5), {}))
    declarations.append((StreamOffset, (1,), {"size": 2, "offset": 0}))

    for factory, args, kwargs in declarations:
        for context in contexts:
            for method_name in ("_parse", "_build"):
                count += 1
                expected = run_case(
                    original_parse, method_name, factory, args, kwargs,
                    context, base
                )
                actual = run_case(
                    TREE_PARSE, method_name, factory, args, kwargs,
                    context, base
                )
                if expected != actual:
                    failures += 1
                    if failures <= 10:
                        print("MISMATCH", factory, args, kwargs, context)
                        print("  expected", expected)
                        print("  actual  ", actual)
    print(f"grid: {count} declaration/context/method cases, "
          f"{failures} mismatches")
    return failures


def make_header(size_word, corrupt=None):
    check_sum_x = size_word // 128 - 1
    raw = bytearray()
    raw += size_word.to_bytes(2, "little")
    raw += b"\x00\x00"
    raw += AKAI_PARTITION_MAGIC
    raw += bytes([0x55 if check_sum_x % 2 == 0 else 0xD5])
    raw += bytes([(check_sum_x // 2 + 0xBA) & 0xFF])
    raw += b"\x2F\x00"
    if corrupt is not None:
        raw[corrupt % len(raw)] ^= 0x5A
    return bytes(raw)


def parse_header(image, start):
    stream = io.BytesIO(image)
    stream.seek(start)
    try:
        header = PartitionHeaderConstruct.parse_stream(stream)
    except ConstructError as e:
        return ("raised", type(e), stream.tell())
    window = header.partition_stream
    described = describe(window)
    window.seek(0, io.SEEK_SET)
    head = window.read(24)
    window.seek(-5, io.SEEK_END)
    tail = window.read(50)
    return (
        "ok", header.start_address, header.size, header.total_size,
        header.check_sum_x, described[0],
        [item for item in described[1] if item[0] != "substream"],
        head, tail, stream.tell()
    )


def check_end_to_end():
    failures = 0
    count = 0
    rng = random.Random(2024)
    size_words = [0, 1, 2, 127, 128, 129, 255, 256, 0x7FFF, 0xFFFF]
    size_words += [rng.randrange(0, 0x10000) for _ in range(120)]
    for size_word in size_words:
        for start in (0, 1, 7, 300):
            for corrupt in (None, 0, 1, 2, 5, 198, 199, 201):
                count += 1
                filler = bytes(rng.randrange(256) for _ in range(start))
                body = bytes(rng.randrange(256) for _ in range(700))
                image = filler + make_header(size_word, corrupt) + body
                SubStreamConstruct._parse = TREE_PARSE
                actual = parse_header(image, start)
                SubStreamConstruct._parse = original_parse
                try:
                    expected = parse_header(image, start)
                finally:
                    SubStreamConstruct._parse = TREE_PARSE
                if expected != actual:
                    failures += 1
                    if failures <= 10:
                        print("MISMATCH header", size_word, start, corrupt)
                        print("  expected", expected)
                        print("  actual  ", actual)
    print(f"end to end: {count} partition headers, {failures} mismatches")
    return failures


def main():
    failures = check_grid() + check_end_to_end()
    if failures:
        print("FAILED")
        return 1
    print("all agree")
    return 0


if __name__ == "__main__":
    sys.exit(main())
