"""Equivalence demo for r6 (StreamReversed._translate_addr).

The ORIGINAL body of _translate_addr is pasted below into a subclass that
overrides just that method; everything else is shared, so any difference in
results, exceptions (type AND message), object state or substream call order
comes from the refactored method.  Also checks a byte-level model of the
sample-reversed view.  Exit 0 = all agree, 1 = mismatch.
"""
import itertools
import random
import sys
from io import BytesIO, SEEK_CUR, SEEK_END, SEEK_SET

from smpl_extract.util.stream import BadAlign
from smpl_extract.util.stream import BadReadSize
from smpl_extract.util.stream import StreamOffset
from smpl_extract.util.stream import StreamReversed


class OrigStreamReversed(StreamReversed):
    def _translate_addr(self, address: int) -> int:
        if self.true_size % self.sample_width != 0:
            raise BadReadSize(
                f"Read Size: {self.true_size} is not evenly "
                f"divisible by {self.sample_width}."
            )
        true_address = self.end_of_file - (address + self.true_size)
        if true_address % self.sample_width != 0:
            raise BadAlign(
                f"Position: {true_address} is not evenly "
                f"divisible by {self.sample_width}."
            )
        return true_address


class Recorder(BytesIO):
    def __init__(self, data):
        super().__init__(data)
        self.log = []

    def seek(self, *a):
        r = super().seek(*a)
        self.log.append(("seek", a, r))
        return r

    def tell(self):
        r = super().tell()
        self.log.append(("tell", r))
        return r

    def read(self, *a):
        r = super().read(*a)
        self.log.append(("read", a, r))
        return r


def call(fn, *a, **k):
    try:
        return ("ok", fn(*a, **k))
    except Exception as e:  # noqa: BLE001
        return ("exc", type(e).__name__, str(e), e.args)


def state(s):
    return (s.position, s.end_of_file, s.true_size, s.sample_width)


failures = 0


def check(label, a, b):
    global failures
    if a != b:
        failures += 1
        if failures <= 10:
            print("MISMATCH", label, a, b)


def run_history(data, size, width, kwargs, ops, nest_offset=None):
    ra, rb = Recorder(data), Recorder(data)
    sa, sb = ra, rb
    if nest_offset is not None:
        sa = StreamOffset(ra, size, nest_offset)
        sb = StreamOffset(rb, size, nest_offset)
    a = StreamReversed(sa, size, sample_width=width, **kwargs)
    b = OrigStreamReversed(sb, size, sample_width=width, **kwargs)
    for op in ops:
        name, args = op[0], op[1:]
        xa = call(getattr(a, name), *args)
        xb = call(getattr(b, name), *args)
        check(("op", width, op), xa, xb)
        check(("state", op), state(a), state(b))
        check(("log", op), ra.log, rb.log)


def random_ops(rng, size, n, width, aligned_bias):
    ops = []
    for _ in range(n):
        k = rng.randrange(6)
        if k == 0:
            ops.append(("tell",))
        elif k in (1, 2):
            off = rng.randint(-size - 3, size + 3)
            if rng.random() < aligned_bias:
                off -= off % width
            ops.append(("seek", off, rng.choice([SEEK_SET, SEEK_CUR, SEEK_END])))
        elif k == 3:
            ops.append(("seek", rng.choice([-width, width, 0, 1, -1])))
        else:
            n_ = rng.choice([0, width, 2 * width, size, size + width, 1, 3,
                             rng.randint(0, size + 2)])
            if rng.random() < aligned_bias:
                n_ -= n_ % width
            ops.append(("read", n_))
    return ops


def main():
    rng = random.Random(0xC086)

    # --- direct calls: every (end_of_file, true_size, width, address) combo
    for eof, ts, width, addr in itertools.product(
            range(0, 13), range(0, 9), (1, 2, 3, 4), range(-2, 14)):
        a = StreamReversed(BytesIO(b""), eof, sample_width=width)
        b = OrigStreamReversed(BytesIO(b""), eof, sample_width=width)
        a.true_size = b.true_size = ts
        check(("direct", eof, ts, width, addr),
              call(a._translate_addr, addr), call(b._translate_addr, addr))
    # width 0 (ZeroDivisionError) and big ints
    for eof, ts, width, addr in [(4, 0, 0, 0), (4, 2, 0, 1), (2 ** 70, 2 ** 33, 2, 2 ** 40),
                                 (2 ** 70 + 1, 2 ** 33, 2, 2 ** 40), (10, 3, 2, 1)]:
        a = StreamReversed(BytesIO(b""), eof, sample_width=width)
        b = OrigStreamReversed(BytesIO(b""), eof, sample_width=width)
        a.true_size = b.true_size = ts
        check(("direct2", eof, ts, width, addr),
              call(a._translate_addr, addr), call(b._translate_addr, addr))

    # --- exhaustive 3-op histories over tiny streams
    data = bytes(range(1, 13))
    small_ops = [("tell",), ("read", 0), ("read", 1), ("read", 2), ("read", 4), ("read", 20),
                 ("seek", 0, SEEK_SET), ("seek", 1, SEEK_SET), ("seek", 2, SEEK_SET),
                 ("seek", -2, SEEK_CUR), ("seek", 1), ("seek", 0, SEEK_END),
                 ("seek", -2, SEEK_END), ("seek", -1, SEEK_END), ("seek", 99, SEEK_SET)]
    for width, size in ((1, 3), (2, 4), (2, 6), (3, 6), (4, 8), (2, 5)):
        for hist in itertools.product(small_ops, repeat=3):
            run_history(data, size, width, {}, list(hist))

    # --- long random histories, plain and nested over a StreamOffset
    for trial in range(500):
        width = rng.choice([1, 1, 2, 2, 3, 4])
        nsamp = rng.randint(1, 12)
        size = nsamp * width if rng.random() < 0.9 else nsamp * width + 1
        pad = rng.randint(0, 5)
        data = bytes(rng.randrange(256) for _ in range(size + 2 * pad))
        kwargs = {}
        if rng.random() < 0.4:
            kwargs["buffer_length"] = width * rng.randint(1, 4)
        if rng.random() < 0.3:
            kwargs["position"] = width * rng.randint(0, nsamp)
        ops = random_ops(rng, size, 40, width, aligned_bias=0.8)
        if rng.random() < 0.3:
            ops.insert(rng.randrange(len(ops)), ("read", None))
        nest = pad if rng.random() < 0.5 else None
        run_history(data, size, width, kwargs, ops, nest_offset=nest)

    # --- model: aligned histories read the sample-reversed bytes
    for trial in range(200):
        width = rng.choice([1, 2, 3, 4])
        nsamp = rng.randint(1, 10)
        size = nsamp * width
        data = bytes(rng.randrange(256) for _ in range(size))
        logical = b"".join(data[i:i + width] for i in range(size - width, -1, -width))
        s = StreamReversed(BytesIO(data), size, sample_width=width)
        pos = 0
        for _ in range(30):
            k = rng.randrange(3)
            if k == 0:
                check("model-tell", s.tell(), pos)
            elif k == 1:
                target = width * rng.randint(-1, nsamp + 1)
                pos = min(max(target, 0), size)
                check("model-seek", call(s.seek, target, SEEK_SET)[:2], ("ok", pos))
            else:
                n = width * rng.randint(0, nsamp + 1)
                exp = logical[pos:pos + n]
                check("model-read", call(s.read, n)[:2], ("ok", exp))
                pos += len(exp)

    # --- the two error messages, literally
    s = StreamReversed(BytesIO(bytes(8)), 8, sample_width=2)
    check("msg-size", call(s.read, 3)[1:3],
          ("BadReadSize", "Read Size: 3 is not evenly divisible by 2."))
    s = StreamReversed(BytesIO(bytes(8)), 8, sample_width=2)
    s.position = 1
    check("msg-align", call(s.read, 2)[1:3],
          ("BadAlign", "Position: 5 is not evenly divisible by 2."))

    if failures:
        print(f"FAIL: {failures} mismatches")
        return 1
    print("OK: StreamReversed._translate_addr live == original everywhere")
    return 0


if __name__ == "__main__":
    sys.exit(main())
