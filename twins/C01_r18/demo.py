"""Equivalence demo for r18 (smpl_extract/akai/image.py,
AkaiImageParser._load_partitions).

An inline copy of the ORIGINAL _load_partitions is compared with the live
method:
  A. with a scripted stand-in for PartitionParser (each call consumes some
     bytes of the image file and then returns a token, raises
     InvalidPartition / ConstructError (a stop) or another exception (which
     must propagate)), for every mix of file size, script and routine table:
     same parser calls (stream, name, parent, routine table), same routine
     calls in the same order with the same arguments, same tell/seek/read log
     on the file, same resulting partition list / flag, same exception and
     same state after an exception; also with no routine table at all;
  B. with the real PartitionParser over images made by an independent AKAI
     writer: 0..4 partitions, trailing garbage, truncated tails, a damaged
     second partition: same partition names, same volumes and file names,
     same file log;
  C. whole images exported to WAV with the live method and with the original
     patched in: same stdout, same files, same bytes.
Exit 0 = all agree."""
import contextlib
import hashlib
import io
import os
import random
import shutil
import struct
import sys
import tempfile
from io import SEEK_END
from io import SEEK_SET
from typing import List, cast

from construct.core import ConstructError
from construct.core import StreamError

import smpl_extract.akai.image as image_module
from smpl_extract.akai.image import AkaiImageParser
from smpl_extract.akai.partition import InvalidPartition
from smpl_extract.akai.partition import Partition
from smpl_extract.akai.partition import PartitionParser as RealPartitionParser

# the name the inline copy resolves; switched together with the module's
PartitionParser = RealPartitionParser


# ---- inline copy of the ORIGINAL implementation -------------------------
def orig_load_partitions(self):
    partition_cnt = 0
    partitions = []
    while self.file.tell() < self.file_size:
        name = chr(ord("A") + partition_cnt)
        try:
            partition = PartitionParser.parse_stream(
                self.file,  # type: ignore
                _elem_name=name,
                _elem_parent=self,
                _elem_routines=self._routines
            )  
        except (InvalidPartition, ConstructError, struct.error) as e:  # as in the tree after the struct.error fix
            break
        partitions.append(partition)
        partition_cnt += 1

    for routine in self._routines.values():
        partitions = routine(partitions)
    self._partitions = cast(List[Partition], partitions)
    self._partitions_loaded_flag = True
# -------------------------------------------------------------------------

# ---- independent AKAI S1000/S3000 image writer (logical model -> bytes) ----
import struct as _struct

SECTOR = 0x2000
SAT_CNT = 11386
HEADER_SECTORS = 3
MAGIC = b"".join(((3333 * i) & 0xFFFF).to_bytes(2, "little") for i in range(1, 98))


def akai_name(text):
    out = bytearray()
    for ch in text.upper().ljust(12)[:12]:
        if "0" <= ch <= "9":
            out.append(ord(ch) - ord("0"))
        elif "A" <= ch <= "Z":
            out.append(ord(ch) - ord("A") + 0x0B)
        else:
            out.append({" ": 0x0A, "#": 0x25, "+": 0x26, "-": 0x27, ".": 0x28}[ch])
    return bytes(out)


def sample_file(name, type_byte, rate, pcm, play_start, play_end, loops=(), loop_type=2):
    """140 byte header followed by the 16 bit words."""
    head = bytearray()
    head += bytes([type_byte, 0, 60])
    head += akai_name(name)
    head += bytes(4)
    head += bytes([loop_type, 0, 0])
    head += bytes(4)
    head += _struct.pack("<III", len(pcm) // 2, play_start, play_end)
    table = list(loops) + [(0, 0, 0, 0)] * (8 - len(loops))
    for at, fine, coarse, duration in table:
        head += _struct.pack("<IHIH", at, fine, coarse, duration)
    head += bytes(4)
    head += _struct.pack("<H", rate)
    assert len(head) == 140, len(head)
    return bytes(head) + pcm


def build_partition(rnd, volumes, layout="random", dir_style="chain", spare=6):
    """volumes: list of (name, type 1|3, [(file name, file type byte, content bytes)])"""
    needed = HEADER_SECTORS
    for _name, _type, files in volumes:
        needed += 2 + (24 * (len(files) + 1) + SECTOR - 1) // SECTOR
        for _fname, _ftype, content in files:
            needed += max(1, (len(content) + SECTOR - 1) // SECTOR)
    total = needed + spare
    sat = [0] * SAT_CNT
    for s in range(HEADER_SECTORS):
        sat[s] = 0x4000
    sectors = {}
    free = list(range(HEADER_SECTORS, total))

    def take(count, how):
        nonlocal free
        if how == "contiguous":
            for at in range(len(free) - count + 1):
                run = free[at:at + count]
                if run[-1] - run[0] == count - 1:
                    break
            else:
                raise AssertionError("no contiguous run")
            chosen = run
        elif how == "ascending":
            chosen = sorted(rnd.sample(free, count))
        elif how == "descending":
            chosen = sorted(rnd.sample(free, count), reverse=True)
        else:
            chosen = rnd.sample(free, count)
        free = [s for s in free if s not in chosen]
        return chosen

    def store(chain, payload):
        for n, s in enumerate(chain):
            sectors[s] = payload[n * SECTOR:(n + 1) * SECTOR].ljust(SECTOR, b"\x00")

    # directories first (a reserved run needs a non reserved sector behind it)
    dir_chains = []
    for _name, _type, files in volumes:
        count = (24 * (len(files) + 1) + SECTOR - 1) // SECTOR
        if dir_style == "reserved":
            chain = take(count + 1, "contiguous")
            guard = chain.pop()
            free.append(guard)
            free.sort()
            for s in chain:
                sat[s] = 0x4000
            # keep the guard sector out of later reserved runs: leave it free
            free.remove(guard)
        else:
            chain = take(count, "contiguous" if dir_style == "chain" else "random")
            for a, b in zip(chain, chain[1:]):
                sat[a] = b
            sat[chain[-1]] = 0xC000
        dir_chains.append(chain)

    volume_table = bytearray()
    for (name, vtype, files), dir_chain in zip(volumes, dir_chains):
        table = bytearray()
        for fname, ftype, content in files:
            count = max(1, (len(content) + SECTOR - 1) // SECTOR)
            how = layout if layout != "mixed" else rnd.choice(
                ["contiguous", "ascending", "descending", "random"])
            chain = take(count, how)
            for a, b in zip(chain, chain[1:]):
                sat[a] = b
            sat[chain[-1]] = 0xC000
            store(chain, content)
            table += akai_name(fname) + bytes(4) + bytes([ftype])
            table += len(content).to_bytes(3, "little")
            table += _struct.pack("<H", chain[0]) + bytes(2)
        end = bytearray(24)
        end[8:10] = (0xD747).to_bytes(2, "little")
        table += end
        store(dir_chain, bytes(table))
        volume_table += akai_name(name) + _struct.pack("<HH", vtype, dir_chain[0])
    volume_table += bytes(16 * (100 - len(volumes)))

    head = _struct.pack("<H", total) + b"\x00\x00" + MAGIC
    check = total // 128 - 1
    head += bytes([0x55 if check % 2 == 0 else 0xD5, (check // 2 + 0xBA) & 0xFF]) + b"\x2F\x00"
    head += bytes(volume_table)
    head += b"".join(_struct.pack("<H", x) for x in sat)
    assert len(head) == HEADER_SECTORS * SECTOR - 2, len(head)
    body = bytearray(head.ljust(HEADER_SECTORS * SECTOR, b"\x00"))
    for s in range(HEADER_SECTORS, total):
        body += sectors.get(s, bytes(SECTOR))
    return bytes(body)
# ---------------------------------------------------------------------------

# ---- shared demo plumbing --------------------------------------------------
failures = 0
checks = 0


def check(label, a, b):
    global failures, checks
    checks += 1
    if a != b:
        failures += 1
        if failures <= 10:
            print("MISMATCH", label, "\n   live:", repr(a)[:600], "\n   orig:", repr(b)[:600])


def describe_exc(e):
    cause = e.__cause__
    return (
        type(e).__module__ + "." + type(e).__qualname__,
        str(e),
        None if cause is None else (type(cause).__qualname__, str(cause)),
        e.__suppress_context__,
    )


def outcome(f):
    try:
        return ("ok", f())
    except BaseException as e:  # noqa - demo compares every exception
        return ("raise", describe_exc(e))


def snapshot_dir(base):
    found = {}
    for root, dirs, files in os.walk(base):
        dirs.sort()
        rel = os.path.relpath(root, base)
        found[rel + "/"] = None
        for name in sorted(files):
            with open(os.path.join(root, name), "rb") as fh:
                found[os.path.join(rel, name)] = hashlib.sha256(fh.read()).hexdigest()
    return found


def export_image(image_bytes, scratch, tag):
    from smpl_extract.actions import export_samples_to_wav
    from smpl_extract.akai.image import AkaiImageParser
    dest = os.path.join(scratch, tag)
    os.makedirs(dest)
    captured = io.StringIO()
    with contextlib.redirect_stdout(captured):
        result = outcome(lambda: export_samples_to_wav(
            AkaiImageParser(io.BytesIO(image_bytes)), dest))
    return (result, captured.getvalue(), snapshot_dir(dest))


def make_images(rnd):
    """A spread of logical models x allocation layouts x directory styles."""
    def pcm(words):
        return bytes(rnd.getrandbits(8) for _ in range(2 * words))

    images = []
    lengths = [1, 2, 100, 4096 - 70, 4096 - 69, 4096 - 71, 2 * 4096 - 70,
               3 * 4096 - 70, 5000, 9000, 13000]
    for layout in ("contiguous", "ascending", "descending", "random", "mixed"):
        for dir_style in ("chain", "reserved", "scattered"):
            parts = []
            for p in range(rnd.choice([1, 2, 3])):
                volumes = []
                for v in range(rnd.choice([1, 2, 3])):
                    files = []
                    for f in range(rnd.choice([0, 1, 3, 5])):
                        words = rnd.choice(lengths)
                        start = rnd.choice([0, 0, 1, 7, words // 3])
                        end = rnd.choice([words, words, words - 1, max(start, words - 5)])
                        s3000 = rnd.random() < 0.5
                        files.append((
                            "S%d%d%d" % (p, v, f),
                            0xF3 if s3000 else 0x73,
                            sample_file(
                                "S%d" % f, 3 if s3000 else 1,
                                rnd.choice([0, 8000, 22050, 44100, 48000]),
                                pcm(words), start, end
                            )
                        ))
                    if rnd.random() < 0.5:
                        words = rnd.choice(lengths)
                        for side in "LR":
                            files.append((
                                "PAIR -" + side, 0xF3,
                                sample_file("PAIR -" + side, 3, 44100, pcm(words), 0, words)
                            ))
                    volumes.append(("VOL %d%d" % (p, v), rnd.choice([1, 3]), files))
                parts.append(build_partition(rnd, volumes, layout=layout, dir_style=dir_style))
            images.append(((layout, dir_style), b"".join(parts)))
    return images
# ---------------------------------------------------------------------------


class LoggingBytesIO(io.BytesIO):
    def __init__(self, data, log):
        super().__init__(data)
        self.log = log

    def tell(self):
        r = super().tell()
        self.log.append(("tell", r))
        return r

    def seek(self, *a):
        r = super().seek(*a)
        self.log.append(("seek", a, r))
        return r

    def read(self, *a):
        r = super().read(*a)
        self.log.append(("read", a, len(r)))
        return r




@contextlib.contextmanager
def parser_in_use(parser):
    global PartitionParser
    saved_here, saved_there = PartitionParser, image_module.PartitionParser
    PartitionParser = parser
    image_module.PartitionParser = parser
    try:
        yield
    finally:
        PartitionParser = saved_here
        image_module.PartitionParser = saved_there


class ScriptedParser:
    """Stand-in for PartitionParser: consumes bytes, then acts as scripted."""

    def __init__(self, script, events):
        self.script = list(script)
        self.events = events
        self.calls = 0

    def parse_stream(self, stream, **kw):
        step = self.script[self.calls] if self.calls < len(self.script) else ("stop", 0)
        self.calls += 1
        action, consume = step
        self.events.append((
            "parse", self.calls, sorted(kw), kw["_elem_name"],
            kw["_elem_parent"].tag, id(kw["_elem_routines"]) == kw["_elem_parent"].routines_id,
            type(stream).__name__,
        ))
        stream.read(consume)
        if action == "ok":
            return "partition#%d" % self.calls
        if action == "stop":
            raise InvalidPartition("scripted")
        if action == "construct":
            raise ConstructError("scripted")
        if action == "stream":
            raise StreamError("scripted")   # a ConstructError subclass
        if action == "value":
            raise ValueError("scripted")
        if action == "keyboard":
            raise KeyboardInterrupt("scripted")
        raise AssertionError(action)


def make_routines(kind, events):
    def tagger(tag):
        def routine(elements):
            events.append(("routine", tag, list(elements), type(elements).__name__))
            return list(elements) + [tag]
        return routine

    def dropper(elements):
        events.append(("routine", "drop", list(elements), type(elements).__name__))
        return tuple(elements[1:])

    def failing(elements):
        events.append(("routine", "fail", list(elements), type(elements).__name__))
        raise LookupError("routine failed")

    if kind == "none":
        return {}
    if kind == "one":
        return {"a": tagger("a")}
    if kind == "three":
        return {"z": tagger("z"), "a": tagger("a"), "m": tagger("m")}
    if kind == "drop":
        return {"first": tagger("x"), "second": dropper, "third": tagger("y")}
    if kind == "fail":
        return {"first": tagger("x"), "second": failing, "third": tagger("y")}
    raise AssertionError(kind)


def run_scripted(loader, size, script, routine_kind, have_routines, preloaded):
    events = []
    log = []
    file = LoggingBytesIO(bytes(size), log)
    image = AkaiImageParser(file)
    image.tag = "image under test"
    if have_routines:
        image.set_routines(make_routines(routine_kind, events))
        image.routines_id = id(image._routines)
    else:
        image.routines_id = None
    if preloaded:
        image._partitions = ["stale"]
    del log[:]
    with parser_in_use(ScriptedParser(script, events)):
        result = outcome(lambda: loader(image))
    return (
        result, list(image._partitions), type(image._partitions).__name__,
        image._partitions_loaded_flag, file.tell(), events, log,
    )


def part_a():
    rnd = random.Random(1801)
    live_loader = AkaiImageParser.__dict__["_load_partitions"]
    loaded = 0
    for case in range(1500):
        size = rnd.choice([0, 1, 10, 64, 200])
        script = []
        for _ in range(rnd.choice([0, 1, 2, 3, 6, 30])):
            script.append((
                rnd.choices(["ok", "stop", "construct", "stream", "value", "keyboard"],
                            [12, 1, 1, 1, 1, 0.3])[0],
                rnd.choice([0, 1, 5, 10, 32, 64, 300]),
            ))
        routine_kind = rnd.choice(["none", "one", "three", "drop", "fail"])
        have_routines = rnd.random() < 0.93
        preloaded = rnd.random() < 0.3
        args = (size, script, routine_kind, have_routines, preloaded)
        live = run_scripted(live_loader, *args)
        orig = run_scripted(orig_load_partitions, *args)
        check(("scripted", case, args), live, orig)
        loaded += len(live[1]) if live[3] else 0
    # the partitions property and children go through the same method
    for size, script in ((64, [("ok", 32), ("ok", 32)]), (10, [("ok", 3)] * 9), (0, [])):
        def through_property(image):
            first = image.partitions
            again = image.children
            return (list(first), first is again)
        check(("property", size),
              run_scripted(through_property, size, script, "three", True, False),
              run_scripted(lambda image: (orig_load_partitions(image), (list(image._partitions), True))[1],
                           size, script, "three", True, False))
    print("entries loaded in scripted sessions:", loaded)
    check("part A is not vacuous", loaded > 1500, True)


def describe_image(image):
    described = []
    for partition in image.partitions:
        volumes = []
        for volume in partition.volumes:
            volumes.append((volume.name, repr(volume.volume_type), list(volume.path),
                            [(f.name, f.safe_name, f.export_name) for f in volume.files]))
        described.append((type(partition).__name__, partition.name, list(partition.path),
                          partition.parent is image, volumes))
    return described


def run_real(loader, image_bytes):
    log = []
    file = LoggingBytesIO(image_bytes, log)

    def go():
        image = AkaiImageParser(file)
        image.set_routines({
            "make_safe_names": image.make_safe_names_routine,
            "make_export_names": image.make_export_names_routine,
        })
        loader(image)
        return (image._partitions_loaded_flag, describe_image(image))
    return outcome(go), file.tell(), log


def part_b():
    rnd = random.Random(1802)
    live_loader = AkaiImageParser.__dict__["_load_partitions"]

    def pcm(words):
        return bytes(rnd.getrandbits(8) for _ in range(2 * words))

    def partition():
        volumes = []
        for v in range(rnd.choice([1, 2])):
            files = []
            for f in range(rnd.choice([0, 1, 3])):
                words = rnd.choice([1, 100, 4096 - 70, 5000])
                files.append(("SMP %d%d" % (v, f), 0xF3,
                              sample_file("SMP %d" % f, 3, 44100, pcm(words), 0, words)))
            volumes.append(("VOL %d" % v, rnd.choice([1, 3]), files))
        return build_partition(rnd, volumes, layout=rnd.choice(["contiguous", "random", "mixed"]),
                               dir_style=rnd.choice(["chain", "reserved", "scattered"]))

    found = 0
    for case in range(40):
        parts = [partition() for _ in range(rnd.choice([0, 1, 1, 2, 3, 4]))]
        image_bytes = b"".join(parts)
        variant = rnd.choice(["intact", "intact", "garbage tail", "zero tail", "cut", "bad second", "short tail"])
        if variant == "garbage tail":
            image_bytes += bytes(rnd.getrandbits(8) for _ in range(rnd.choice([1, 100, 30000])))
        elif variant == "zero tail":
            image_bytes += bytes(rnd.choice([1, 2, 3, 5000, 3 * SECTOR]))
        elif variant == "short tail" and parts:
            image_bytes += parts[0][:rnd.choice([1, 2, 150, 202, 1802, 3 * SECTOR - 2])]
        elif variant == "cut" and parts:
            image_bytes = image_bytes[:len(image_bytes) - rnd.choice([1, SECTOR, 2 * SECTOR + 5])]
        elif variant == "bad second" and len(parts) > 1:
            damaged = bytearray(image_bytes)
            at = len(parts[0]) + rnd.choice([0, 1, 2, 3, 4, 50, 198, 199, 201])
            damaged[at] ^= 0x5A
            image_bytes = bytes(damaged)
        live = run_real(live_loader, image_bytes)
        orig = run_real(orig_load_partitions, image_bytes)
        check(("real", case, variant, len(parts)), live, orig)
        if live[0][0] == "ok":
            found += len(live[0][1][1])
    print("partitions found in real images:", found)
    check("part B is not vacuous", found > 40, True)


def part_c(scratch):
    rnd = random.Random(1803)
    exported = 0
    calls = [0]

    def counting(self):
        calls[0] += 1
        return orig_load_partitions(self)

    for n, (label, image) in enumerate(make_images(rnd)):
        live = export_image(image, scratch, "live%d" % n)
        saved = AkaiImageParser.__dict__["_load_partitions"]
        AkaiImageParser._load_partitions = counting
        try:
            orig = export_image(image, scratch, "orig%d" % n)
        finally:
            AkaiImageParser._load_partitions = saved
        check(("export", label), live, orig)
        exported += sum(1 for digest in live[2].values() if digest)
    print("wav files exported per run:", exported, "| original _load_partitions calls:", calls[0])
    check("exports are not vacuous", exported > 40, True)
    check("the original method really ran", calls[0] >= 15, True)


def main():
    scratch = tempfile.mkdtemp(prefix="r18_demo_")
    try:
        part_a()
        part_b()
        part_c(scratch)
    finally:
        shutil.rmtree(scratch, ignore_errors=True)
    print("checks:", checks, "failures:", failures)
    return 1 if failures or not checks else 0


if __name__ == "__main__":
    sys.exit(main())
