"""Equivalence demo for r8: Element.export_path (smpl_extract/base.py).

The module's export_path is compared against an inline copy of the
ORIGINAL implementation on many parent chains: every depth 0..6, every
combination of empty / non-empty paths along the chain, export names set
or unset, attributes deleted (the properties fall back through hasattr),
path spelled as list / tuple / str.  Compared: the returned list (value and
type), that a fresh list is returned each call, the raised exception, and
the ordered log of every instance-attribute read made on every node while
climbing (so the order in which nodes are inspected is checked too).
"""
import itertools
import random
import sys

from smpl_extract.base import Element
from smpl_extract.base import ElementTypes


def original_export_path(self):
    current_path = self.path
    if len(current_path) <= 0:
        return []
    new_path = []
    current_node = self
    while current_node is not None and len(current_node.path) > 0:
        new_path = [current_node.export_name] + new_path
        current_node = current_node.parent
    return new_path


LOG = []
WATCHED = {"_path", "_parent", "_export_name", "_safe_name", "name"}


class Node(Element):
    type_id = ElementTypes.DirectoryEntry
    type_name = "node"

    def __init__(self, tag, name, path=None, parent=None):
        super().__init__(path, parent)
        self.name = name
        self.tag = tag

    def __getattribute__(self, attr):
        if attr in WATCHED:
            LOG.append((object.__getattribute__(self, "__dict__").get("tag"), attr))
        return object.__getattribute__(self, attr)

    def get_info(self):
        raise NotImplementedError


def build(spec):
    """spec: list (root first) of dicts describing each node of one chain."""
    parent = None
    node = None
    for depth, d in enumerate(spec):
        node = Node(depth, d["name"], d["path"], parent)
        if d.get("export") is not None:
            node._export_name = d["export"]
        if d.get("safe") is not None:
            node._safe_name = d["safe"]
        for attr in d.get("delete", ()):
            object.__delattr__(node, attr)
        if d.get("raw_path", False) is not False:
            node._path = d["raw_path"]
        parent = node
    return node


def run(fn, spec):
    leaf = build(spec)
    del LOG[:]
    try:
        first = fn(leaf)
        second = fn(leaf)
        out = ("ok", first, type(first).__name__, first == second, first is not second)
    except Exception as e:  # noqa: BLE001
        out = ("exc", type(e).__name__, str(e))
    return out, list(LOG)


failures = 0
cases = 0


def check(spec):
    global failures, cases
    if not spec:
        return
    cases += 1
    new = run(Element.export_path, spec)
    old = run(original_export_path, spec)
    via_method = run(lambda n: n.export_path(), spec)
    if not (new == old == via_method):
        failures += 1
        if failures <= 10:
            print("MISMATCH", spec)
            print("  new:", new)
            print("  old:", old)


# exhaustive: depth 1..6, each node has an empty or non-empty path, export set or not
for depth in range(1, 7):
    for empties in itertools.product([False, True], repeat=depth):
        for exports in itertools.product([False, True], repeat=depth):
            spec = []
            for i in range(depth):
                spec.append({
                    "name": f"n{i}",
                    "path": [] if empties[i] else [f"n{k}" for k in range(i + 1)],
                    "export": f"e{i}" if exports[i] else None,
                })
            check(spec)

# odd shapes
rng = random.Random(813)
PATHS = [None, [], ["a"], ["a", "b"], (), ("a",), "", "ab"]
for _ in range(4000):
    depth = rng.randrange(1, 7)
    spec = []
    for i in range(depth):
        d = {
            "name": rng.choice(["", "x", "Kick -L", f"n{i}"]),
            "path": rng.choice([None, [], ["a"], ["a", "b"]]),
            "export": rng.choice([None, None, "", f"e{i}"]),
            "safe": rng.choice([None, f"s{i}"]),
        }
        r = rng.random()
        if r < 0.15:
            d["delete"] = rng.sample(["_path", "_parent", "_export_name", "_safe_name"], rng.randrange(1, 4))
        elif r < 0.35:
            d["raw_path"] = rng.choice(PATHS)   # None -> len(None) TypeError in both
        spec.append(d)
    check(spec)

print(f"{cases} cases, {failures} failures")
sys.exit(1 if failures else 0)
