"""Equivalence demo for r15 (smpl_extract/util/constructs.py:
_pull_from_context - the two-level context look-up behind pull_child_info,
which FileEntriesAdapter._parse and every ElementAdapter (Roland sample /
partial / patch entries inside the tolerant SafeListConstruct lists) use to
find the parent, the path and the routines of the entries being listed).

An inline copy of the ORIGINAL function is compared with the live one.

 A. direct: contexts that are recording dict subclasses (every keys() /
    `in` / [] access is logged, on every nesting level), plain dicts and
    construct Containers, nested 0..3 levels deep, with the key on any level,
    on several levels or nowhere, values that are None / falsy, "_" entries
    that are None / a list / an int / a string, contexts that are not
    mappings at all, keys that are unhashable; explicit and implicit
    defaults.  Compared: returned value (and identity with the stored
    object), exception type and text, the access log.  A fixed grid plus
    4000 random nestings.  pull_child_info on top of both versions.
 B. AKAI end to end: synthetic partitions (file tables with the damage of
    property C14) listed through the live structs with
    constructs._pull_from_context bound to the original or to the live
    function; compared: volumes, entry names, file names and paths, parents,
    decoded sample bytes and the trace of seek/read/tell on the image.
 C. Roland records: a sparse S-7xx image whose sample directory / parameter
    records are damaged byte by byte is read through SampleEntryAdapter (an
    ElementAdapter) inside a SafeListConstruct, again with both bindings;
    compared: the surviving entries (names, paths, parents) and the trace.

Exit 0 when everything agrees, 1 otherwise.
"""
import io
import random
import struct
import sys
from typing import Any
from typing import Dict

from construct.core import Bytes
from construct.core import Int16ul
from construct.core import Lazy
from construct.core import Struct
from construct.expr import this
from construct.lib.containers import Container

import smpl_extract.util.constructs as uc
import smpl_extract.akai.volume as vm
from smpl_extract.akai.akai_string import char_ascii_to_akai
from smpl_extract.akai.data_types import AKAI_PARTITION_MAGIC
from smpl_extract.akai.data_types import AKAI_SAT_ENTRY_CNT
from smpl_extract.akai.data_types import AKAI_VOLUME_ENTRY_CNT
from smpl_extract.akai.partition import PartitionHeaderConstruct
from smpl_extract.akai.sat import SegmentAllocationTableAdapter
from smpl_extract.akai.volume import VolumeEntryConstruct
from smpl_extract.roland.s7xx.data_types import SAMPLE_DIRECTORY_AREA_OFFSET
from smpl_extract.roland.s7xx.data_types import SAMPLE_DIRECTORY_ENTRY_SIZE
from smpl_extract.roland.s7xx.data_types import SAMPLE_PARAMETER_AREA_OFFSET
from smpl_extract.roland.s7xx.data_types import SAMPLE_PARAMETER_ENTRY_SIZE
from smpl_extract.roland.s7xx.sample_entry import SampleEntryAdapter
from smpl_extract.roland.s7xx.sample_entry import SampleEntryConstruct
from smpl_extract.util.constructs import SafeListConstruct

live_pull = uc._pull_from_context


# ---------------------------------------------------------------- original
def orig_pull(context: Dict[str, Any], key: str, default = None):
    current_context = context
    for i in range(2):
        if key in current_context.keys():
            result = current_context[key]
            return result
        if "_" not in current_context.keys():
            break
        current_context = current_context["_"]
    result = default
    return result


failures = []
checked = 0


def check(cond, msg):
    global checked
    checked += 1
    if not cond:
        failures.append(msg)


class use_pull:
    """binds the module global that pull_child_info looks up at call time"""

    def __init__(self, func):
        self.func = func

    def __enter__(self):
        self.saved = uc._pull_from_context
        uc._pull_from_context = self.func

    def __exit__(self, *exc):
        uc._pull_from_context = self.saved
        return False


# ---------------------------------------------------------------- part A
class RecDict(dict):

    def __init__(self, log, tag, *a, **k):
        super().__init__(*a, **k)
        self.log = log
        self.tag = tag

    def keys(self):
        self.log.append((self.tag, "keys"))
        return super().keys()

    def __getitem__(self, key):
        self.log.append((self.tag, "get", repr(key)))
        return super().__getitem__(key)

    def __contains__(self, key):
        self.log.append((self.tag, "in", repr(key)))
        return super().__contains__(key)

    def get(self, *a):
        self.log.append((self.tag, "dict.get", repr(a)))
        return super().get(*a)


class ExplodingKeys(dict):
    def keys(self):
        raise RuntimeError("no keys for you")


class Marker:
    def __init__(self, tag):
        self.tag = tag

    def __repr__(self):
        return "Marker(%r)" % (self.tag,)


MISSING = object()


def build_context(spec, log, kind):
    """spec: list of levels, innermost first; each level is a dict of plain
    entries; the special entry "_" may be given explicitly (odd parents)."""
    parent = MISSING
    objects = {}
    for depth in reversed(range(len(spec))):
        level = dict(spec[depth])
        if parent is not MISSING and "_" not in level:
            level["_"] = parent
        if kind == "rec":
            ctx = RecDict(log, "L%d" % depth, level)
        elif kind == "dict":
            ctx = dict(level)
        else:
            ctx = Container(level)
        objects[depth] = ctx
        parent = ctx
    return parent if parent is not MISSING else None, objects


def run_pull(func, spec, kind, key, default=MISSING):
    log = []
    ctx, objects = build_context(spec, log, kind)
    try:
        if default is MISSING:
            value = func(ctx, key)
        else:
            value = func(ctx, key, default)
    except BaseException as e:  # noqa: B902
        return ("raise", type(e), str(e), log)
    where = [
        depth for depth, obj in objects.items()
        if isinstance(obj, dict) and any(v is value for v in dict.values(obj))
    ]
    return ("ok", repr(value), value is default, where, log)


def compare_pull(label, spec, kind, key, default=MISSING):
    a = run_pull(orig_pull, spec, kind, key, default)
    b = run_pull(live_pull, spec, kind, key, default)
    check(a == b, f"pull {label} {spec} {kind} {key!r}: {str(a)[:400]} != {str(b)[:400]}")
    return b


def run_child_info(func, spec, kind, name):
    log = []
    ctx, _objects = build_context(spec, log, kind)
    with use_pull(func):
        try:
            if name is MISSING:
                info = uc.pull_child_info(ctx)
            else:
                info = uc.pull_child_info(ctx, name)
        except BaseException as e:  # noqa: B902
            return ("raise", type(e), str(e), log)
    return ("ok", type(info).__name__, repr(tuple(info)), info._fields, log)


class PathParent:
    def __init__(self, path):
        self.path = path

    def __repr__(self):
        return "PathParent(%r)" % (self.path,)


def part_a():
    rng = random.Random(0xC14)
    m0, m1, m2, m3 = Marker(0), Marker(1), Marker(2), Marker(3)
    specs = [
        [],
        [{}],
        [{"k": m0}],
        [{"k": None}],
        [{"k": 0}],
        [{"other": 1}],
        [{}, {}],
        [{}, {"k": m1}],
        [{"k": m0}, {"k": m1}],
        [{"k": None}, {"k": m1}],
        [{"x": 1}, {"y": 2}, {"k": m2}],             # third level: out of reach
        [{}, {}, {"k": m2}, {"k": m3}],
        [{}, {"k": m1}, {"k": m2}],
        [{"_": None}],
        [{"_": None, "k": m0}],
        [{"_": [1, 2]}],
        [{"_": 5}],
        [{"_": "text"}],
        [{"_": {"k": m1}}],                           # plain dict parent
        [{"_": {"_": {"k": m2}}}],
        [{}, {"_": None}],
        [{}, {"_": 7}],
        [{}, {"_": None, "k": m1}],
        [{"_": ExplodingKeys()}],
        [{}, {"_": ExplodingKeys(k=m2)}],
        [{"": m0}, {"": m1}],
    ]
    keys = ["k", "_", "", "missing", "_elem_parent", None, 5, ("t",)]
    for spec in specs:
        for kind in ("rec", "dict", "container"):
            for key in keys:
                compare_pull("grid", spec, kind, key)
                compare_pull("grid", spec, kind, key, None)
                compare_pull("grid", spec, kind, key, [])
                compare_pull("grid", spec, kind, key, m3)
            compare_pull("unhashable key", spec, kind, ["list"])
    # contexts that are not mappings
    for ctx in (None, 5, "text", [("k", 1)], object):
        outs = []
        for func in (orig_pull, live_pull):
            try:
                outs.append(("ok", repr(func(ctx, "k", "dflt"))))
            except BaseException as e:  # noqa: B902
                outs.append(("raise", type(e), str(e)))
        check(outs[0] == outs[1], f"non-mapping {ctx!r}: {outs}")
    # keyword calls / arity
    for call in (lambda f: f(context={"a": 1}, key="a"),
                 lambda f: f({"a": 1}, key="b", default=3),
                 lambda f: f({"a": 1}),
                 lambda f: f({"a": 1}, "a", 1, 2),
                 lambda f: f()):
        outs = []
        for func in (orig_pull, live_pull):
            try:
                outs.append(("ok", repr(call(func))))
            except TypeError as e:
                outs.append(("raise", type(e),
                             str(e).replace("orig_pull", "F")
                                   .replace("_pull_from_context", "F")))
        check(outs[0] == outs[1], f"call shape: {outs}")
    # random nestings
    pool = ["k", "_elem_parent", "_elem_name", "_elem_routines", "x"]
    for _ in range(4000):
        depth = rng.randrange(0, 5)
        spec = []
        for _d in range(depth):
            level = {}
            for name in pool:
                if rng.random() < 0.3:
                    level[name] = rng.choice([None, 0, "", Marker(rng.randrange(9)),
                                              [1], {"k": 1}])
            if rng.random() < 0.08:
                level["_"] = rng.choice([None, 3, [], {"k": "plain"}, {}])
            spec.append(level)
        kind = rng.choice(["rec", "rec", "dict", "container"])
        key = rng.choice(pool + ["_", "nope"])
        if rng.random() < 0.5:
            compare_pull("random", spec, kind, key)
        else:
            compare_pull("random", spec, kind, key, rng.choice([None, [], "d"]))

    # pull_child_info on top of either version
    parents = [PathParent(["A", "B"]), PathParent([]), PathParent(None), None,
               object()]
    for _ in range(1500):
        depth = rng.randrange(1, 4)
        spec = []
        for _d in range(depth):
            level = {}
            if rng.random() < 0.5:
                level["_elem_parent"] = rng.choice(parents)
            if rng.random() < 0.4:
                level["_elem_name"] = rng.choice(["NAME", "", None, 7])
            if rng.random() < 0.5:
                level["_elem_routines"] = rng.choice([{}, {"r": len}, None, []])
            if rng.random() < 0.05:
                level["_"] = None
            spec.append(level)
        kind = rng.choice(["rec", "dict", "container"])
        name = rng.choice([MISSING, None, "GIVEN", ""])
        a = run_child_info(orig_pull, spec, kind, name)
        b = run_child_info(live_pull, spec, kind, name)
        check(a == b, f"child info {spec} {kind} {name!r}: "
                      f"{str(a)[:400]} != {str(b)[:400]}")

    # expected values independent of the copy
    res = run_pull(live_pull, [{"x": 1}, {"k": m1}], "rec", "k")
    check(res[:2] == ("ok", "Marker(1)") and res[3] == [1], f"found one level up: {res}")
    check(res[4] == [("L0", "keys"), ("L0", "keys"), ("L0", "get", "'_'"),
                     ("L1", "keys"), ("L1", "get", "'k'")], f"access order {res[4]}")
    res = run_pull(live_pull, [{}, {}, {"k": m2}], "rec", "k", "dflt")
    check(res[:3] == ("ok", "'dflt'", True), f"third level is out of reach: {res}")
    check(res[4] == [("L0", "keys"), ("L0", "keys"), ("L0", "get", "'_'"),
                     ("L1", "keys"), ("L1", "keys"), ("L1", "get", "'_'")],
          f"access order on a miss {res[4]}")
    res = run_pull(live_pull, [{"k": None}, {"k": m1}], "rec", "k", "dflt")
    check(res[:2] == ("ok", "None") and res[4] == [("L0", "keys"), ("L0", "get", "'k'")],
          f"a stored None wins: {res}")
    res = run_pull(live_pull, [{}, {"_": None}], "rec", "k")
    check(res[:2] == ("ok", "None"), f"None grand-parent is never dereferenced: {res}")
    res = run_pull(live_pull, [{"_": None}], "rec", "k")
    check(res[0] == "raise" and res[1] is AttributeError, f"None parent: {res}")


# ---------------------------------------------------------------- part B
SECT = 0x2000
PREAMBLE_HDR_LEN = 2 + 2 + len(AKAI_PARTITION_MAGIC) + 4


def volume_area_size(this):
    return this.header.total_size \
        - PartitionHeaderConstruct.sizeof() \
        - VolumeEntryConstruct[AKAI_VOLUME_ENTRY_CNT].sizeof() \
        - Int16ul[AKAI_SAT_ENTRY_CNT].sizeof()


PartitionStruct = Struct(
    "header" / PartitionHeaderConstruct,
    "volume_entries" / VolumeEntryConstruct[AKAI_VOLUME_ENTRY_CNT],
    "sat" / SegmentAllocationTableAdapter(
        this.header.partition_stream,
        Int16ul[AKAI_SAT_ENTRY_CNT]  # type: ignore
    ),
    "volumes" / Lazy(vm.VolumesAdapter(
        this.volume_entries,
        this.sat,  # type: ignore
        Lazy(Bytes(volume_area_size)),  # type: ignore
    ))
)


def akai_name(text):
    return bytes(char_ascii_to_akai(text.ljust(12)[:12]))


def make_partition(size, volumes):
    """volumes: list of (name, type, [(fname, ftype, data)])."""
    buf = bytearray(size * SECT)
    hdr = (
        struct.pack("<H", size)
        + b"\x00\x00" + AKAI_PARTITION_MAGIC + b"\x55\xba\x2f\x00"
    )
    buf[:len(hdr)] = hdr
    sat = [0] * AKAI_SAT_ENTRY_CNT
    sat[0] = sat[1] = sat[2] = 0x4000
    next_sector = 3
    vol_entries = b""
    for vname, vtype, files in volumes:
        vsect = next_sector
        next_sector += 1
        sat[vsect] = 0xC000
        vol_entries += akai_name(vname) + struct.pack("<HH", vtype, vsect)
        table = b""
        for fname, ftype, data in files:
            nsect = max(1, -(-len(data) // SECT))
            start = next_sector
            for k in range(nsect):
                sat[start + k] = start + k + 1 if k < nsect - 1 else 0xC000
            next_sector += nsect
            buf[start * SECT:start * SECT + len(data)] = data
            table += (
                akai_name(fname) + b"\x00" * 4 + bytes([ftype])
                + len(data).to_bytes(3, "little")
                + struct.pack("<H", start) + b"\x00\x00"
            )
        table += b"\x00" * 8 + struct.pack("<H", 0xD747) + b"\x00" * 14
        buf[vsect * SECT:vsect * SECT + len(table)] = table
    assert next_sector <= max(size, 3)
    off = len(hdr)
    buf[off:off + len(vol_entries)] = vol_entries
    off = len(hdr) + 16 * AKAI_VOLUME_ENTRY_CNT
    buf[off:off + 2 * AKAI_SAT_ENTRY_CNT] = struct.pack(
        f"<{AKAI_SAT_ENTRY_CNT}H", *sat
    )
    return bytes(buf)


class TracingFile(io.BytesIO):
    """records every access once `tracing` is switched on"""

    def __init__(self, data):
        super().__init__(data)
        self.trace = []
        self.tracing = False

    def tell(self):
        pos = super().tell()
        if self.tracing:
            self.trace.append(("tell", pos))
        return pos

    def seek(self, *args):
        pos = super().seek(*args)
        if self.tracing:
            self.trace.append(("seek", args, pos))
        return pos

    def read(self, *args):
        data = super().read(*args)
        if self.tracing:
            self.trace.append(("read", args, len(data)))
        return data


class ImgParent:
    path = ["IMG", "A:"]


def describe_volumes(vols, parent, routines):
    out = []
    for v in vols:
        files = []
        entry_names = [(fe.name, str(fe.file_type)) for fe in v.file_entries]
        try:
            for f in v.files:
                item = [type(f).__name__, f.name, list(f.path), f.parent is v]
                stream = getattr(f, "_data_stream", None)
                if stream is not None:
                    try:
                        stream.seek(0)
                        item.append(stream.read(4096))
                    except BaseException as e:  # noqa: B902
                        item.append(("data-raise", type(e), str(e)))
                files.append(item)
        except BaseException as e:  # noqa: B902
            files.append(("files-raise", type(e), str(e)))
        out.append((
            type(v).__name__, v.name, str(v.volume_type), list(v.path),
            v.parent is parent, v._routines is routines, entry_names, files,
        ))
    return out


def run_image(func, data, outer_context):
    f = TracingFile(data)
    parent = ImgParent()
    routines = {}
    kw = dict(_elem_parent=parent, _elem_routines=routines)
    if outer_context == "one-up":
        # parent and routines live one context level further out
        kw = dict(_=Container(kw))
    elif outer_context == "name-too":
        kw["_elem_name"] = "IGNORED?"
    with use_pull(func):
        try:
            container = PartitionStruct.parse_stream(f, **kw)
        except BaseException as e:  # noqa: B902
            return ("parse-raise", type(e), str(e))
        f.tracing = True
        try:
            vols = container.volumes()
        except BaseException as e:  # noqa: B902
            return ("volumes-raise", type(e), str(e), list(f.trace))
        desc = describe_volumes(vols, parent, routines)
    return ("ok", type(vols), desc, list(f.trace))


def sample(n, seed):
    rng = random.Random(seed)
    return b"\x03" + b"\x00" * 149 + bytes(rng.getrandbits(8) for _ in range(n))


def part_b():
    rng = random.Random(0xC14)
    s1, s2, s3 = sample(200, 1), sample(9000, 2), sample(64, 3)
    volumes = [
        ("VOL ONE", 1, [("SAMPLE A", 0x73, s1), ("SAMPLE B", 0xF3, s2),
                        ("THIRD", 0x73, s3)]),
        ("DEAD", 0, [("GHOST", 0x73, s3)]),
        ("SECOND", 3, [("X", 0x73, s3)]),
        ("EMPTY", 1, []),
    ]
    good = make_partition(13, volumes)
    images = [("good", good), ("truncated-table", good[:3 * SECT + 30])]
    ft = 3 * SECT
    for value in range(0, 256, 2):
        d = bytearray(good)
        d[ft + 1 * 24 + 16] = value
        images.append((f"file[1].type={value:#x}", bytes(d)))
    for entry in (0, 1, 2, 3):
        for field_off in range(24):
            d = bytearray(good)
            d[ft + entry * 24 + field_off] = rng.choice([0x00, 0x29, 0xFF])
            images.append((f"file[{entry}]+{field_off}", bytes(d)))
    for _ in range(60):
        d = bytearray(good)
        base = ft + rng.randrange(0, 4) * 24
        for _ in range(rng.randrange(2, 8)):
            d[base + rng.randrange(24)] = rng.getrandbits(8)
        images.append(("random-entry-damage", bytes(d)))
    for n, (label, data) in enumerate(images):
        outer = ("flat", "one-up", "name-too")[n % 3] if n else "flat"
        a = run_image(orig_pull, data, outer)
        b = run_image(live_pull, data, outer)
        check(a == b, f"image mismatch {label} {outer}: {str(a)[:500]} != {str(b)[:500]}")
    for outer in ("one-up", "name-too"):
        a = run_image(orig_pull, good, outer)
        b = run_image(live_pull, good, outer)
        check(a == b, f"image mismatch good {outer}")

    # expected values, independent of the inline copy
    res = run_image(live_pull, good, "flat")
    check(res[0] == "ok", f"good image parses: {str(res)[:300]}")
    if res[0] == "ok":
        desc = res[2]
        check([v[1] for v in desc] == ["VOL ONE", "SECOND", "EMPTY"], "volume names")
        check(desc[0][3] == ["IMG", "A:", "VOL ONE"] and desc[0][4],
              "volume path/parent")
        check([f[1:4] for f in desc[0][7]] == [
            ["SAMPLE A", ["IMG", "A:", "VOL ONE", "SAMPLE A"], True],
            ["SAMPLE B", ["IMG", "A:", "VOL ONE", "SAMPLE B"], True],
            ["THIRD", ["IMG", "A:", "VOL ONE", "THIRD"], True]], "files")
    d = bytearray(good)
    d[ft + 24 + 16] = 0x01
    res = run_image(live_pull, bytes(d), "flat")
    check(res[0] == "ok" and [f[1] for f in res[2][0][7]] == ["SAMPLE A", "THIRD"],
          "damaged type byte drops only that entry")


# ---------------------------------------------------------------- part C
def dir_record(name, ftype, fat_entry, nclusters):
    return name.ljust(16, "\0").encode("ascii") + bytes([ftype, 0]) \
        + struct.pack("<HHHIHH", 0, 0, 0, 0, fat_entry, nclusters)


def param_record(name, loop_mode, cluster_top, nclusters, options, key):
    rec = name.ljust(16, "\0").encode("ascii")
    for point in (0x100, 0x2000, 0x30FF, 0x4000, 0x5001):
        rec += struct.pack("<I", point)
    rec += bytes([loop_mode, 1, 2, 3]) + struct.pack("<HH", cluster_top, nclusters)
    rec += bytes([options, key, 0, 0])
    assert len(rec) == SAMPLE_PARAMETER_ENTRY_SIZE, len(rec)
    return rec


NUM = 5
IMAGE_SIZE = SAMPLE_PARAMETER_AREA_OFFSET + SAMPLE_PARAMETER_ENTRY_SIZE * (NUM + 2)


def make_roland_image():
    buf = bytearray(IMAGE_SIZE)
    for i in range(NUM):
        d = dir_record("SAMPLE %d" % i, 0x44, 10 + i, 3)
        off = SAMPLE_DIRECTORY_AREA_OFFSET + i * SAMPLE_DIRECTORY_ENTRY_SIZE
        buf[off:off + len(d)] = d
        p = param_record("PARAM %d" % i, i % 7, i % 3, 3, 0x01 | ((i % 2) << 4), 60 + i)
        off = SAMPLE_PARAMETER_AREA_OFFSET + i * SAMPLE_PARAMETER_ENTRY_SIZE
        buf[off:off + len(p)] = p
    return buf


class FakeFat:
    def get_file(self, *args, **kwargs):
        return ("file", args, tuple(sorted(kwargs.items())))


class RolandParent:
    path = ["IMG", "PERF", "PATCH", "PARTIAL"]


SampleList = Struct(
    "samples" / SafeListConstruct(
        NUM + 1,
        SampleEntryAdapter(SampleEntryConstruct(lambda this: this._index))
    )
)


def run_roland(func, data, where):
    stream = TracingFile(bytes(data))
    stream.tracing = True
    parent = RolandParent()
    kw = dict(fat=FakeFat())
    elem = dict(_elem_parent=parent, _elem_routines={})
    if where == "flat":
        kw.update(elem)
    elif where == "one-up":
        kw["_"] = Container(elem)
    elif where == "two-up":
        kw["_"] = Container(_=Container(elem))
    with use_pull(func):
        try:
            c = SampleList.parse_stream(stream, **kw)
        except BaseException as e:  # noqa: B902
            return ("raise", type(e), str(e), list(stream.trace))
    desc = [
        (s.index, s.directory_name, s.parameter_name, list(s.path),
         s._parent is parent, s._data_stream)
        for s in c.samples
    ]
    return ("ok", desc, list(stream.trace))


def part_c():
    rng = random.Random(0x7C14)
    good = make_roland_image()
    for where in ("flat", "one-up", "two-up", "nowhere"):
        a = run_roland(orig_pull, good, where)
        b = run_roland(live_pull, good, where)
        check(a == b, f"roland good {where}: {str(a)[:400]} != {str(b)[:400]}")
    target = 2
    doff = SAMPLE_DIRECTORY_AREA_OFFSET + target * SAMPLE_DIRECTORY_ENTRY_SIZE
    poff = SAMPLE_PARAMETER_AREA_OFFSET + target * SAMPLE_PARAMETER_ENTRY_SIZE
    cases = []
    for off in range(SAMPLE_DIRECTORY_ENTRY_SIZE):
        for value in (0x00, 0x44, 0x80, 0xFF):
            cases.append((doff + off, value))
    for off in range(SAMPLE_PARAMETER_ENTRY_SIZE):
        for value in (0x00, 0x7F, 0xFF):
            cases.append((poff + off, value))
    for n, (pos, value) in enumerate(cases):
        d = bytearray(good)
        d[pos] = value
        where = ("flat", "one-up")[n % 2]
        a = run_roland(orig_pull, d, where)
        b = run_roland(live_pull, d, where)
        check(a == b, f"roland [{pos}]={value:#x} {where}: "
                      f"{str(a)[:400]} != {str(b)[:400]}")
    for _ in range(150):
        d = bytearray(good)
        base, width = rng.choice([(doff, SAMPLE_DIRECTORY_ENTRY_SIZE),
                                  (poff, SAMPLE_PARAMETER_ENTRY_SIZE)])
        for _ in range(rng.randrange(2, 10)):
            d[base + rng.randrange(width)] = rng.getrandbits(8)
        where = rng.choice(["flat", "one-up"])
        a = run_roland(orig_pull, d, where)
        b = run_roland(live_pull, d, where)
        check(a == b, f"roland random {where}: {str(a)[:400]} != {str(b)[:400]}")

    # expected values, independent of the inline copy
    res = run_roland(live_pull, good, "flat")
    check(res[0] == "ok" and [x[1] for x in res[1]][:NUM]
          == ["SAMPLE %d" % i for i in range(NUM)], f"roland names {str(res)[:300]}")
    check(res[0] == "ok" and res[1][1][3] == RolandParent.path + ["SAMPLE 1"]
          and res[1][1][4], "roland path/parent")
    res = run_roland(live_pull, good, "two-up")
    check(res[0] == "ok" and res[1][1][3] == ["SAMPLE 1"] and not res[1][1][4],
          "a parent two levels up is out of reach")
    d = bytearray(good)
    d[doff] = 0xFF
    res = run_roland(live_pull, d, "flat")
    check(res[0] == "ok" and [x[1] for x in res[1]][:NUM - 1]
          == ["SAMPLE 0", "SAMPLE 1", "SAMPLE 3", "SAMPLE 4"],
          "a damaged record drops only that sample")


def main():
    part_a()
    part_b()
    part_c()
    print(f"{checked} checks, {len(failures)} failures")
    for msg in failures[:15]:
        print("FAIL:", msg[:1500])
    return 1 if failures else 0


if __name__ == "__main__":
    sys.exit(main())
