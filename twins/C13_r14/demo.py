"""Equivalence demo for PartitionAdapter._parse (smpl_extract/akai/partition.py),
the parser that AkaiImageParser._load_partitions calls once per turn of the
partition scan loop.

An inline copy of the ORIGINAL _parse lives in OriginalPartitionAdapter, which
shares the inner Struct with the PartitionParser of the tree.  Both are run on
  * scripted sub-constructs (raise InvalidCharacter / ConstructError / other
    exceptions, or return containers with header sizes -3 .. 5, bools, floats),
  * hand built partition images (valid, zero size, bad magic, bad checksum
    bytes, bad volume names, truncated, random SAT words) and random bytes,
  * whole images of several partitions through AkaiImageParser (the scan loop),
and results, exceptions (type, args, cause and context types) and the stream
position afterwards are compared.  Exit 0 when everything agrees, 1 otherwise.
"""
import io
import random
import struct
import sys

from construct.core import Construct
from construct.core import ConstructError
from construct.core import StreamError
from construct.lib.containers import Container

import smpl_extract.akai.image as image_module
from smpl_extract.akai.akai_string import char_ascii_to_akai
from smpl_extract.akai.data_types import AKAI_PARTITION_MAGIC
from smpl_extract.akai.data_types import AKAI_SAT_ENTRY_CNT
from smpl_extract.akai.data_types import AKAI_SECTOR_SIZE
from smpl_extract.akai.data_types import AKAI_VOLUME_ENTRY_CNT
from smpl_extract.akai.data_types import InvalidCharacter
from smpl_extract.akai.image import AkaiImageParser
from smpl_extract.akai.partition import PartitionAdapter
from smpl_extract.akai.partition import PartitionParser


class OriginalPartitionAdapter(PartitionAdapter):
    # verbatim copy of the original method
    def _parse(self, stream, context, path):

        try:
            partition_container = self.subcon._parse(  # type: ignore
                stream,  
                context, 
                path
            )
        except InvalidCharacter:
            raise ConstructError

        if partition_container.header.size <= 0:
            raise ConstructError

        result = self._decode(partition_container, context, path)
        return result


INNER_STRUCT = PartitionParser.defersubcon.subcon
# compiled exactly like the PartitionParser of the tree
ORIGINAL_PARSER = OriginalPartitionAdapter(INNER_STRUCT).compile()

failures = 0
checked = 0


def report(label, new, old):
    global failures, checked
    checked += 1
    if new != old:
        failures += 1
        if failures < 10:
            print("MISMATCH", label)
            print("   new", str(new)[:400])
            print("   old", str(old)[:400])


def describe_exception(e):
    return ("raise", type(e), e.args, type(e.__cause__), type(e.__context__))


# ---------------------------------------------------------------- scripted
class Scripted(Construct):
    """sub-construct that does what the script says and logs its calls"""

    def __init__(self, action):
        super().__init__()
        self.action = action
        self.calls = []

    def _parse(self, stream, context, path):
        self.calls.append((stream, context, path))
        stream.read(3)
        return self.action()


class Parent:
    path = ["img"]


def scripted_outcome(adapter_class, action):
    subcon = Scripted(action)
    adapter = adapter_class(subcon)
    stream = io.BytesIO(b"0123456789")
    parent = Parent()
    try:
        part = adapter.parse_stream(
            stream, _elem_name="B", _elem_parent=parent, _elem_routines={}
        )
    except BaseException as e:  # noqa
        return describe_exception(e) + (stream.tell(), len(subcon.calls))
    return ("ok", type(part), part.name, part.path, part.parent is parent,
            part._f_sat, stream.tell(), len(subcon.calls),
            subcon.calls[0][0] is stream, subcon.calls[0][2])


def raiser(exc):
    def action():
        raise exc
    return action


def scripted_cases():
    sat = object()
    volumes = object()
    sizes = [-3, -1, 0, 1, 2, 5, True, False, 0.0, 0.5, -0.5, 2 ** 40]
    for size in sizes:
        container = Container(
            header=Container(size=size), sat=sat, volumes=volumes
        )
        yield "size %r" % (size,), (lambda c=container: c)
    for exc in (InvalidCharacter(), InvalidCharacter("x"), ConstructError("c"),
                StreamError("s"), KeyError("k"), ValueError("v"),
                AttributeError("a"), KeyboardInterrupt()):
        yield "raise %r" % (exc,), raiser(exc)
    # containers that break the size guard itself
    yield "no header", (lambda: Container(sat=sat, volumes=volumes))
    yield "no size", (lambda: Container(header=Container(), sat=sat, volumes=volumes))
    yield "none size", (lambda: Container(header=Container(size=None), sat=sat, volumes=volumes))
    yield "no sat", (lambda: Container(header=Container(size=1)))


# ------------------------------------------------------------ real images
HEADER_SIZE = 202
MIN_BODY = HEADER_SIZE + 16 * AKAI_VOLUME_ENTRY_CNT + 2 * AKAI_SAT_ENTRY_CNT


def make_partition(rng, n_sectors, *, magic=None, check=None, tail=b"\x2F\x00",
                   zeros=b"\x00\x00", volume_names=(), bad_name_byte=None,
                   sat_words=None, fill=True):
    magic = AKAI_PARTITION_MAGIC if magic is None else magic
    check_sum_x = n_sectors // 128 - 1
    if check is None:
        check = bytes((0x55 if check_sum_x % 2 == 0 else 0xD5,
                       (check_sum_x // 2 + 0xBA) & 0xFF))
    header = struct.pack("<H", n_sectors & 0xFFFF) + zeros + magic + check + tail
    entries = b""
    for k in range(AKAI_VOLUME_ENTRY_CNT):
        if k < len(volume_names):
            name = char_ascii_to_akai(volume_names[k].ljust(12))
            if bad_name_byte is not None and k == 0:
                name = bytes([bad_name_byte]) + name[1:]
            entries += name + struct.pack("<HH", 1, 3 + k)
        else:
            entries += char_ascii_to_akai(" " * 12) + struct.pack("<HH", 0, 0)
    if sat_words is None:
        sat_words = [0x4000, 0x4000, 0x4000] + [0xC000] * 8
    sat_words = list(sat_words)[:AKAI_SAT_ENTRY_CNT]
    sat_words += [0] * (AKAI_SAT_ENTRY_CNT - len(sat_words))
    sat = struct.pack("<%dH" % AKAI_SAT_ENTRY_CNT, *sat_words)
    body = header + entries + sat
    if fill:
        total = n_sectors * AKAI_SECTOR_SIZE
        if total > len(body):
            body += bytes(rng.getrandbits(8) for _ in range(min(64, total - len(body))))
            body += b"\x00" * (total - len(body))
    return body


def touch(partition):
    """what `ls` would look at"""
    try:
        links = [(l.next, l.end) for l in partition.sat.sector_links[:64]]
    except BaseException as e:  # noqa
        links = describe_exception(e)
    try:
        children = [(type(c), c.name) for c in partition.children]
    except BaseException as e:  # noqa
        children = describe_exception(e)
    return links, children


def image_outcome(parser, data):
    stream = io.BytesIO(data)
    parent = Parent()
    try:
        part = parser.parse_stream(
            stream, _elem_name="A", _elem_parent=parent, _elem_routines={}
        )
    except BaseException as e:  # noqa
        return describe_exception(e) + (stream.tell(),)
    return ("ok", type(part), part.name, part.path, part.parent is parent,
            stream.tell()) + touch(part)


def image_cases(rng):
    yield "empty", b""
    yield "valid 4", make_partition(rng, 4, volume_names=["VOL1", "VOL2"])
    yield "valid 3", make_partition(rng, 3)
    yield "valid 130", make_partition(rng, 130, volume_names=["A"])
    yield "zero size", make_partition(rng, 0)
    yield "one sector", make_partition(rng, 1)
    yield "two sectors", make_partition(rng, 2)
    yield "huge size", make_partition(rng, 0xFFFF, fill=False)
    yield "bad magic", make_partition(rng, 4, magic=bytes(len(AKAI_PARTITION_MAGIC)))
    yield "bad zeros", make_partition(rng, 4, zeros=b"\x01\x00")
    yield "bad tail", make_partition(rng, 4, tail=b"\x00\x00")
    yield "other check", make_partition(rng, 4, check=b"\x00\x00")
    for byte in (0x29, 0x40, 0x80, 0xFF):
        yield "bad name %x" % byte, make_partition(
            rng, 4, volume_names=["VOL1"], bad_name_byte=byte)
    good = make_partition(rng, 4, volume_names=["VOL1", "VOL2", "VOL3"])
    for cut in (1, 2, 3, 4, 100, 201, 202, 203, 218, 1801, 1802, 1803,
                10000, MIN_BODY - 1, MIN_BODY, MIN_BODY + 1, len(good) - 1):
        yield "cut %d" % cut, good[:cut]
    for n in range(40):
        words = [rng.choice((0, 0x4000, 0x8000, 0xC000, 0xFFFF,
                             rng.randrange(200))) for _ in range(300)]
        yield "random sat %d" % n, make_partition(
            rng, rng.choice((3, 4, 5, 8)), volume_names=["V%d" % n],
            sat_words=words)
    for n in range(40):
        data = bytearray(good[:MIN_BODY + 200])
        for _ in range(rng.randint(1, 4)):
            data[rng.randrange(0, 1900)] = rng.getrandbits(8)
        yield "corrupt %d" % n, bytes(data)
    for n in range(40):
        yield "noise %d" % n, bytes(
            rng.getrandbits(8) for _ in range(rng.choice((0, 1, 5, 300, 30000))))


# ------------------------------------------------------ whole image scans
def scan_outcome(parser, data):
    saved = image_module.PartitionParser
    image_module.PartitionParser = parser
    try:
        stream = io.BytesIO(data)
        image = AkaiImageParser(stream)
        image._routines = {}
        try:
            partitions = image.partitions
        except BaseException as e:  # noqa
            return describe_exception(e) + (stream.tell(),)
        return ([(p.name, p.path) + touch(p) for p in partitions], stream.tell())
    finally:
        image_module.PartitionParser = saved


def scan_cases(rng):
    a = make_partition(rng, 4, volume_names=["VOL1"])
    b = make_partition(rng, 3, volume_names=["X", "Y"])
    zero = make_partition(rng, 0)
    bad = make_partition(rng, 4, volume_names=["Q"], bad_name_byte=0xFF)
    yield "a", a
    yield "a b", a + b
    yield "a b a", a + b + a
    yield "a zero b", a + zero + b
    yield "zero", zero
    yield "a bad b", a + bad + b
    yield "a junk", a + b"junk" * 100
    yield "a cut b", a + b[:3000]
    yield "a a a a", a * 4
    for n in range(10):
        data = bytearray(a + b + a)
        for _ in range(3):
            data[rng.randrange(len(data))] = rng.getrandbits(8)
        data[rng.choice((0, 1, len(a), len(a) + 1))] = rng.choice((0, 1, 3, 255))
        yield "scan corrupt %d" % n, bytes(data)


def main():
    rng = random.Random(14)
    for label, action in scripted_cases():
        report(label,
               scripted_outcome(PartitionAdapter, action),
               scripted_outcome(OriginalPartitionAdapter, action))
    for label, data in image_cases(rng):
        report(label,
               image_outcome(PartitionParser, data),
               image_outcome(ORIGINAL_PARSER, data))
    for label, data in scan_cases(rng):
        report(label,
               scan_outcome(PartitionParser, data),
               scan_outcome(ORIGINAL_PARSER, data))
    print("checked", checked, "failures", failures)
    return 1 if failures else 0


if __name__ == "__main__":
    sys.exit(main())
