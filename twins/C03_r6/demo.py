"""Equivalence demo for r6: CueSheetTrackAdapter.parse.

Runs the live CueSheetTrackAdapter.parse and an inline copy of the ORIGINAL
implementation on many generated line lists and compares: the returned track,
the returned remaining lines, the final state of the caller's list (it is
mutated in place by the parser), whether the returned list is the caller's
list object, and the exception type/message when one is raised.
Exit 0 on full agreement, 1 otherwise.
"""
import random
import re
import sys

from smpl_extract import cuesheet as live
from smpl_extract.cuesheet import BadCueSheet
from smpl_extract.cuesheet import CueSheetIndex
from smpl_extract.cuesheet import CueSheetTrack


# ---------------------------------------------------------------- original
def o_get_nonempty_entry(lines):
    text = ""
    while len(lines):
        text = lines.pop(0).strip()
        if len(text):
            break
    return text, lines


O_TRACK_LINE_REGEX = re.compile(r"\s*TRACK\s+(\d+)\s+([A-z\d\/]+)", flags=re.I)
O_TITLE_LINE_REGEX = re.compile(r"\s*TITLE\s+\"(.*?)\"", flags=re.I)
O_INDEX_LINE_REGEX = re.compile(
    r"\s*INDEX\s+(\d+)\s+(\d+):(\d+):(\d+)", flags=re.I
)


def original_track_parse(lines):
    text, lines = o_get_nonempty_entry(lines)
    if len(text) <= 0:
        raise BadCueSheet
    result = O_TRACK_LINE_REGEX.match(text)
    if not result:
        raise BadCueSheet
    track_number = int(result.groups()[0])
    track_mode = result.groups()[1]
    track = CueSheetTrack(
        track_number,
        track_mode
    )

    while len(lines):
        text, lines = o_get_nonempty_entry(lines)
        if len(text) <= 0:
            break

        # Check if next track began
        result = O_TRACK_LINE_REGEX.match(text)
        if result:
            lines = [text] + lines
            break

        # check known properties
        result = O_INDEX_LINE_REGEX.match(text)
        if result:
            index_number = int(result.groups()[0])
            n_minutes = int(result.groups()[1])
            n_seconds = int(result.groups()[2])
            n_frames = int(result.groups()[3])
            index = CueSheetIndex(
                index_number,
                n_minutes,
                n_seconds,
                n_frames
            )
            track.indices.append(index)
            continue

        result = O_TITLE_LINE_REGEX.match(text)
        if result:
            title = result.groups()[0]
            track.title = title
            continue

        track.unparsed.append(text)

    return track, lines


# ------------------------------------------------------------------ harness
def run(func, lines):
    work = list(lines)
    try:
        track, rest = func(work)
    except Exception as e:
        return ("EXC", type(e).__name__, str(e), work)
    return (
        "OK",
        type(track).__name__,
        track.number, track.mode, track.title,
        [(i.number, i.n_minutes, i.n_seconds, i.n_frames)
         for i in track.indices],
        list(track.unparsed),
        repr(track),
        list(rest),
        rest is work,
        work,
    )


def ws(rng):
    return rng.choice([" ", "  ", "\t", " \t "])


def lead(rng):
    return rng.choice(["", "", "  ", "    ", "\t"])


def cased(rng, word):
    return rng.choice([word, word.lower(), word.capitalize(), word.upper()])


def random_line(rng):
    kind = rng.randrange(16)
    end = rng.choice(["\n", "\r\n", "", "  \n"])
    if kind == 0:
        return rng.choice(["", "\n", "   \n", "\t\r\n"])
    if kind in (1, 2):
        mode = rng.choice(
            ["AUDIO", "audio", "MODE1/2352", "MODE2/2336", "CDG", "A_b^c",
             "", "[x]"]
        )
        return "%s%s%s%02d%s%s%s" % (
            lead(rng), cased(rng, "TRACK"), ws(rng), rng.randint(0, 99),
            ws(rng), mode, end
        )
    if kind in (3, 4, 5, 6):
        sep = rng.choice([":", ":", ":", ";", " : "])
        return "%s%s%s%02d%s%02d%s%02d%s%02d%s" % (
            lead(rng), cased(rng, "INDEX"), ws(rng), rng.randint(0, 3),
            ws(rng), rng.randint(0, 99), sep, rng.randint(0, 99), sep,
            rng.randint(0, 99), end
        )
    if kind in (7, 8):
        title = rng.choice(
            ["Song", "", "a \"quoted\" b", "INDEX 01 00:00:00", "x" * 40,
             "TRACK 01 AUDIO"]
        )
        quote = rng.choice(['"', '"', '"', "'", ""])
        return "%s%s%s%s%s%s%s" % (
            lead(rng), cased(rng, "TITLE"), ws(rng), quote, title, quote, end
        )
    if kind == 9:
        return "%sPERFORMER \"Someone\"%s" % (lead(rng), end)
    if kind == 10:
        return "%sREM INDEX 01 00:00:00%s" % (lead(rng), end)
    if kind == 11:
        return "%sFILE \"other.bin\" BINARY%s" % (lead(rng), end)
    if kind == 12:
        return "%sFLAGS DCP%s" % (lead(rng), end)
    if kind == 13:
        # INDEX and TITLE on the same line / trailing garbage
        return rng.choice([
            "INDEX 01 00:02:00 TITLE \"x\"" + end,
            "TITLE \"x\" INDEX 01 00:02:00" + end,
            "INDEX 1 2:3:4garbage" + end,
            "INDEX 01 00:02" + end,
            "INDEX01 00:02:00" + end,
            "xINDEX 01 00:02:00" + end,
            "TITLE \"unterminated" + end,
            "INDEX 01 ٣:٤:٥" + end,   # unicode digits
            "TRACK ١٢ AUDIO" + end,
            "INDEX 01 00:00:" + "9" * 5000 + end,    # int() digit limit
            "INDEX 01 " + "9" * 5000 + ":00:00" + end,
            "TRACK " + "1" * 5000 + " AUDIO" + end,
        ])
    if kind == 14:
        return "%sISRC ABCDE1234567%s" % (lead(rng), end)
    return rng.choice(["garbage", "TRACKS", "TRACK", "INDEX", "TITLE"]) + end


def make_cases():
    rng = random.Random(0xC0306)
    cases = [
        [],
        [""],
        ["\n", "  \n"],
        ["TRACK 01 AUDIO"],
        ["TRACK 01 AUDIO\n", "\n", "\n"],
        ["  TRACK 01 AUDIO\n", "    INDEX 01 00:00:00\n"],
        ["TRACK 01 AUDIO\n", "TITLE \"a\"\n", "TITLE \"b\"\n",
         "INDEX 00 00:00:00\n", "INDEX 01 00:02:00\n",
         "TRACK 02 AUDIO\n", "INDEX 01 03:00:00\n"],
        ["INDEX 01 00:00:00\n", "TRACK 01 AUDIO\n"],
        ["TRACK 01 AUDIO\n", "\n", "TRACK 02 AUDIO\n", "\n"],
        ["track 1 mode1/2352\n", "index 1 0:0:0\n", "title \"t\"\n", "rem\n"],
    ]
    for _ in range(3000):
        n = rng.randint(0, 12)
        lines = [random_line(rng) for _ in range(n)]
        if rng.random() < 0.7:
            lines.insert(0, "%sTRACK %02d %s\n" % (
                lead(rng), rng.randint(1, 99),
                rng.choice(["AUDIO", "MODE1/2352"])
            ))
        cases.append(lines)
    return cases


def main():
    failures = 0
    cases = make_cases()
    outcomes = {}
    for number, lines in enumerate(cases):
        expected = run(original_track_parse, lines)
        actual = run(live.CueSheetTrackAdapter.parse, lines)
        key = expected[0] if expected[0] == "OK" else expected[1]
        outcomes[key] = outcomes.get(key, 0) + 1
        if expected != actual:
            failures += 1
            print("MISMATCH in case", number, [l[:60] for l in lines])
    print("cases:", len(cases), "outcomes:", outcomes, "failures:", failures)
    return 1 if failures else 0


if __name__ == "__main__":
    sys.exit(main())
