"""Equivalence demo for r3: decode_frame / encode_frame (smpl_extract/transcoder.py).

Compares the live functions against inline copies of the ORIGINAL
implementations, on single calls and through whole make_transcoder runs.
Exit 0 when everything agrees, 1 otherwise.
"""
import io
import random
import sys
from typing import List

import numpy as np

from smpl_extract import transcoder
from smpl_extract.data_streams import DataStream
from smpl_extract.data_streams import Endianess
from smpl_extract.data_streams import StreamEncoding
from smpl_extract.transcoder import pad_channels
from smpl_extract.transcoder import resize_buffer


# --- inline copies of the ORIGINAL implementations -----------------------
def orig_decode_frame(
        streams: List[DataStream],
        buffer_sizes: List[int]
) -> List[np.ndarray]:

    channels: List[np.ndarray] = []

    for stream, size in zip(streams, buffer_sizes):
        dtype = stream.encoding.dtype
        num_channels = max(1, stream.encoding.num_interleaved_channels)
        buffer = stream.stream.read(size)
        buffer = resize_buffer(buffer, stream.frame_size)

        if buffer is None or len(buffer) <= 0:
            for i in range(num_channels):
                channels.append(np.zeros(0, dtype=dtype))
            continue

        samples_interleaved: np.ndarray = np.frombuffer(buffer, dtype=dtype)
        samples = [samples_interleaved]
        if num_channels > 1:
            samples_arr = samples_interleaved.reshape((-1, num_channels)).T
            samples = list(samples_arr)

        channels += samples

    return channels


def orig_encode_frame(channels: List[np.ndarray], dest_dtype: np.dtype) -> bytes:
    channels = pad_channels(channels)
    channels = list(x.astype(dest_dtype) for x in channels)
    result = np.vstack(channels).reshape((-1,), order='F').tobytes()
    return result
# -------------------------------------------------------------------------


class LoggedStream(io.BytesIO):
    """BytesIO that records every read/seek into a shared log."""

    def __init__(self, data, log, tag, none_after=None):
        super().__init__(data)
        self._log = log
        self._tag = tag
        self._none_after = none_after
        self._reads = 0

    def read(self, size=-1):
        self._reads += 1
        if self._none_after is not None and self._reads > self._none_after:
            self._log.append((self._tag, "read", size, None))
            return None
        data = super().read(size)
        self._log.append((self._tag, "read", size, len(data)))
        return data

    def seek(self, pos, whence=0):
        self._log.append((self._tag, "seek", pos, whence))
        return super().seek(pos, whence)


def describe_arrays(arrays):
    out = []
    for a in arrays:
        out.append((
            type(a).__name__, str(a.dtype), a.shape, a.strides,
            bool(a.flags.writeable), bool(a.flags.c_contiguous),
            a.tobytes(),
        ))
    return out


def make_streams(rng, log, allow_weird):
    n = rng.choice([0, 1, 1, 2, 2, 2, 3])
    streams = []
    for k in range(n):
        width = rng.choice([1, 2, 2, 2, 4, 8] + ([3] if allow_weird else []))
        inter = rng.choice([1, 1, 1, 2, 3] + ([0] if allow_weird else []))
        enc = StreamEncoding(
            rng.choice(list(Endianess)), width, inter, rng.choice([True, False]))
        length = rng.choice([0, 1, 2, 3, 5, 8, 16, 31, 64, 100, 257])
        data = bytes(rng.randrange(256) for _ in range(length))
        none_after = rng.choice([None] * 8 + [0, 1]) if allow_weird else None
        streams.append(DataStream(LoggedStream(data, log, k, none_after), enc))
    return streams


def run_decode(func, seed):
    rng = random.Random(seed)
    log = []
    streams = make_streams(rng, log, allow_weird=(seed % 3 == 0))
    sizes = [rng.choice([0, 1, 2, 3, 4, 6, 8, 12, 16, 48, 4096]) for _ in streams]
    if streams and rng.random() < 0.15:
        sizes = sizes[:-1]            # zip() truncation
    if rng.random() < 0.1:
        sizes = sizes + [8]
    outcomes = []
    for _ in range(rng.randint(1, 4)):     # successive frames
        try:
            res = func(streams, sizes)
            distinct = len({id(a) for a in res}) == len(res)
            outcomes.append(("ok", describe_arrays(res), distinct))
        except Exception as e:  # noqa: BLE001
            outcomes.append(("exc", type(e).__name__, str(e)))
    positions = [s.stream.tell() for s in streams]
    return outcomes, log, positions


def run_encode(func, seed):
    rng = random.Random(seed)
    n = rng.choice([0, 1, 1, 2, 2, 2, 3, 4])
    src = rng.choice(["int8", "uint8", "int16", "uint16", "int32", ">i2", "float32"])
    dst = np.dtype(rng.choice(["int8", "uint8", "int16", "uint16", "int32", "int64", "<i2", ">i2"]))
    channels = []
    for _ in range(n):
        ln = rng.choice([0, 1, 2, 3, 7, 16, 33])
        if rng.random() < 0.5 and channels:
            ln = len(channels[0])          # equal-length pair
        arr = np.array([rng.randint(-40000, 40000) for _ in range(ln)]).astype(src)
        if rng.random() < 0.3 and ln:
            arr = np.stack([arr, arr]).T[:, 0]      # non-contiguous view
        channels.append(arr)
    before = describe_arrays(channels)
    given = list(channels)
    try:
        res = func(given, dst)
        outcome = ("ok", type(res).__name__, res)
    except Exception as e:  # noqa: BLE001
        outcome = ("exc", type(e).__name__, str(e))
    untouched = before == describe_arrays(channels) and all(
        a is b for a, b in zip(given, channels)) and len(given) == len(channels)
    return outcome, untouched


def run_pipeline(use_orig, seed):
    """Whole make_transcoder run over split L/R streams."""
    rng = random.Random(seed)
    log = []
    width = rng.choice([1, 2, 2, 4])
    signed = rng.choice([True, False])
    n_streams = rng.choice([1, 2, 2, 2, 3])
    inter = rng.choice([1, 1, 2]) if n_streams == 1 else 1
    base_frames = rng.choice([0, 1, 5, 100, 2048, 2049, 5000])
    streams = []
    for k in range(n_streams):
        frames = base_frames if rng.random() < 0.6 else rng.choice([0, 3, 77, 4100])
        extra = rng.choice([0, 0, 1])   # trailing partial frame
        data = bytes(rng.randrange(256) for _ in range(frames * width * inter + extra))
        enc = StreamEncoding(rng.choice(list(Endianess)), width, inter, signed)
        streams.append(DataStream(LoggedStream(data, log, k), enc))
    dest = StreamEncoding(
        rng.choice(list(Endianess)), rng.choice([1, 2, 2, 4]),
        n_streams * inter, rng.choice([True, False]))

    saved = transcoder.decode_frame, transcoder.encode_frame
    if use_orig:
        transcoder.decode_frame = orig_decode_frame
        transcoder.encode_frame = orig_encode_frame
    try:
        try:
            t = transcoder.make_transcoder(streams, dest)
            chunks = list(t)
            outcome = ("ok", type(t).__name__, chunks)
        except Exception as e:  # noqa: BLE001
            outcome = ("exc", type(e).__name__, str(e))
    finally:
        transcoder.decode_frame, transcoder.encode_frame = saved
    return outcome, log


def main():
    bad = 0
    counts = {"decode": 0, "encode": 0, "pipeline": 0}

    for seed in range(5000):
        got = run_decode(transcoder.decode_frame, seed)
        want = run_decode(orig_decode_frame, seed)
        counts["decode"] += 1
        if got != want:
            bad += 1
            if bad <= 5:
                print("decode MISMATCH seed", seed, "\n  live:", got, "\n  orig:", want)

    for seed in range(5000):
        got = run_encode(transcoder.encode_frame, seed)
        want = run_encode(orig_encode_frame, seed)
        counts["encode"] += 1
        if got != want:
            bad += 1
            if bad <= 5:
                print("encode MISMATCH seed", seed, "\n  live:", got, "\n  orig:", want)

    for seed in range(400):
        got = run_pipeline(False, seed)
        want = run_pipeline(True, seed)
        counts["pipeline"] += 1
        if got != want:
            bad += 1
            if bad <= 5:
                print("pipeline MISMATCH seed", seed)

    # explicit: equal-length L/R pair keeps every frame, L in channel 0
    left = bytes(range(0, 20))
    right = bytes(range(100, 120))
    enc = StreamEncoding(Endianess.LITTLE, 2, 1, True)
    ds = [DataStream(io.BytesIO(left), enc), DataStream(io.BytesIO(right), enc)]
    t = transcoder.make_transcoder(ds, StreamEncoding(Endianess.LITTLE, 2, 2, True))
    out = np.frombuffer(b"".join(t), dtype="<i2").reshape((-1, 2))
    if not (out[:, 0].tobytes() == left and out[:, 1].tobytes() == right):
        bad += 1
        print("explicit L/R interleave check failed")

    print(counts, bad, "mismatches")
    return 1 if bad else 0


if __name__ == "__main__":
    sys.exit(main())
