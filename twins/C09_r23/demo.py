"""Equivalence demo for r23: smpl_extract/util/stream.py class StreamOffset - the
window MdxStream returns (determine_image_type wraps an Alcohol MDX file in it
after is_mdx_image), i.e. the "MDX header window" of property C09.

The refactoring splits the class into a private base `_ShiftedAddressing`
(StreamWrapper subclass that only carries `_translate_addr`, now
`return self.offset + address` without the `true_address` temporary) and the
public `StreamOffset(_ShiftedAddressing)` that keeps the constructor, whose
super().__init__ call passes `size=size` by keyword.

The ORIGINAL class is pasted below (same name and qualname, so that error
messages can be compared).  Checks:
  * construction with positional / keyword / default / missing / surplus
    arguments: same instance attributes (vars), or the same TypeError text;
  * class facts other code can rely on: name, qualname, module, StreamWrapper /
    IOBase ancestry, which class provides each public method, constructor
    signature;
  * _translate_addr on many addresses and offsets (ints, negative, huge, floats,
    nan, wrong types, missing `offset` attribute): same value or same error;
  * random scripts of seek / read / tell / readall on windows over a logging
    parent (windows inside, at the end of, and beyond the parent; parents that
    fail at the k-th call): same results, same positions and the same sequence
    of calls on the parent;
  * MdxStream built with the live class and with the original patched into
    smpl_extract.alcohol.mdx: same bytes, same parent call log;
  * end to end: Roland images delivered raw, as 2352-byte sectors, MDX-wrapped
    and through cue sheets in a fresh temp directory list the same, also with
    the original class patched in for the MDX variant.
"""
import contextlib
import inspect
import io
import os
import random
import shutil
import struct
import sys
import tempfile
from io import IOBase

from smpl_extract import actions
from smpl_extract.alcohol import mdx as mdx_module
from smpl_extract.alcohol.mdx import MdxHeaderConstruct
from smpl_extract.alcohol.mdx import MdxStream
from smpl_extract.roland.s7xx.data_types import FAT_AREA_ID
from smpl_extract.roland.s7xx.data_types import FAT_AREA_OFFSET
from smpl_extract.roland.s7xx.data_types import FAT_AREA_SIZE
from smpl_extract.roland.s7xx.image import IdAreaStruct
from smpl_extract.util import stream as stream_module
from smpl_extract.util.stream import StreamOffset
from smpl_extract.util.stream import StreamWrapper


def _original():
    # ---- the ORIGINAL class, verbatim (plus the two name attributes) -------------
    class StreamOffset(StreamWrapper):
        __qualname__ = "StreamOffset"
        __module__ = stream_module.__name__

        def __init__(
                self,
                substream:      IOBase,
                size:           int,
                offset:         int,
                position:       int = 0,
                buffer_length:  int = 0x1000
        ) -> None:
            super().__init__(
                substream,
                size,
                position=position,
                buffer_length=buffer_length
            )
            self.offset = offset


        def _translate_addr(self, address: int)->int:
            true_address = self.offset + address
            return true_address
    # ------------------------------------------------------------------------------
    # defined inside a function only to reuse the name: give the methods the
    # qualnames they have at module level (they appear in TypeError messages)
    StreamOffset.__init__.__qualname__ = "StreamOffset.__init__"
    StreamOffset._translate_addr.__qualname__ = "StreamOffset._translate_addr"
    return StreamOffset


OriginalStreamOffset = _original()
VARIANTS = (StreamOffset, OriginalStreamOffset)


failures = []
checks = 0


def check(label, a, b):
    global checks
    checks += 1
    if a != b and repr(a) != repr(b):      # repr: nan values echoed back
        failures.append((label, a, b))


class Boom(Exception):
    pass


def outcome(fn):
    try:
        return ("ok", fn())
    except Exception as e:  # noqa: BLE001 - compared, not hidden
        return ("exc", type(e).__name__, str(e))


class Parent(io.BytesIO):
    """Parent stream that logs every call and can fail at the k-th one."""

    def __init__(self, data, fail_at=None):
        super().__init__(data)
        self.log = []
        self.fail_at = fail_at

    def _note(self, entry):
        self.log.append(entry)
        if self.fail_at is not None and len(self.log) == self.fail_at:
            raise Boom(f"call {self.fail_at}")

    def tell(self):
        self._note(("tell",))
        return super().tell()

    def seek(self, *a):
        self._note(("seek",) + a)
        return super().seek(*a)

    def read(self, *a):
        self._note(("read",) + a)
        return super().read(*a)


def public_vars(stream):
    return sorted((k, v if not isinstance(v, IOBase) else "<stream>") for k, v in vars(stream).items())


def construction(rng):
    data = bytes(range(256)) * 8
    argument_sets = [
        ((100, 7), {}),
        ((100, 7, 5), {}),
        ((100, 7, 5, 16), {}),
        ((100,), {"offset": 7}),
        ((), {"size": 100, "offset": 7}),
        ((), {"size": 100, "offset": 7, "position": 3, "buffer_length": 1}),
        ((100, 7), {"position": 99}),
        ((100, 7), {"buffer_length": 0}),
        ((0, 0), {}),
        ((-5, -3), {}),
        ((None, 0), {}),
        ((10**12, 10**11), {}),
        ((100,), {}),                                   # offset missing
        ((), {}),                                       # everything missing
        ((100, 7, 5, 16, 1), {}),                       # one too many
        ((100, 7), {"offset": 9}),                      # given twice
        ((100, 7), {"size": 9}),                        # given twice
        ((100, 7), {"bogus": 1}),
        ((), {"offset": 7}),
    ]
    for n in range(60):
        argument_sets.append((
            (rng.randrange(-10, 3000), rng.randrange(-10, 3000)),
            {"position": rng.randrange(-5, 3000), "buffer_length": rng.choice([1, 2, 64, 0x1000])},
        ))
    for n, (args, kwargs) in enumerate(argument_sets):
        results = []
        for cls in VARIANTS:
            parent = Parent(data)
            out = outcome(lambda: cls(parent, *args, **kwargs))
            if out[0] == "ok":
                stream = out[1]
                out = ("ok", public_vars(stream), stream.substream is parent, type(stream).__name__)
            results.append((out, parent.log))
        check(("construct", n, args, kwargs), results[0], results[1])
    check("no substream at all", outcome(lambda: StreamOffset()), outcome(lambda: OriginalStreamOffset()))


def class_facts():
    facts = []
    for cls in VARIANTS:
        providers = {}
        for name in ("__init__", "_translate_addr", "_seek", "_read", "tell", "seek", "read", "readall"):
            owner = next(k for k in cls.__mro__ if name in vars(k))
            # the private base of the refactoring stands for the public class
            providers[name] = "StreamOffset" if owner.__name__ in ("StreamOffset", "_ShiftedAddressing") else owner.__name__
        facts.append((
            cls.__name__,
            cls.__qualname__,
            cls.__module__,
            issubclass(cls, StreamWrapper),
            issubclass(cls, IOBase),
            StreamWrapper in cls.__mro__,
            str(inspect.signature(cls.__init__)),
            str(inspect.signature(cls)),
            providers,
            [k.__name__ for k in cls.__mro__ if k.__name__ != "_ShiftedAddressing"],
        ))
    check("class facts", facts[0], facts[1])
    check("module attribute", stream_module.StreamOffset is StreamOffset, True)
    check("mdx uses it", mdx_module.StreamOffset is StreamOffset, True)


def translate(rng):
    nan, inf = float("nan"), float("inf")
    offsets = [0, 1, 64, 2**31, 2**70, -1, -64, 1.5, nan, inf, None, "4", b"4", True, [1]]
    addresses = [0, 1, 63, 64, 2**31 - 1, 2**64, -1, -2**40, 0.5, nan, -inf, None, "9", b"9", False, [2], (3,)]
    for _ in range(300):
        offsets.append(rng.randrange(-10**6, 10**12))
        addresses.append(rng.randrange(-10**6, 10**12))
    for n in range(4000):
        offset, address = rng.choice(offsets), rng.choice(addresses)
        results = []
        for cls in VARIANTS:
            stream = cls(Parent(b"x" * 10), 10, 0)
            stream.offset = offset
            out = outcome(lambda: stream._translate_addr(address))
            if out[0] == "ok":
                out = ("ok", out[1], type(out[1]).__name__)
            results.append(out)
        check(("translate", n, repr(offset), repr(address)), results[0], results[1])
    for cls_results in [[]]:
        for cls in VARIANTS:
            stream = cls(Parent(b"x" * 10), 10, 3)
            del stream.offset
            cls_results.append(outcome(lambda: stream._translate_addr(1)))
        check("translate without offset attribute", cls_results[0], cls_results[1])


def state(stream, parent):
    return (stream.position, stream.true_size, stream.end_of_file, stream.offset, io.BytesIO.tell(parent))


def perform(stream, parent, script):
    trace = []
    for op, *args in script:
        if op == "seek":
            out = outcome(lambda: stream.seek(*args))
        elif op == "read":
            out = outcome(lambda: stream.read(*args))
        elif op == "readall":
            out = outcome(stream.readall)
        elif op == "parent_seek":                       # someone else moves the shared parent
            out = outcome(lambda: io.BytesIO.seek(parent, *args))
        else:
            out = outcome(stream.tell)
        trace.append((op, args, out, state(stream, parent)))
    return trace


def random_script(rng, size, parent_length):
    script = []
    for _ in range(rng.randrange(1, 14)):
        roll = rng.random()
        if roll < 0.3:
            whence = rng.choice([0, 0, 1, 2])
            if rng.random() < 0.2:
                script.append(("seek", rng.randrange(-size - 3, size + 3)))        # default whence
            else:
                script.append(("seek", rng.randrange(-size - 3, size + 3), whence))
        elif roll < 0.8:
            script.append(("read", rng.choice([0, 1, 2, 7, 64, size, size + 1, rng.randrange(0, size + 5), -1, None])))
        elif roll < 0.87:
            script.append(("readall",))
        elif roll < 0.95:
            script.append(("parent_seek", rng.randrange(0, parent_length + 1)))
        else:
            script.append(("tell",))
    return script


def scripted(rng):
    for n in range(700):
        parent_length = rng.choice([0, 1, 64, 65, 1000, 5000])
        data = bytes(rng.randrange(256) for _ in range(parent_length))
        offset = rng.choice([0, 0, 1, 64, rng.randrange(0, parent_length + 10)])
        size = rng.choice([
            max(parent_length - offset, 0),             # exactly to the end (the MDX case)
            max(parent_length - offset, 0) // 2,        # inside
            max(parent_length - offset, 0) + 17,        # claims more than the parent has
            0,
        ])
        position = rng.choice([0, 0, 0, rng.randrange(0, size + 2)])
        buffer_length = rng.choice([0x1000, 0x1000, 1, 3, 64])
        fail_at = rng.choice([None, None, None, 1, 2, 3, 5, 8])
        script = random_script(rng, size, parent_length)
        results = []
        for cls in VARIANTS:
            parent = Parent(data)
            stream = cls(parent, size, offset, position=position, buffer_length=buffer_length)
            parent.fail_at = fail_at
            trace = perform(stream, parent, script)
            results.append((trace, parent.log))
        check(("script", n, parent_length, offset, size, fail_at), results[0], results[1])

    # what the window shows is the parent from `offset` on
    for n in range(200):
        data = bytes(rng.randrange(256) for _ in range(rng.randrange(1, 3000)))
        offset = rng.randrange(0, len(data) + 1)
        size = len(data) - offset
        stream = StreamOffset(Parent(data), size, offset)
        start = rng.randrange(0, size + 1)
        length = rng.randrange(0, size + 50)
        stream.seek(start, 0)
        check(("window content", n), stream.read(length), data[offset + start:offset + start + length])


def header(sector_id):
    return b"\x00" + b"\xFF" * 10 + b"\x00" + struct.pack(">I", sector_id)[1:] + b"\x01"


def mdf_wrap(payload):
    out = bytearray()
    for i in range(0, len(payload), 2048):
        out += header(i // 2048) + payload[i:i + 2048].ljust(2048, b"\0") + bytes(288)
    return bytes(out)


def mdx_wrap(payload, eof=None):
    return MdxHeaderConstruct.build(dict(
        copyright=b"\xA9" + b" " * 25,
        eof=MdxHeaderConstruct.sizeof() + len(payload) if eof is None else eof,
    )) + payload


@contextlib.contextmanager
def original_class_in_mdx():
    live = mdx_module.StreamOffset
    mdx_module.StreamOffset = OriginalStreamOffset
    try:
        yield
    finally:
        mdx_module.StreamOffset = live


def mdx_streams(rng):
    for n in range(150):
        payload = bytes(rng.randrange(256) for _ in range(rng.choice([0, 1, 2047, 2048, 2049, 5000])))
        eof = rng.choice([None, None, None, 0, 64, 64 + len(payload) // 2, 64 + len(payload) + 100])
        blob = mdx_wrap(payload, eof)
        if n % 15 == 14:
            blob = blob[:rng.randrange(0, 64)]          # truncated header
        script = random_script(rng, len(payload), len(blob))
        kwargs = rng.choice([{}, {"position": rng.randrange(0, len(payload) + 1)}, {"buffer_length": 7}])
        results = []
        for use_original in (False, True):
            parent = Parent(blob)
            with original_class_in_mdx() if use_original else contextlib.nullcontext():
                out = outcome(lambda: MdxStream(parent, **kwargs))
            if out[0] == "ok":
                stream = out[1]
                out = ("ok", type(stream).__name__, public_vars(stream), perform(stream, parent, script))
            results.append((out, parent.log))
        check(("mdx stream", n, eof, kwargs), results[0], results[1])


def make_roland_image(rng, extra):
    values = dict(
        revision=rng.randint(0, 2**32 - 1),
        s7xx_str="S770 MR25A",
        empty_str="",
        version_str=rng.choice(["S-770 Hard Disk Ver. 2.25", "S-750 MO Disk Ver 1.02a"]),
        copyright_str="Copyright Roland",
        disk_name=rng.choice(["MYDISK", "A B C"]),
        disk_capacity=rng.randint(0, 2**32 - 1),
        num_volumes=0,
        num_performances=0,
        num_patches=rng.randint(0, 0xFFFF),
        num_partials=rng.randint(0, 0xFFFF),
        num_samples=rng.randint(0, 0xFFFF),
    )
    img = bytearray(0x110000 + extra)
    ida = IdAreaStruct.build(values)
    img[:len(ida)] = ida
    fat = bytearray(FAT_AREA_SIZE)
    struct.pack_into("<HH", fat, 0, FAT_AREA_ID, 77)
    struct.pack_into("<HH", fat, FAT_AREA_SIZE - 4, 0xFFFF, 0xFFFF)
    img[FAT_AREA_OFFSET:FAT_AREA_OFFSET + FAT_AREA_SIZE] = fat
    return bytes(img)


def ls_text(image, path=""):
    buf = io.StringIO()
    with contextlib.redirect_stdout(buf):
        actions.ls_action(image, path)
    return buf.getvalue()


def end_to_end(rng):
    workdir = tempfile.mkdtemp(prefix="r23_demo_")
    try:
        for n, extra in enumerate((0, 777, 2048)):
            payload = make_roland_image(rng, extra)
            blobs = {"raw": payload, "mdf": mdf_wrap(payload), "mdx": mdx_wrap(payload)}
            paths = {}
            for kind, blob in blobs.items():
                paths[kind] = os.path.join(workdir, f"img{n}.{kind}")
                with open(paths[kind], "wb") as f:
                    f.write(blob)
            for kind in ("raw", "mdf", "mdx"):
                cue = os.path.join(workdir, f"img{n}.{kind}.cue")
                with open(cue, "w", encoding="ascii") as f:
                    f.write(f"FILE \"img{n}.{kind}\" BINARY\n  TRACK 01 MODE1/2352\n    INDEX 01 00:00:00\n")
                paths["cue->" + kind] = cue

            listings = {}
            for kind, path in paths.items():
                image = actions.determine_image_type(path)
                check(("e2e type", n, kind), type(image).__name__, "RolandS7xxImage")
                listings[kind] = ls_text(image)
            check(("e2e same everywhere", n), len(set(listings.values())), 1)
            check(("e2e listing not empty", n), len(listings["raw"]) > 0, True)

            with original_class_in_mdx():
                image = actions.determine_image_type(paths["mdx"])
                check(("e2e original class", n), ls_text(image), listings["mdx"])
    finally:
        shutil.rmtree(workdir, ignore_errors=True)


def main():
    rng = random.Random(0x523)
    class_facts()
    construction(rng)
    translate(rng)
    scripted(rng)
    mdx_streams(rng)
    end_to_end(rng)

    print(f"{checks} checks, {len(failures)} disagreements")
    for f in failures[:10]:
        print("  MISMATCH", repr(f)[:700])
    return 1 if failures else 0


if __name__ == "__main__":
    sys.exit(main())
