"""Equivalence demo for r22: ElementAdapter._decode
(smpl_extract/util/constructs.py).

The live `_decode` is compared with an inline copy of the ORIGINAL
implementation (installed on a sibling subclass).  Both adapters get a
`_decode_element` that records exactly what it is handed (obj, the ChildInfo
tuple, the context object, the path) and can be scripted to raise.  The
contexts are plain dicts, construct Containers, nested ("_") contexts and an
instrumented mapping that logs every `keys()`, `__getitem__` and
`__contains__` call in order, so that the order and number of context reads
is compared too (the original reads `keys()` once for the name key before
pull_child_info does its own reads).  name_key runs over None, "", present,
absent, present-only-in-parent, falsy-valued, unhashable and non-string keys;
contexts without `keys()` and contexts whose reads raise are included.
"""
import random
import sys

from construct.core import Pass
from construct.lib.containers import Container

from smpl_extract.util.constructs import ChildInfo
from smpl_extract.util.constructs import ElementAdapter
from smpl_extract.util.constructs import pull_child_info


class Boom(Exception):
    pass


LOG = []


class _Recording:
    """Mixin: a _decode_element that records its arguments."""

    raise_in_element = False

    def _decode_element(self, obj, child_info, context, path):
        LOG.append((
            "element",
            describe(obj),
            type(child_info).__name__,
            tuple(child_info._fields),
            tuple(describe(x) for x in child_info),
            describe_identity(context),
            path,
        ))
        if self.raise_in_element:
            raise Boom("element")
        return ("decoded", describe(obj), child_info.name)


class LiveAdapter(_Recording, ElementAdapter):
    pass


class OrigAdapter(_Recording, ElementAdapter):

    # inline copy of the ORIGINAL implementation
    def _decode(self, obj, context, path):
        name = None
        if self.name_key is not None and self.name_key in context.keys():
            name = context[self.name_key]
        child_info = pull_child_info(context, name)
        result = self._decode_element(obj, child_info, context, path)
        return result


# --------------------------------------------------------------------------
# helpers to describe values in a world-independent way
# --------------------------------------------------------------------------
CURRENT_CONTEXTS = []


def describe_identity(context):
    for i, c in enumerate(CURRENT_CONTEXTS):
        if c is context:
            return "<context %d>" % i
    return "<foreign %s>" % type(context).__name__


class Parent:
    def __init__(self, tag, path):
        self.tag = tag
        self.path = path


def describe(value):
    if isinstance(value, Parent):
        return ("Parent", value.tag, tuple(value.path))
    if isinstance(value, (list, tuple)):
        return (type(value).__name__, tuple(describe(v) for v in value))
    if isinstance(value, dict):
        return (type(value).__name__,
                tuple((repr(k), describe(v)) for k, v in value.items()))
    if isinstance(value, LoggingContext):
        return "<LoggingContext %s>" % value.tag
    return repr(value)


class LoggingContext:
    """Mapping that records every read, in order."""

    def __init__(self, tag, data, fail_on=None):
        self.tag = tag
        self.data = data
        self.fail_on = fail_on

    def keys(self):
        LOG.append(("keys", self.tag))
        if self.fail_on == "keys":
            raise Boom("keys " + self.tag)
        return LoggingKeys(self)

    def __getitem__(self, key):
        LOG.append(("getitem", self.tag, repr(key)))
        if self.fail_on == "getitem":
            raise Boom("getitem " + self.tag)
        return self.data[key]

    def __contains__(self, key):
        LOG.append(("contains", self.tag, repr(key)))
        return key in self.data

    def __iter__(self):
        LOG.append(("iter", self.tag))
        return iter(self.data)

    def get(self, key, default=None):
        LOG.append(("get", self.tag, repr(key)))
        return self.data.get(key, default)

    def items(self):
        LOG.append(("items", self.tag))
        return self.data.items()


class LoggingKeys:
    def __init__(self, owner):
        self.owner = owner

    def __contains__(self, key):
        LOG.append(("keys-contains", self.owner.tag, repr(key)))
        if self.owner.fail_on == "keys-contains":
            raise Boom("keys-contains " + self.owner.tag)
        return key in self.owner.data

    def __iter__(self):
        LOG.append(("keys-iter", self.owner.tag))
        return iter(self.owner.data)


class NoKeys:
    """A context without keys()."""

    def __getitem__(self, key):
        raise KeyError(key)


NAME_KEYS = [
    None, None, "", "name", "name", "name", "missing", "_elem_name", "_",
    0, 1, ("a", 1), ["unhashable"], "_elem_parent", "index",
]
NAME_VALUES = [
    "SAMPLE 01", "", None, 0, False, ["a", "list"], ("t",), 17, "x" * 40,
    "A:", "name with / slash",
]
ELEM_NAMES = ["ctx-name", "", None, 5]


def make_layer(rng):
    layer = {}
    if rng.random() < 0.6:
        layer["name"] = rng.choice(NAME_VALUES)
    if rng.random() < 0.4:
        layer["_elem_name"] = rng.choice(ELEM_NAMES)
    if rng.random() < 0.5:
        layer["_elem_parent"] = rng.choice([
            None,
            Parent("p1", []),
            Parent("p2", ["A", "VOL 1"]),
            Parent("p3", ["x"]),
        ])
    if rng.random() < 0.5:
        layer["_elem_routines"] = rng.choice([
            {}, {"r": len}, [], None, {"a": str, "b": repr}
        ])
    if rng.random() < 0.3:
        layer[""] = rng.choice(NAME_VALUES)
    if rng.random() < 0.3:
        layer["index"] = rng.randrange(10)
    if rng.random() < 0.2:
        layer[0] = "zero-key"
    if rng.random() < 0.2:
        layer[("a", 1)] = "tuple-key"
    if rng.random() < 0.2:
        layer["missing"] = rng.choice(NAME_VALUES)
    return layer


def make_case(rng):
    depth = rng.choice([1, 1, 2, 2, 3])
    layers = [make_layer(rng) for _ in range(depth)]
    flavour = rng.choice(["dict", "dict", "container", "logging", "logging",
                          "logging-fail", "nokeys", "list", "none"])
    return {
        "layers": layers,
        "flavour": flavour,
        "fail_on": rng.choice(["keys", "getitem", "keys-contains"]),
        "fail_layer": rng.randrange(depth),
        "name_key": rng.choice(NAME_KEYS),
        "obj": rng.choice([None, 0, "obj", ["o"], {"k": "v"}, Container(a=1)]),
        "path": rng.choice(["", "(parsing) -> x", None]),
        "raise_in_element": rng.random() < 0.15,
        "use_default_ctor": rng.random() < 0.2,
    }


def build_context(case):
    """Fresh context objects for one run; returns outermost->innermost list."""
    flavour = case["flavour"]
    if flavour == "nokeys":
        return NoKeys(), []
    if flavour == "list":
        return ["not", "a", "mapping"], []
    if flavour == "none":
        return None, []
    built = None
    all_layers = []
    # innermost = layers[0]; its parent ("_") is layers[1] and so on
    for i in reversed(range(len(case["layers"]))):
        data = dict(case["layers"][i])
        if built is not None:
            data["_"] = built
        if flavour == "dict":
            built = data
        elif flavour == "container":
            built = Container(data)
        else:
            fail = None
            if flavour == "logging-fail" and i == case["fail_layer"]:
                fail = case["fail_on"]
            built = LoggingContext("L%d" % i, data, fail)
        all_layers.append(built)
    return built, all_layers


def run(case, cls):
    del LOG[:]
    del CURRENT_CONTEXTS[:]
    context, layers = build_context(case)
    CURRENT_CONTEXTS.extend(layers)
    if case["use_default_ctor"] or case["name_key"] is None:
        adapter = cls(Pass) if case["use_default_ctor"] else cls(Pass, None)
    else:
        adapter = cls(Pass, case["name_key"])
    adapter.raise_in_element = case["raise_in_element"]
    try:
        value = adapter._decode(case["obj"], context, case["path"])
        outcome = ("value", describe(value))
    except Exception as e:  # noqa: BLE001 - compare whatever comes
        outcome = ("error", type(e).__name__, str(e))
    after = None
    if isinstance(context, (dict, Container)):
        after = describe(dict(context))
    return outcome, list(LOG), after, repr(adapter.name_key)


def main():
    rng = random.Random(1622)
    failures = 0
    seen_outcomes = set()
    n_cases = 6000
    for number in range(n_cases):
        case = make_case(rng)
        live = run(case, LiveAdapter)
        ref = run(case, OrigAdapter)
        seen_outcomes.add(live[0][0] + ":" + (live[0][1] if live[0][0] == "error" else ""))
        if live != ref:
            failures += 1
            if failures <= 5:
                print("MISMATCH in case", number, case)
                print("  live:", live)
                print("  ref :", ref)

    # through the public construct API as the parsers use it
    for name_key in (None, "name", "absent"):
        for kwargs in ({}, {"name": "N"}, {"_elem_name": "E"},
                       {"name": "N", "_elem_name": "E",
                        "_elem_parent": Parent("p", ["root"])}):
            results = []
            for cls in (LiveAdapter, OrigAdapter):
                del LOG[:]
                adapter = cls(Pass, name_key)
                value = adapter.parse(b"", **kwargs)
                elements = [e[:5] + e[6:] for e in LOG if e[0] == "element"]
                results.append((describe(value), elements))
            if results[0] != results[1]:
                failures += 1
                print("MISMATCH via parse()", name_key, kwargs, results)

    if failures:
        print("FAILED: %d mismatching cases" % failures)
        return 1
    print("OK: %d random cases agree; outcome kinds seen: %s"
          % (n_cases, sorted(seen_outcomes)))
    return 0


if __name__ == "__main__":
    sys.exit(main())
