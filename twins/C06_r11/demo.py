"""Equivalence demo for Image.make_safe_names_routine /
Image.make_export_names_routine (C06, r11).

Reference = inline copies of the ORIGINAL routines *and* of the original
functions they drive (sanitize_names_general, _add_count_to_name,
make_safe_name, make_export_name), so the comparison is end to end.
Compared for many sibling-name multisets: the returned object (identity and
content), the ordered log of every attribute write performed on the elements,
the final _safe_name/_export_name of every element, and exception
type/message (e.g. elements that refuse attribute writes).
"""
import inspect
import itertools
import random
import re
import sys
from dataclasses import dataclass

from smpl_extract.base import Element
from smpl_extract.base import ElementTypes
from smpl_extract.generalized.sample import Sample
from smpl_extract.structural import CouldNotDetermineName
from smpl_extract.structural import Image


# --------------------------------------------------------------------------
# ORIGINAL implementation (verbatim copies, as a stand-alone class)
# --------------------------------------------------------------------------
class OriginalImage:
    _INVALID_CHARS_REMOVE = re.compile(r"[\'\"\`]+")
    _INVALID_CHARS_REPLACE = re.compile(r"([^\w\-=\:.@#&+ ]+|(?<!\w)\:+)")
    def make_safe_name(self, name, is_file=True) -> str:
        del is_file
        safe_name = self._INVALID_CHARS_REMOVE.sub("", name)
        safe_name = self._INVALID_CHARS_REPLACE.sub(" ", safe_name)
        safe_name = safe_name.strip()
        return safe_name

    _SAFE_ENDING = re.compile(r"(.+?)\s*\.?\s*$")
    _INVALID_FILE_NAME = re.compile(r"[^\w\-\.# ]+")
    def make_export_name(self, name, is_file=True) -> str:
        export_name = self.make_safe_name(name)
        export_name = self._INVALID_FILE_NAME.sub(" ", name).strip()
        match = self._SAFE_ENDING.match(export_name)
        if match:
            export_name = match.group(1)
        if len(export_name) <= 0:
            export_name = "0"
        match = re.match(r"\w", export_name)
        if not match:
            export_name = "0" + export_name
        if not is_file:
            if export_name[-1] in (".", "-"):
                export_name = export_name + "0"
        return export_name

    _STEREO_FILENAME = re.compile(r"(.*?)([\s-]+)(L|R)\s*$")
    def _add_count_to_name(self, name, count):
        count_str = "(" + str(count) + ")"
        delim = " "
        tokens = [name, count_str]
        match = self._STEREO_FILENAME.match(name)
        if match:
            tokens = [
                match.group(1),
                count_str,
                match.group(3)
            ]
        new_name = delim.join(tokens)
        return new_name

    def sanitize_names_general(self, elements, f_sanitize, f_set):
        candidate_names = {}
        for element in elements:
            is_file = element.type_id != ElementTypes.DirectoryEntry
            candidate_name = f_sanitize(element.name, is_file)

            if candidate_name not in candidate_names.keys():
                candidate_names[candidate_name] = []
            candidate_names[candidate_name].append(element)

        assigned_names = set()  # as in the tree after the numbering fix
        for name, subelements in candidate_names.items():
            if len(subelements) == 1:
                element = subelements[0]
                f_set(element, name)
                continue

            i = 0
            for element in subelements:
                i += 1
                if i > 1:
                    next_name = self._add_count_to_name(name, i)
                    j = 0
                    while (next_name in candidate_names.keys() or next_name in assigned_names):
                        i += 1
                        j += 1
                        next_name = self._add_count_to_name(name, i)
                        if j > len(candidate_names.keys()):
                            # This should never(?) happen
                            raise CouldNotDetermineName(
                                "Unable to determine proper (sanitized) "
                                f"name for {element.name}. Too many name "
                                "collisions."
                            )
                else:
                    next_name = name
                f_set(element, next_name)
                assigned_names.add(next_name)

        result = elements
        return result

    def make_safe_names_routine(self, elements):
        result = self.sanitize_names_general(
            elements,
            self.make_safe_name,
            lambda element, name: setattr(element, "_safe_name", name)
        )
        return result

    def make_export_names_routine(self, elements):
        result = self.sanitize_names_general(
            elements,
            self.make_export_name,
            lambda element, name: setattr(element, "_export_name", name)
        )
        return result


def original_safe_routine_on(image, elements):
    """ORIGINAL routine body bound to a live image (live callees)."""
    result = image.sanitize_names_general(
        elements,
        image.make_safe_name,
        lambda element, name: setattr(element, "_safe_name", name)
    )
    return result


def original_export_routine_on(image, elements):
    result = image.sanitize_names_general(
        elements,
        image.make_export_name,
        lambda element, name: setattr(element, "_export_name", name)
    )
    return result


# --------------------------------------------------------------------------
# element zoo
# --------------------------------------------------------------------------
WRITES = []


class Plain(Element):
    """Regular element; logs attribute writes after construction."""
    def __init__(self, name, type_id, tag):
        super().__init__([name], None)
        self.name = name
        self.type_id = type_id
        self.tag = tag
        self._armed = True

    def __setattr__(self, key, value):
        if self.__dict__.get("_armed"):
            WRITES.append((self.tag, key, value))
        object.__setattr__(self, key, value)

    def get_info(self):
        raise NotImplementedError


class Refusing(Plain):
    """Refuses the write of one attribute."""
    def __init__(self, name, type_id, tag, refuse):
        super().__init__(name, type_id, tag)
        object.__setattr__(self, "refuse", refuse)

    def __setattr__(self, key, value):
        if self.__dict__.get("_armed") and key == self.__dict__.get("refuse"):
            WRITES.append((self.tag, "REFUSED", key, value))
            raise AttributeError(f"can't set {key}")
        super().__setattr__(key, value)


class Slotted:
    """Not an Element at all: only has slots for what the code touches."""
    __slots__ = ("name", "type_id", "_safe_name")   # no _export_name slot

    def __init__(self, name, type_id):
        self.name = name
        self.type_id = type_id


def build_elements(spec):
    elements = []
    for idx, (kind, name, type_id) in enumerate(spec):
        if kind == "plain":
            elements.append(Plain(name, type_id, idx))
        elif kind == "sample":
            sample = Sample(name=name, _path=["x", name])
            elements.append(sample)
        elif kind == "refuse_safe":
            elements.append(Refusing(name, type_id, idx, "_safe_name"))
        elif kind == "refuse_export":
            elements.append(Refusing(name, type_id, idx, "_export_name"))
        elif kind == "slotted":
            elements.append(Slotted(name, type_id))
        else:
            raise AssertionError(kind)
    return elements


def snapshot(elements):
    return [
        (getattr(e, "name", None), getattr(e, "_safe_name", "<unset>"),
         getattr(e, "_export_name", "<unset>"))
        for e in elements
    ]


def run(variant, spec, container, order):
    """variant: 'live', 'orig_full' (stand-alone reference), 'orig_bound'."""
    del WRITES[:]
    elements = container(build_elements(spec))
    live_image = Image(lambda ctx: [])
    if variant == "live":
        routines = {"safe": live_image.make_safe_names_routine,
                    "export": live_image.make_export_names_routine}
    elif variant == "orig_full":
        ref = OriginalImage()
        routines = {"safe": ref.make_safe_names_routine,
                    "export": ref.make_export_names_routine}
    else:
        routines = {
            "safe": lambda els: original_safe_routine_on(live_image, els),
            "export": lambda els: original_export_routine_on(live_image, els)}
    results = []
    for which in order:
        try:
            value = routines[which](elements)
            results.append(("ok", value is elements, type(value).__name__))
        except Exception as exc:  # noqa: BLE001
            results.append(("exc", type(exc).__name__, str(exc)))
    return results, list(WRITES), snapshot(elements)


def check_call_shape():
    """The routines must hand sanitize_names_general the same three things:
    the element list, the bound sanitiser and a 2-argument setter that writes
    the right attribute and returns None."""
    problems = 0
    signature = inspect.signature(Image.sanitize_names_general)
    for routine_name, sanitiser, attribute in (
            ("make_safe_names_routine", "make_safe_name", "_safe_name"),
            ("make_export_names_routine", "make_export_name", "_export_name")):
        image = Image(lambda ctx: [])
        seen = []

        def spy(*args, **kwargs):
            bound = signature.bind(image, *args, **kwargs)
            seen.append(bound.arguments)
            return "SENTINEL"

        image.sanitize_names_general = spy      # instance-level override
        marker = [object()]
        returned = getattr(image, routine_name)(marker)
        arguments = seen[0]
        target = Plain("n", ElementTypes.SampleEntry, 0)
        set_result = arguments["f_set"](target, "assigned")
        ok = (
            returned == "SENTINEL" and len(seen) == 1
            and arguments["elements"] is marker
            and arguments["f_sanitize"] == getattr(image, sanitiser)
            and set_result is None
            and getattr(target, attribute) == "assigned"
            and {"_safe_name": target._safe_name,
                 "_export_name": target._export_name}
            == {**{"_safe_name": None, "_export_name": None},
                attribute: "assigned"}
        )
        if not ok:
            problems += 1
            print("CALL SHAPE PROBLEM", routine_name, arguments)
    return problems


def specs():
    D, S, P = (ElementTypes.DirectoryEntry, ElementTypes.SampleEntry,
               ElementTypes.ProgramEntry)
    names = [
        "KICK", "KICK", "kick", "KICK (2)", "KICK (3)", "SNARE -L", "SNARE -R",
        "SNARE  L", "SNARE-L", "SNARE (2) L", "a/b", "a\\b", "..", ".", "",
        "   ", "it's", "it`s", "\"q\"", "x:y", ":x", "a:", "A.", "A-", "-A",
        "#1", "(2)", "nul\x00l", "tab\tname", "Vé ♫", "a*b", "a?b", "a b",
        "A.", "A. ", "A .", "L", "R", " L", "-R", "track.wav", "x" * 40,
    ]
    # exhaustive small multisets
    small = ["KICK", "KICK (2)", "K-L", "K-R", "k*", "", ".."]
    for size in range(0, 4):
        for combo in itertools.product(small, repeat=size):
            yield [("plain", n, S) for n in combo]
    # hand-picked collision cases from the property statement
    yield [("plain", n, S) for n in ["A", "A", "A (2)", "A (2)"]]
    yield [("plain", n, S) for n in ["S -L", "S -L", "S (2) L", "S -R", "S -R"]]
    yield [("plain", n, t) for n, t in [("V.", D), ("V.", S), ("V-", D), ("V.0", D)]]
    yield [("plain", "X", S)] * 12 + [("plain", f"X ({k})", S) for k in range(2, 9)]
    # random mixes of element kinds / types
    rng = random.Random(1111)
    kinds = ["plain"] * 6 + ["sample", "sample", "refuse_safe", "refuse_export", "slotted"]
    for _ in range(1500):
        size = rng.randrange(0, 9)
        pool = rng.sample(names, rng.randrange(1, 6))
        yield [(rng.choice(kinds), rng.choice(pool), rng.choice([D, S, S, P]))
               for _ in range(size)]


def main():
    total = mismatches = 0
    orders = [("safe", "export"), ("export", "safe"), ("safe",), ("export", "export")]
    containers = [list, tuple]
    for index, spec in enumerate(specs()):
        order = orders[index % len(orders)]
        container = containers[(index // 4) % 2]
        total += 1
        live = run("live", spec, container, order)
        for reference in ("orig_full", "orig_bound"):
            ref = run(reference, spec, container, order)
            if live != ref:
                mismatches += 1
                if mismatches <= 5:
                    print("MISMATCH vs", reference, spec, order)
                    print("  live:", live)
                    print("  ref :", ref)
    mismatches += check_call_shape()
    print(f"{total} specs, {mismatches} mismatches")
    return 1 if mismatches else 0


if __name__ == "__main__":
    sys.exit(main())
