"""Equivalence demo for r15: MidiNote.from_midi_byte / to_midi_byte and their
AKAI twins (smpl_extract/midi.py) - the conversions behind the smpl chunk's
"MIDI unity note" field (WavSampleChunkStruct.midi_note adapter and
get_smpl_chunk_data).

Inline copies of the four ORIGINAL methods are compared with the methods in
the tree:
  * from_*_byte for every int in -300..600 and for odd arguments (bool, float,
    numpy ints, str, None): result or exception type + message,
  * to_*_byte for every (scale degree, sharp, octave in -30..40) note, called
    bound and unbound, on a subclass with an overridden from_int_a0/to_int_a0,
    and unbound on a duck-typed object that only has to_int_a0,
  * round trips, and behaviour after the module constants MIDI_A0 /
    AKAI_SAMPLE_A0 are patched (both implementations read them at call time).
Then the smpl chunk is built for an exhaustive root key x semitone x cents
sweep (every AKAI header byte combination reachable: root 21..127, semi
-50..50 step, cents -128..127 coarse + corner values) and compared with
independently computed expected bytes.  Exit 0 when all agree, 1 otherwise.
"""
import itertools
import struct
import sys
import warnings
from unittest.mock import patch

import numpy as np

from smpl_extract import midi
from smpl_extract.formats.wav import WavSampleChunkStruct
from smpl_extract.generalized.sample import LoopRegion
from smpl_extract.generalized.sample import Sample
from smpl_extract.generalized.wav import get_smpl_chunk_data
from smpl_extract.midi import MidiNote
from smpl_extract.midi import ScaleDegree


# --- verbatim copies of the original methods (as plain functions) ----------
def orig_from_akai_byte(cls, byte_in: int):
    byte_normalized = byte_in - midi.AKAI_SAMPLE_A0
    return cls.from_int_a0(byte_normalized)


def orig_from_midi_byte(cls, byte_in: int):
    byte_normalized = byte_in - midi.MIDI_A0
    return cls.from_int_a0(byte_normalized)


def orig_to_akai_byte(self) -> int:
    byte_offset = self.to_int_a0()
    byte_out = byte_offset + midi.AKAI_SAMPLE_A0
    return byte_out


def orig_to_midi_byte(self) -> int:
    byte_offset = self.to_int_a0()
    byte_out = byte_offset + midi.MIDI_A0
    return byte_out


def outcome(f, *args):
    try:
        result = f(*args)
        return ("ok", type(result).__name__, result, repr(result))
    except BaseException as e:  # noqa
        return ("raised", type(e).__name__, str(e))


class LoggingNote(MidiNote):
    """Subclass overriding the primitives the four methods build on."""
    log = []

    @classmethod
    def from_int_a0(cls, byte_in):
        cls.log.append(("from_int_a0", byte_in))
        return super().from_int_a0(byte_in + 1)

    def to_int_a0(self):
        type(self).log.append(("to_int_a0", self.to_string()))
        return super().to_int_a0() - 2


class Duck:
    """Not a MidiNote: only offers to_int_a0 (unbound call MidiNote.to_x(duck))."""

    def __init__(self, value):
        self.value = value

    def to_int_a0(self):
        return self.value


def compare_all(problems, tag):
    n = 0
    odd_args = [
        True, False, 60.0, 60.5, -0.0, np.int8(60), np.uint8(20), np.int64(127),
        np.float32(33.0), "60", b"60", None, [60], (60,), 2 ** 70, -2 ** 70,
        float("nan"), float("inf"), complex(60, 0),
    ]
    for cls in (MidiNote, LoggingNote):
        for byte_in in itertools.chain(range(-300, 601), odd_args):
            for orig, name in (
                    (orig_from_akai_byte, "from_akai_byte"),
                    (orig_from_midi_byte, "from_midi_byte")):
                n += 1
                LoggingNote.log = []
                a = outcome(orig, cls, byte_in)
                log_a = LoggingNote.log
                LoggingNote.log = []
                b = outcome(getattr(cls, name), byte_in)
                log_b = LoggingNote.log
                if a != b and not (a[0] == b[0] == "ok" and a[3] == b[3]
                                   and a[2] == b[2]):
                    problems.append(f"{tag} {cls.__name__}.{name}({byte_in!r}): "
                                    f"{a!r} vs {b!r}")
                if repr(log_a) != repr(log_b):
                    problems.append(f"{tag} {cls.__name__}.{name}({byte_in!r}): "
                                    f"call log {log_a!r} vs {log_b!r}")

    notes = []
    for cls in (MidiNote, LoggingNote):
        for degree, sharp, octave in itertools.product(
                ScaleDegree, (False, True), range(-30, 41)):
            notes.append(cls(degree, sharp, octave))
    # fields holding unusual values
    notes.append(MidiNote(ScaleDegree.C, 1, 4))          # is_sharp == 1
    notes.append(MidiNote(ScaleDegree.C, False, 4.0))    # float octave
    notes.append(MidiNote(2, False, 4))                  # plain int degree
    notes.append(MidiNote(9, False, 4))                  # not in the table
    notes.append(MidiNote(ScaleDegree.C, None, 4))       # not in the table
    notes.append(MidiNote(ScaleDegree.C, False, "4"))    # str octave
    notes.append(MidiNote(ScaleDegree.C, False, None))
    for note in notes:
        for orig, name in (
                (orig_to_akai_byte, "to_akai_byte"),
                (orig_to_midi_byte, "to_midi_byte")):
            n += 1
            LoggingNote.log = []
            a = outcome(orig, note)
            log_a = LoggingNote.log
            LoggingNote.log = []
            b = outcome(getattr(note, name))
            c = outcome(getattr(MidiNote, name), note)  # unbound, as the
            log_b = LoggingNote.log                      # construct adapters do
            if not (a == b == c):
                problems.append(f"{tag} {note!r}.{name}(): {a!r} vs {b!r} / {c!r}")
            if log_b != log_a + log_a:
                problems.append(f"{tag} {note!r}.{name}(): call log differs")

    for value in (0, 5, -7, 100, 2.5, "x", None):
        for orig, name in (
                (orig_to_akai_byte, "to_akai_byte"),
                (orig_to_midi_byte, "to_midi_byte")):
            n += 1
            a = outcome(orig, Duck(value))
            b = outcome(getattr(MidiNote, name), Duck(value))
            if a != b:
                problems.append(f"{tag} MidiNote.{name}(Duck({value!r})): "
                                f"{a!r} vs {b!r}")
    for bad in (None, 5, "A4", object()):
        for orig, name in (
                (orig_to_akai_byte, "to_akai_byte"),
                (orig_to_midi_byte, "to_midi_byte")):
            n += 1
            a = outcome(orig, bad)
            b = outcome(getattr(MidiNote, name), bad)
            if a[:2] != b[:2] or (a[0] == "raised" and a != b):
                problems.append(f"{tag} MidiNote.{name}({bad!r}): {a!r} vs {b!r}")

    # round trips
    for byte_in in range(0, 256):
        n += 1
        if MidiNote.from_midi_byte(byte_in).to_midi_byte() != byte_in:
            problems.append(f"{tag} midi round trip {byte_in}")
        if MidiNote.from_akai_byte(byte_in).to_akai_byte() != byte_in:
            problems.append(f"{tag} akai round trip {byte_in}")
    return n


def expected_smpl_chunk(rate, root, semi, cents, loops):
    comb = 50 * semi + cents
    note = root + comb // 100
    fraction = int(round((comb % 100) * (float(2 ** 31) / 50)))
    period = round(10 ** 9 / (rate or 44100))
    head = struct.pack(
        "<9I", 0, 0, period, note, fraction, 0, 0, len(loops), 0
    )
    body = b"".join(
        struct.pack("<6I", i, 0, start, end, 0, 0)
        for i, (start, end) in enumerate(loops)
    )
    return head + body


def sweep_smpl_chunk(problems):
    n = 0
    roots = list(range(21, 128))
    semis = list(range(-50, 51, 5)) + [-1, 1, 49, -49]
    centses = [-128, -127, -100, -51, -50, -49, -1, 0, 1, 49, 50, 51, 99, 100, 127]
    loops = [(0, 10), (3, 4)]
    for root, semi, cents in itertools.product(roots, semis, centses):
        comb = 50 * semi + cents
        target = root + comb // 100
        if target < 21:
            continue  # from_int_a0 has no negative octaves in Int32ul anyway
        n += 1
        sample = Sample(
            name="s",
            sample_rate=(0 if root % 7 == 0 else 22050),
            midi_note=MidiNote.from_midi_byte(root),
            pitch_offset_semi=semi,
            pitch_offset_cents=cents,
            loop_regions=[LoopRegion(a, b) for a, b in loops],
        )
        try:
            got = WavSampleChunkStruct.build(get_smpl_chunk_data(sample))
        except Exception as e:  # same for both trees: compare to expectation
            got = ("raised", type(e).__name__)
        want = expected_smpl_chunk(sample.sample_rate, root, semi, cents, loops)
        if got != want:
            problems.append(
                f"smpl chunk root={root} semi={semi} cents={cents}: "
                f"{got!r:.80} vs {want!r:.80}"
            )
        else:
            parsed = WavSampleChunkStruct.parse(got)
            if parsed.midi_note.to_midi_byte() != target \
                    or parsed.midi_note != MidiNote.from_midi_byte(target) \
                    or len(got) != 36 + 24 * parsed.sample_loop_cnt:
                problems.append(f"smpl parse root={root} semi={semi} cents={cents}")
    return n


def main():
    # np.uint8(20) - 21 and the like warn identically in both implementations
    warnings.simplefilter("ignore", RuntimeWarning)
    problems = []
    n = compare_all(problems, "default")
    with patch.object(midi, "MIDI_A0", 33), patch.object(midi, "AKAI_SAMPLE_A0", -4):
        n += compare_all(problems, "patched")
    n += sweep_smpl_chunk(problems)

    # class surface: the four public names are still (class)methods
    for name in ("from_akai_byte", "from_midi_byte"):
        if not isinstance(MidiNote.__dict__.get(name), classmethod):
            problems.append(f"{name} is no longer a classmethod")
    for name in ("to_akai_byte", "to_midi_byte", "to_int_a0"):
        if not callable(MidiNote.__dict__.get(name)):
            problems.append(f"{name} is no longer a plain method")

    print(f"{n} cases, {len(problems)} problems")
    for problem in problems[:20]:
        print("  " + problem)
    return 1 if problems else 0


if __name__ == "__main__":
    sys.exit(main())
