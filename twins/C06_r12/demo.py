"""Equivalence demo for Image.combine_stereo_routine (C06, r12).

The live method is compared against an inline copy of the ORIGINAL body on
many lists of samples (exhaustive small multisets over a stereo-heavy name
alphabet plus random ones, duplicates included).  combine_stereo is wrapped
so that the order and arguments of every call are logged; export_name reads
are logged as well.  Compared: the result list (which input object or which
combined sample sits at which position, with all of the combined sample's
observable fields), the call log, and exception type/message.
"""
import itertools
import random
import re
import sys
from typing import cast

import smpl_extract.structural as structural
from smpl_extract.generalized.sample import ChannelConfig
from smpl_extract.generalized.sample import Sample
from smpl_extract.structural import Image


_STEREO_FILENAME = re.compile(r"(.*?)([\s-]+)(L|R)\s*$")


# --------------------------------------------------------------------------
# ORIGINAL implementation (verbatim; combine_stereo looked up in the module
# so that the logging wrapper is used by both versions)
# --------------------------------------------------------------------------
def original_combine_stereo_routine(self, samples):
    sample_dict = {s.export_name: s for s in samples}
    marked = {n: False for n in sample_dict}
    result = []
    for sample in samples:

        result_sample = sample
        name = sample.export_name
        if marked[name]:
            continue

        match = self._STEREO_FILENAME.match(name)
        if match:
            alternate_ending = "R" if match.group(3) == "L" else "L"
            alternate_name = "".join((
                match.group(1),
                match.group(2),
                alternate_ending
            ))
            if alternate_name in sample_dict.keys():
                alternate_sample = sample_dict[alternate_name]
                alternate_sample = cast(Sample, alternate_sample)
                if alternate_ending == "R":
                    pairs = [sample, alternate_sample]
                else:
                    pairs = [alternate_sample, sample]

                new_name = match.group(1)
                result_sample = structural.combine_stereo(pairs[0], pairs[1], new_name)
                marked[alternate_name] = True

        result.append(result_sample)
        marked[name] = True

    return result


LOG = []


class LoggedSample(Sample):
    """Sample whose export_name reads are logged (tag = position in input)."""
    tag = None

    @property
    def export_name(self):
        value = Sample.export_name.fget(self)
        LOG.append(("read", self.tag, value))
        return value


class StrSub(str):
    pass


def build(spec):
    samples = []
    for idx, entry in enumerate(spec):
        if entry[0] == "raw":
            # export name falls back to the raw name
            sample = LoggedSample(name=entry[1], data_streams=[f"stream{idx}"])
        elif entry[0] == "sub":
            sample = LoggedSample(name="raw%d" % idx, _export_name=StrSub(entry[1]),
                                  data_streams=[f"stream{idx}"])
        elif entry[0] == "bad":
            sample = LoggedSample(name="raw%d" % idx, _export_name=entry[1],
                                  data_streams=[f"stream{idx}"])
        else:
            sample = LoggedSample(name="raw%d" % idx, _export_name=entry[1],
                                  _safe_name="safe%d" % idx, _path=["p", entry[1]],
                                  data_streams=[f"stream{idx}"])
        sample.tag = idx
        samples.append(sample)
    return samples


def describe(result, inputs):
    if not isinstance(result, list):
        return ("not-a-list", type(result).__name__)
    out = []
    for item in result:
        position = next((i for i, s in enumerate(inputs) if s is item), None)
        if position is not None:
            out.append(("input", position))
        else:
            out.append(("combined", type(item).__name__, item.name,
                        item._export_name, type(item._export_name).__name__,
                        item._safe_name, tuple(item._path), tuple(item.data_streams),
                        item.channel_config, item.num_channels))
    return out


def run(impl, spec, fail_on_call=None, container=list):
    del LOG[:]
    inputs = build(spec)
    samples = container(inputs)
    image = Image(lambda ctx: [])
    real_combine = structural.combine_stereo
    calls = [0]

    def logging_combine(left, right, new_name=None):
        calls[0] += 1
        LOG.append(("combine", left.tag, right.tag, new_name, type(new_name).__name__))
        if fail_on_call == calls[0]:
            raise RuntimeError("combine failed")
        return real_combine(left, right, new_name)

    structural.combine_stereo = logging_combine
    try:
        try:
            if impl == "live":
                value = image.combine_stereo_routine(samples)
            else:
                value = original_combine_stereo_routine(image, samples)
            ret = ("ok", describe(value, inputs), value is samples)
        except Exception as exc:  # noqa: BLE001
            ret = ("exc", type(exc).__name__, str(exc))
    finally:
        structural.combine_stereo = real_combine
    # inputs must be left untouched
    untouched = [(s.name, s._export_name, tuple(s.data_streams), s.channel_config,
                  s.num_channels) for s in inputs]
    return ret, list(LOG), untouched


def specs():
    alphabet = [
        "K -L", "K -R", "K-L", "K-R", "K L", "K R", "K -L ", "K  -  R", "K",
        "K (2) L", "K (2) R", "L", "R", " L", "-R", "K -l", "KL", "", "K -L -R",
        "K -R -L", "K\t-L", "K\n-R", "K - - L",
    ]
    small = ["K -L", "K -R", "K-R", "K", "K -L ", " L", "-R"]
    for size in range(0, 5):
        for combo in itertools.product(small, repeat=size):
            yield [("exp", n) for n in combo], None, list
    for a, b in itertools.product(alphabet, repeat=2):
        yield [("exp", a), ("exp", b)], None, list
        yield [("raw", a), ("exp", b)], None, tuple
        yield [("sub", a), ("sub", b)], None, list
    # failures inside combine_stereo, non-string names
    yield [("exp", "K -L"), ("exp", "K -R"), ("exp", "J-R"), ("exp", "J-L")], 1, list
    yield [("exp", "K -L"), ("exp", "K -R"), ("exp", "J-R"), ("exp", "J-L")], 2, list
    yield [("bad", 5), ("exp", "K -R")], None, list
    yield [("exp", "K -R"), ("bad", b"K -L")], None, list
    yield [("bad", ["unhashable"]), ("exp", "K -R")], None, list
    yield [("bad", ("K -L",)), ("exp", "K -R")], None, list
    rng = random.Random(1212)
    for _ in range(2500):
        size = rng.randrange(0, 10)
        pool = rng.sample(alphabet, rng.randrange(1, 7))
        spec = [(rng.choice(["exp", "exp", "exp", "raw", "sub"]), rng.choice(pool))
                for _ in range(size)]
        fail = rng.choice([None] * 9 + [1, 2])
        yield spec, fail, rng.choice([list, tuple])


def main():
    assert Image._STEREO_FILENAME.pattern == _STEREO_FILENAME.pattern
    assert Image._STEREO_FILENAME.flags == _STEREO_FILENAME.flags
    total = mismatches = combined = failures = 0
    for spec, fail, container in specs():
        total += 1
        live = run("live", spec, fail, container)
        orig = run("orig", spec, fail, container)
        if live[0][0] == "exc":
            failures += 1
        elif any(entry[0] == "combined" for entry in live[0][1]):
            combined += 1
        if live != orig:
            mismatches += 1
            if mismatches <= 5:
                print("MISMATCH", spec, fail)
                print("  live:", live)
                print("  orig:", orig)
    print(f"{total} specs ({combined} with stereo pairs, {failures} raising), "
          f"{mismatches} mismatches")
    return 1 if mismatches else 0


if __name__ == "__main__":
    sys.exit(main())
