"""Equivalence demo for r21 (smpl_extract/util/stream.py, StreamWrapper.seek).

StreamWrapper.seek is the seek of every stream the AKAI directory code works
on: the file table of a volume is a Segment (SectorStream -> StreamWrapper)
on which the skip-on-error loop of FileEntriesAdapter._parse calls
seek(0, SEEK_END) / seek(0, SEEK_SET) to size the table, is_table_end calls
seek(8, SEEK_CUR) / seek(original_address, SEEK_SET) to peek at the end flag,
and the except branch calls seek(entry_address + 24, SEEK_SET) to step over a
damaged entry; the file_stream of every entry is a StreamWrapper over such a
Segment, and the audio of a sample is a StreamOffset over that.

The refactoring (three idioms combined)
  * extracts the `whence` -> starting position decision into a new private
    method _seek_origin (if / elif assignments become an early return and a
    conditional expression, tested in the same order),
  * replaces the if / elif clamp by `upper if target > upper else
    max(target, 0)` (upper bound still tested first, so a negative
    end_of_file still wins),
  * renames the locals (starting_position + new_position -> target).

An inline copy of the ORIGINAL method is compared with the live one.

 A. unit level: StreamWrapper, StreamOffset, StreamReversed, SectorStream,
    FileStream and Segment objects whose seek is the inline original versus
    identical objects with the live seek, over a grid of size / position /
    offset / whence values (negative and zero sizes, positions outside the
    stream, whence values other than 0, 1, 2, bool, float, None and str
    arguments).  Compared: return value and type, exception type and text,
    position, true_size, the trace of seek/read/tell on the substream, and the
    result of a read that follows.
 B. random sequences of seek / read / tell / readall on both.
 C. end to end: synthetic AKAI partitions with the damage of property C14
    listed once with the original method patched into the class and once with
    the live one.  Compared: entries, files, paths, audio bytes, errors and the
    trace of every seek/read/tell on the image stream.

Exit 0 when everything agrees, 1 otherwise.
"""
from io import SEEK_CUR
from io import SEEK_END
from io import SEEK_SET

import smpl_extract.util.stream as stream_mod
from smpl_extract.akai.sat import Segment
from smpl_extract.util.fat import FileStream
from smpl_extract.util.sector import SectorStream
from smpl_extract.util.stream import StreamReversed
from smpl_extract.util.stream import StreamWrapper


# ---------------------------------------------------------------- original
def orig_seek(self, offset: int, whence: int = SEEK_CUR):
    starting_position = 0
    if whence == SEEK_CUR:
        starting_position = self.position
    elif whence == SEEK_END:
        starting_position = self.end_of_file

    new_position = starting_position + offset
    if new_position > self.end_of_file:
        new_position = self.end_of_file
    elif new_position < 0:
        new_position = 0

    self.true_size = 0
    self._seek(new_position)
    self.position = new_position
    return new_position


# arity errors quote the qualified name of the function
orig_seek.__qualname__ = "StreamWrapper.seek"

LIVE = StreamWrapper.__dict__["seek"]
IMPLS = (orig_seek, LIVE)


class patched:
    def __init__(self, fn):
        self.fn = fn

    def __enter__(self):
        StreamWrapper.seek = self.fn

    def __exit__(self, *exc):
        StreamWrapper.seek = LIVE
        return False


def both(fn, *args, **kw):
    out = []
    for impl in IMPLS:
        with patched(impl):
            out.append(fn(*args, **kw))
    return out

# ------------------------------------------------------------ shared harness
# (synthetic AKAI partitions, damaged the way property C14 damages them, and a
# traced listing of their volumes)
import io
import random
import struct
import sys

from construct.core import Int16ul
from construct.core import Struct
from construct.expr import this

from smpl_extract.akai.akai_string import char_ascii_to_akai
from smpl_extract.akai.data_types import AKAI_PARTITION_MAGIC
from smpl_extract.akai.data_types import AKAI_SAT_ENTRY_CNT
from smpl_extract.akai.data_types import AKAI_VOLUME_ENTRY_CNT
from smpl_extract.akai.file_entry import FileEntriesAdapter
from smpl_extract.akai.file_entry import FileEntryConstruct
from smpl_extract.akai.partition import PartitionHeaderConstruct
from smpl_extract.akai.sat import SegmentAllocationTable
from smpl_extract.akai.sat import SegmentAllocationTableAdapter
from smpl_extract.akai.volume import Volume
from smpl_extract.akai.volume import VolumeEntryConstruct
from smpl_extract.util.stream import StreamOffset

failures = []
checked = 0


def check(cond, msg):
    global checked
    checked += 1
    if not cond:
        failures.append(msg)


def outcome(fn, *args, **kw):
    """('ok', type, value) or ('raise', type, text, cause type, context type)."""
    try:
        value = fn(*args, **kw)
    except BaseException as e:  # noqa: B902
        return ("raise", type(e), str(e).split("\n")[0],
                type(e.__cause__), type(e.__context__))
    return ("ok", type(value), value)


SECT = 0x2000
PREAMBLE_HDR_LEN = 2 + 2 + len(AKAI_PARTITION_MAGIC) + 4
PREAMBLE_LEN = PREAMBLE_HDR_LEN + 16 * AKAI_VOLUME_ENTRY_CNT + 2 * AKAI_SAT_ENTRY_CNT

HeaderSatParser = Struct(
    "header" / PartitionHeaderConstruct,
    "volume_entries_raw" / Int16ul[8 * AKAI_VOLUME_ENTRY_CNT],
    "sat" / SegmentAllocationTableAdapter(
        this.header.partition_stream,
        Int16ul[AKAI_SAT_ENTRY_CNT]  # type: ignore
    ),
)


def akai_name(text):
    return bytes(char_ascii_to_akai(text.ljust(12)[:12]))


def record(name, ftype, size, start, pad1=b"\0" * 4, pad2=b"\0\0"):
    return (
        akai_name(name) + pad1 + bytes([ftype]) + size.to_bytes(3, "little")
        + struct.pack("<H", start) + pad2
    )


def make_sample(name, n_words, seed, sample_id=3, loop_type=2, rate=44100):
    """an AKAI sample file: 140 byte header + n_words 16 bit words."""
    rng = random.Random(seed)
    hdr = bytearray(140)
    hdr[0] = sample_id
    hdr[2] = 60
    hdr[3:15] = akai_name(name)
    hdr[19] = loop_type
    hdr[26:30] = struct.pack("<I", n_words)
    hdr[30:34] = struct.pack("<I", 0)
    hdr[34:38] = struct.pack("<I", n_words)
    hdr[138:140] = struct.pack("<H", rate)
    return bytes(hdr) + bytes(rng.getrandbits(8) for _ in range(2 * n_words))


def make_partition(size, volumes):
    """volumes: list of (name, type, [(fname, ftype, data)])."""
    buf = bytearray(size * SECT)
    hdr = (
        struct.pack("<H", size)
        + b"\x00\x00" + AKAI_PARTITION_MAGIC + b"\x55\xba\x2f\x00"
    )
    buf[:len(hdr)] = hdr
    sat = [0] * AKAI_SAT_ENTRY_CNT
    sat[0] = sat[1] = sat[2] = 0x4000
    next_sector = 3
    vol_entries = b""
    for vname, vtype, files in volumes:
        vsect = next_sector
        next_sector += 1
        sat[vsect] = 0xC000
        vol_entries += akai_name(vname) + struct.pack("<HH", vtype, vsect)
        table = b""
        for fname, ftype, data in files:
            nsect = max(1, -(-len(data) // SECT))
            start = next_sector
            for k in range(nsect):
                sat[start + k] = start + k + 1 if k < nsect - 1 else 0xC000
            next_sector += nsect
            buf[start * SECT:start * SECT + len(data)] = data
            table += record(fname, ftype, len(data), start)
        table += b"\x00" * 8 + struct.pack("<H", 0xD747) + b"\x00" * 14
        buf[vsect * SECT:vsect * SECT + len(table)] = table
    assert next_sector <= max(size, 3)
    off = len(hdr)
    buf[off:off + len(vol_entries)] = vol_entries
    off = len(hdr) + 16 * AKAI_VOLUME_ENTRY_CNT
    buf[off:off + 2 * AKAI_SAT_ENTRY_CNT] = struct.pack(
        f"<{AKAI_SAT_ENTRY_CNT}H", *sat
    )
    return bytes(buf)


class TracingFile(io.BytesIO):

    def __init__(self, data):
        super().__init__(data)
        self.trace = []

    def tell(self):
        pos = super().tell()
        self.trace.append(("tell", pos))
        return pos

    def seek(self, *args):
        pos = super().seek(*args)
        self.trace.append(("seek", args, pos))
        return pos

    def read(self, *args):
        data = super().read(*args)
        self.trace.append(("read", args, len(data)))
        return data


class VolParent:
    path = ["IMG", "A:"]


_sat_cache = {}


def load_image(data):
    """header and SAT are decoded once per distinct header+SAT (the SAT decoder
    is slow); the SAT object of an image is rebuilt around that image's own
    traced stream the way the partition parser builds it (StreamOffset over
    the file, offset 0)."""
    vol_off = PREAMBLE_HDR_LEN
    key = bytes(data[:vol_off]) + bytes(data[vol_off + 16 * AKAI_VOLUME_ENTRY_CNT:PREAMBLE_LEN])
    if key not in _sat_cache:
        try:
            pre = HeaderSatParser.parse_stream(io.BytesIO(data))
        except BaseException as e:  # noqa: B902
            _sat_cache[key] = ("preamble-raise", type(e), str(e))
        else:
            _sat_cache[key] = (
                "ok", pre.header.total_size, pre.sat.size, pre.sat.sector_links
            )
    cached = _sat_cache[key]
    if cached[0] == "preamble-raise":
        return cached
    f = TracingFile(data)
    partition_stream = StreamOffset(f, cached[1], offset=0)
    sat = SegmentAllocationTable(partition_stream, cached[2], cached[3])
    return (f, sat)


def describe_file(f):
    item = [type(f).__name__, getattr(f, "name", None), list(getattr(f, "path", []))]
    for attr in ("sample_type", "sample_rate", "samples_cnt", "start", "end",
                 "loop_type", "note_pitch"):
        if hasattr(f, attr):
            item.append((attr, str(getattr(f, attr))))
    stream = getattr(f, "_data_stream", None)
    if stream is not None:
        try:
            stream.seek(0, 0)
            item.append(stream.read(6000))
            item.append(stream.tell())
        except BaseException as e:  # noqa: B902
            item.append(("data-raise", type(e), str(e)))
    return item


def describe_entries(entries):
    out = []
    for entry in entries:
        item = [type(entry).__name__, entry.name, str(entry.file_type),
                int(entry.file_type), type(entry.file_type).__name__]
        try:
            f = entry.file
        except BaseException as e:  # noqa: B902
            item.append(("file-raise", type(e), str(e).split("\n")[0],
                         type(e.__cause__), type(e.__context__)))
            out.append(item)
            continue
        item.append(describe_file(f))
        out.append(item)
    return out


def run_image(loaded, volume_starts):
    """what `ls` + export see: the volume table, then for each volume the file
    table entries, the Volume.files list (lazy per-file parse with error
    swallowing) and the first bytes of every file's audio."""
    if loaded[0] == "preamble-raise":
        return loaded
    f, sat = loaded
    f.seek(0)
    f.trace.clear()
    out = []
    parent = VolParent()
    f.trace.append(("--- volume table",))
    f.seek(PREAMBLE_HDR_LEN)
    for slot in range(4):
        try:
            v = VolumeEntryConstruct.parse_stream(f)
            out.append(("volume", v.name, str(v.type), v.start))
        except BaseException as e:  # noqa: B902
            out.append(("volume-raise", type(e), str(e).split("\n")[0]))
            f.seek(PREAMBLE_HDR_LEN + 16 * (slot + 1))
    for start in volume_starts:
        f.trace.append(("--- volume", start))
        try:
            table_stream = sat.get_segment(start)
            volume = Volume(name=f"V{start}", parent=parent,
                            path=parent.path + [f"V{start}"], routines={})
            adapter = FileEntriesAdapter(sat, FileEntryConstruct)
            entries = adapter.parse_stream(
                table_stream, _elem_parent=volume, _elem_routines={}
            )
            out.append(("ok", type(entries), describe_entries(entries)))
            volume.file_entries = entries
            files = volume.files
            out.append(("files", [describe_file(x) for x in files]))
        except BaseException as e:  # noqa: B902
            out.append(("table-raise", type(e), str(e).split("\n")[0]))
    return ("ok", out, list(f.trace))


def standard_images(seed, dense=True):
    """the good image plus single-byte and multi-byte damage confined to one
    file table entry (property C14), plus truncations."""
    rng = random.Random(seed)
    s1 = make_sample("SAMPLE A", 100, 1, sample_id=1)
    s2 = make_sample("SAMPLE B", 10000, 2)
    s3 = make_sample("THIRD", 32, 3, loop_type=0)
    volumes = [
        ("VOL ONE", 1, [("SAMPLE A", 0x73, s1), ("SAMPLE B", 0xF3, s2),
                        ("THIRD", 0x73, s3), ("FOURTH.-+#9", 0xF3, s1),
                        ("DRUMS", 0x64, b"\x01" * 40)]),
        ("SECOND", 3, [("X", 0x73, s3)]),
        ("EMPTY", 1, []),
    ]
    good = make_partition(16, volumes)
    images = [("good", good), ("truncated-body", good[:6 * SECT]),
              ("truncated-table", good[:3 * SECT + 30])]
    ft = 3 * SECT
    # entry 1: type byte, the three size bytes, the two start bytes: every value
    for field_off in (16, 17, 18, 19, 20, 21):
        values = range(256) if dense or field_off == 16 else range(0, 256, 5)
        for value in values:
            d = bytearray(good)
            d[ft + 1 * 24 + field_off] = value
            images.append((f"file[1]+{field_off}={value:#x}", bytes(d)))
    # every byte of entries 0, 2 and of the end marker slot, a few values
    for entry in (0, 2, 5):
        for field_off in range(24):
            for value in (0x00, 0x0A, 0x29, 0x47, 0x64, 0x71, 0xD7, 0xFF):
                d = bytearray(good)
                d[ft + entry * 24 + field_off] = value
                images.append((f"file[{entry}]+{field_off}={value:#x}", bytes(d)))
    for _ in range(150 if dense else 60):
        d = bytearray(good)
        base = ft + rng.randrange(0, 6) * 24
        for _ in range(rng.randrange(2, 8)):
            d[base + rng.randrange(24)] = rng.getrandbits(8)
        images.append(("random-entry-damage", bytes(d)))
    # damage inside the files themselves (headers of the samples)
    for _ in range(100 if dense else 40):
        d = bytearray(good)
        base = rng.choice([4, 5, 8, 9, 10, 12]) * SECT
        for _ in range(rng.randrange(1, 5)):
            d[base + rng.randrange(0, 40)] = rng.getrandbits(8)
        images.append(("file-header-damage", bytes(d)))
    return good, images, (s1, s2, s3)


STARTS = (3, 11, 13, 4000)
MORE_STARTS = STARTS + (2, 15)


def finish():
    print(f"{checked} checks, {len(failures)} failures")
    for msg in failures[:15]:
        print("FAIL:", msg[:600])
    return 1 if failures else 0

# ---------------------------------------------------------------- part A
DATA = bytes(range(256)) * 4


def factories():
    """(label, make(kind_seek, substream, size, position))"""

    def sub(base, seek_fn):
        if seek_fn is LIVE:
            return type("Live" + base.__name__, (base,), {})
        return type("Orig" + base.__name__, (base,), {"seek": seek_fn})

    def wrapper(seek_fn, f, size, position):
        return sub(StreamWrapper, seek_fn)(f, size, position=position, buffer_length=16)

    def offset(seek_fn, f, size, position):
        return sub(stream_mod.StreamOffset, seek_fn)(f, size, 33, position=position)

    def reversed1(seek_fn, f, size, position):
        return sub(StreamReversed, seek_fn)(f, size, 1, position=position)

    def reversed2(seek_fn, f, size, position):
        return sub(StreamReversed, seek_fn)(f, size, 2, position=position)

    def sector(seek_fn, f, size, position):
        return sub(SectorStream, seek_fn)(f, size, 16, position=position)

    def filestream(seek_fn, f, size, position):
        return sub(FileStream, seek_fn)(f, 16, [5, 2, 9, 1], position=position)

    def segment(seek_fn, f, size, position):
        return sub(Segment, seek_fn)(f, [0], position=position)

    def nested(seek_fn, f, size, position):
        inner = sub(SectorStream, seek_fn)(f, 512, 16)
        return sub(StreamWrapper, seek_fn)(inner, size, position=position)

    return [("wrapper", wrapper), ("offset", offset), ("reversed1", reversed1),
            ("reversed2", reversed2), ("sector", sector), ("filestream", filestream),
            ("segment", segment), ("nested", nested)]


def state(obj):
    return (obj.position, obj.true_size, obj.end_of_file)


def seek_case(make, seek_fn, size, position, args):
    f = TracingFile(DATA)
    obj = make(seek_fn, f, size, position)
    if size == "none":
        obj.end_of_file = None
    res = [outcome(obj.seek, *args), state(obj)]
    res.append(outcome(obj.tell))
    res.append(outcome(obj.read, 5))
    res.append(state(obj))
    res.append(outcome(obj.seek, -2))          # default whence
    res.append(state(obj))
    res.append(list(f.trace))
    return res


def part_a():
    sizes = (-5, 0, 1, 7, 100)
    positions = (-3, 0, 1, 6, 7, 50, 100, 150)
    offsets = (-1000, -101, -100, -99, -8, -7, -6, -1, 0, 1, 5, 6, 7, 8, 49, 50,
               99, 100, 101, 1000)
    whences = (SEEK_SET, SEEK_CUR, SEEK_END, 3, -1)
    n = 0
    for label, make in factories():
        for size in sizes:
            for position in positions:
                for offset in offsets:
                    for whence in whences:
                        a = seek_case(make, orig_seek, size, position, (offset, whence))
                        b = seek_case(make, LIVE, size, position, (offset, whence))
                        check(a == b, f"A {label} size={size} pos={position} "
                              f"seek({offset},{whence}): {a} != {b}")
                        n += 1
        # odd argument types
        odd = [(True, 0), (False, 1), (3, True), (3, False), (3, 2.0), (3, 1.0),
               (2.5, 0), (-2.5, 1), (float("inf"), 0), (float("-inf"), 2),
               (None, 0), ("x", 1), (3, None), (3, "end"), (3,), (), (1, 2, 3),
               (10 ** 30, 0), (-10 ** 30, 2)]
        for size in (7, 100, -5, "none"):
            for position in (0, 4, 200):
                for args in odd:
                    a = seek_case(make, orig_seek, size, position, args)
                    b = seek_case(make, LIVE, size, position, args)
                    check(a == b, f"A-odd {label} size={size} pos={position} "
                          f"seek{args}: {a} != {b}")
    # nan compares unequal to itself: compare the repr
    for label, make in factories()[:2]:
        for whence in (0, 1, 2):
            a = repr(seek_case(make, orig_seek, 50, 3, (float("nan"), whence)))
            b = repr(seek_case(make, LIVE, 50, 3, (float("nan"), whence)))
            check(a == b, f"A-nan {label} {whence}: {a} != {b}")

    # expectations, independent of the inline copy
    w = StreamWrapper(io.BytesIO(DATA), 100)
    check(w.seek(10, SEEK_SET) == 10 and w.tell() == 10, "seek set")
    check(w.seek(5) == 15, "default whence is SEEK_CUR")
    check(w.seek(-3, SEEK_END) == 97, "seek end")
    check(w.seek(500, SEEK_SET) == 100, "clamped to the end")
    check(w.seek(-500, SEEK_CUR) == 0, "clamped to zero")
    check(w.seek(7, 3) == 7, "unknown whence counts from zero")
    w = StreamWrapper(io.BytesIO(DATA), -5)
    res = outcome(w.seek, 0, SEEK_SET)   # clamped to -5, refused by BytesIO
    check(res[:2] == ("raise", ValueError) and w.seek(-9, SEEK_SET) == 0,
          f"negative size: upper bound tested first: {res}")
    return n


# ---------------------------------------------------------------- part B
def run_sequence(make, seek_fn, size, ops):
    f = TracingFile(DATA)
    obj = make(seek_fn, f, size, 0)
    log = []
    for op in ops:
        if op[0] == "seek":
            log.append(outcome(obj.seek, *op[1]))
        elif op[0] == "read":
            log.append(outcome(obj.read, op[1]))
        elif op[0] == "tell":
            log.append(outcome(obj.tell))
        else:
            log.append(outcome(obj.readall))
        log.append(state(obj))
    return log, list(f.trace)


def part_b():
    rng = random.Random(0x21)
    for label, make in factories():
        for _ in range(120):
            size = rng.choice((0, 1, 16, 17, 40, 64, 100))
            ops = []
            for _ in range(rng.randrange(3, 14)):
                kind = rng.choice(("seek", "seek", "seek", "read", "tell", "readall"))
                if kind == "seek":
                    args = (rng.randrange(-120, 120),)
                    if rng.random() < 0.8:
                        args += (rng.choice((0, 1, 2, 2, 0, 7)),)
                    ops.append(("seek", args))
                elif kind == "read":
                    ops.append(("read", rng.choice((0, 1, 2, 5, 16, 33, -1, None))))
                else:
                    ops.append((kind,))
            a = run_sequence(make, orig_seek, size, ops)
            b = run_sequence(make, LIVE, size, ops)
            check(a == b, f"B {label} size={size} ops={ops}: {a} != {b}")


# ---------------------------------------------------------------- part C
def part_c():
    good, images, (s1, s2, s3) = standard_images(0x21C, dense=False)
    for label, data in images:
        loaded = load_image(data)
        which = MORE_STARTS if label in ("good", "truncated-body") else STARTS
        a, b = both(run_image, loaded, which)
        check(a == b, f"image mismatch {label}: {str(a)[:500]} != {str(b)[:500]}")

    res = run_image(load_image(good), (3, 11, 13))
    check(res[0] == "ok", f"good image lists: {str(res)[:300]}")
    if res[0] == "ok":
        tables = [v for v in res[1] if v[0] == "ok"]
        names = [[e[1] for e in v[2]] for v in tables]
        check(names == [["SAMPLE A", "SAMPLE B", "THIRD", "FOURTH.-+#9", "DRUMS"],
                        ["X"], []], f"entry names {names}")
        files = [v for v in res[1] if v[0] == "files"]
        check([x[1] for x in files[0][1]] == ["SAMPLE A", "SAMPLE B", "THIRD", "FOURTH.-+#9"],
              f"files {str(files[0])[:200]}")
        check(files[0][1][0][-2] == s1[140:], "sample A audio bytes")
        check(files[0][1][1][-2] == s2[140:140 + 6000], "sample B audio bytes")
    d = bytearray(good)
    d[3 * SECT + 24 + 16] = 0x99      # unknown file type in entry 1
    res = run_image(load_image(bytes(d)), (3,))
    tables = [v for v in res[1] if v[0] == "ok"]
    check([e[1] for e in tables[0][2]] == ["SAMPLE A", "THIRD", "FOURTH.-+#9", "DRUMS"],
          f"an unknown type byte drops only that entry: {str(tables)[:300]}")


def main():
    check(StreamWrapper.__dict__["seek"] is LIVE, "setup")
    n = part_a()
    part_b()
    part_c()
    check(StreamWrapper.__dict__["seek"] is LIVE, "class restored")
    print(f"part A grid cases: {n}")
    return finish()


if __name__ == "__main__":
    sys.exit(main())
