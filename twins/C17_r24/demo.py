"""Equivalence demo for the refactoring of the ASCII text probe of
smpl_extract.actions.determine_image_type (property C17, mechanism "ASCII text
probe and fallback to binary"): the text probe and the cue-sheet attempt moved
into the new private function _attempt_cue_sheet_file(filename), written with
guard clauses (`except BadTextFile: return _NOT_A_CUE_SHEET`, `except
BadCueSheet: return _NOT_A_CUE_SHEET`) instead of the is_textfile flag, where
_NOT_A_CUE_SHEET is a private module-level sentinel object; the caller returns
the helper's answer unless it is the sentinel, and the `if ...: file_stream =
open(file, "rb") else: file_stream = file` became one conditional expression
on the remembered isinstance() answer.

The live function is compared with an inline copy of the ORIGINAL function.
Both run against the same module globals of smpl_extract.actions, in which
`open`, `parse_text_file`, `attempt_parse_cue_sheet`, the three probes, the
two container openers and the two image parsers are replaced by recorders, so
that for every scenario we compare
  * the ordered trace of collaborator calls with their arguments,
  * the returned object (also when the cue-sheet attempt answers None or
    another falsy value),
  * the raised exception (type, args, cause/context types, suppress flag),
over all combinations of: argument is a path (plain str, empty str, str
subclass, object whose __class__ claims to be str - os.path.dirname rejects
it) / is not a str (stream token, bytes, bytearray, None, int, pathlib.Path,
os.PathLike, tuple, the str type itself); the text probe fails with
BadTextFile (or a subclass) / something else, the cue-sheet attempt succeeds /
raises BadCueSheet (or a subclass) / raises something else (BadTextFile and
KeyboardInterrupt included); each probe answers with various truthy / falsy
values or raises; `open`, the openers / parsers raise.
Then, without any recorders, determine_image_type is run end to end on real
files created in a fresh temporary directory (plain binary, MDF container, MDX
container, ASCII text that is not a cue sheet, non-ASCII file, cue sheet with
a data track, cue sheet with audio tracks; given as path and as open stream)
and compared with precomputed expectations that do not depend on the
refactoring.
Exit status 0 when everything agrees, 1 otherwise.
"""
import contextlib
import io
import itertools
import os
import pathlib
import shutil
import sys
import tempfile

import smpl_extract.actions as live
from smpl_extract.actions import BadTextFile
from smpl_extract.cuesheet import BadCueSheet


# ---- inline copy of the ORIGINAL implementation --------------------------
ORIGINAL_SRC = '''
def determine_image_type(file: Union[str, BufferedReader]):
    if isinstance(file, str):
        is_textfile = True
        lines = []
        try:
            lines = parse_text_file(file)
        except BadTextFile:
            is_textfile = False

        if is_textfile:
            parent_directory = os.path.dirname(file)
            try:
                result = attempt_parse_cue_sheet(lines, parent_directory)
                return result
            except BadCueSheet:
                pass

        file_stream = open(file, "rb")
    else:
        file_stream = file

    if is_mdf_image(file_stream):
        file_stream = MdfStream(file_stream)
    elif is_mdx_image(file_stream):
        file_stream = MdxStream(file_stream)

    if is_roland_s7xx_image(file_stream):
        result = RolandSxxImageParser(file_stream)
    else:
        result = AkaiImageParser(file_stream)
    return result
'''


class _OverlayGlobals(dict):
    """Globals for the original function: its own def, else the live module's
    current globals (so that both functions see the same recorders)."""

    def __missing__(self, key):
        return live.__dict__[key]


_original_namespace = _OverlayGlobals()
_original_namespace["__builtins__"] = __builtins__
exec(compile(ORIGINAL_SRC, "<original actions.py>", "exec"), _original_namespace)
original_determine_image_type = _original_namespace["determine_image_type"]
# ---------------------------------------------------------------------------

failures = []
n_checks = 0


def check(what, a, b):
    global n_checks
    n_checks += 1
    if a != b:
        failures.append(what)
        if len(failures) <= 20:
            print("MISMATCH", what, "\n   expected:", repr(a)[:400],
                  "\n   got:     ", repr(b)[:400])


class Boom(Exception):
    pass


RAISE = "raise"
_MISSING = object()
STUBBED = ("open", "parse_text_file", "attempt_parse_cue_sheet",
           "is_mdf_image", "is_mdx_image", "is_roland_s7xx_image",
           "MdfStream", "MdxStream", "RolandSxxImageParser", "AkaiImageParser")


class Token:
    """stands for a stream / wrapped stream / image; identity is its label"""

    def __init__(self, label):
        self.label = label

    def __repr__(self):
        return "<%s>" % self.label


class Scenario:
    def __init__(self, **behaviour):
        self.behaviour = behaviour
        self.events = []

    def label(self, value):
        if isinstance(value, Token):
            return value.label
        return repr(value)

    def stub(self, name):
        def call(*args, **kwargs):
            self.events.append((name, tuple(self.label(a) for a in args),
                                tuple(sorted((k, self.label(v))
                                             for k, v in kwargs.items()))))
            how = self.behaviour.get(name, _MISSING)
            if how is RAISE:
                raise Boom(name)
            if isinstance(how, BaseException):
                raise how
            if name in ("open", "MdfStream", "MdxStream",
                        "RolandSxxImageParser", "AkaiImageParser"):
                return Token("%s(%s)" % (name, ", ".join(self.label(a) for a in args)))
            if how is _MISSING:
                raise AssertionError("no behaviour for " + name)
            return how
        return call


@contextlib.contextmanager
def stubbed(scenario):
    saved = {name: live.__dict__.get(name, _MISSING) for name in STUBBED}
    for name in STUBBED:
        live.__dict__[name] = scenario.stub(name)
    try:
        yield
    finally:
        for name, value in saved.items():
            if value is _MISSING:
                del live.__dict__[name]
            else:
                live.__dict__[name] = value


def run(function, argument, behaviour):
    scenario = Scenario(**behaviour)
    with stubbed(scenario):
        try:
            value = function(argument)
            outcome = ("ok", scenario.label(value))
        except BaseException as e:     # noqa - compare whatever is raised
            outcome = ("raise", type(e).__name__, tuple(str(a) for a in e.args),
                       type(e.__cause__).__name__, type(e.__context__).__name__,
                       e.__suppress_context__)
    return outcome, tuple(scenario.events)


class Truthy:
    def __bool__(self):
        return True


class Falsy:
    def __bool__(self):
        return False


class NoBool:
    def __bool__(self):
        raise Boom("bool")

    def __repr__(self):
        return "NoBool()"


PROBE_ANSWERS = (True, False, RAISE)
ODD_ANSWERS = (1, 0, None, "", "yes", [], [0], NoBool())

TEXT_BEHAVIOURS = (
    {"parse_text_file": BadTextFile()},
    {"parse_text_file": RAISE},
    {"parse_text_file": FileNotFoundError(2, "No such file")},
    {"parse_text_file": ["x\n"], "attempt_parse_cue_sheet": BadCueSheet()},
    {"parse_text_file": [], "attempt_parse_cue_sheet": BadCueSheet("No FILE entry")},
    {"parse_text_file": ["x\n"], "attempt_parse_cue_sheet": RAISE},
    {"parse_text_file": ["x\n"], "attempt_parse_cue_sheet": Token("cue image")},
    {"parse_text_file": ["x\n"], "attempt_parse_cue_sheet": None},
    {"parse_text_file": ["x\n"], "attempt_parse_cue_sheet": BadTextFile()},
    {"parse_text_file": ["x\n"], "attempt_parse_cue_sheet": 0},
    {"parse_text_file": ["x\n"], "attempt_parse_cue_sheet": False},
    {"parse_text_file": None, "attempt_parse_cue_sheet": Token("image of None lines")},
)

n_scenarios = 0
seen_traces = set()


def compare(argument, behaviour):
    global n_scenarios
    n_scenarios += 1
    expected = run(original_determine_image_type, argument, behaviour)
    actual = run(live.determine_image_type, argument, behaviour)
    check("determine_image_type(%r) with %r" % (argument, behaviour),
          expected, actual)
    seen_traces.add(tuple(e[0] for e in expected[1]))


stream_argument = Token("caller's stream")


class PathString(str):
    """a str subclass is a path"""


class ClaimsToBeStr:
    """isinstance(x, str) is true through __class__, although type(x) is not str"""
    __class__ = str

    def __repr__(self):
        return "ClaimsToBeStr()"


class FsPath:
    def __fspath__(self):
        return "fs/path.img"

    def __repr__(self):
        return "FsPath()"


class BadCueSheetChild(BadCueSheet):
    pass


class BadTextFileChild(BadTextFile):
    pass


assert isinstance(ClaimsToBeStr(), str) and type(ClaimsToBeStr()) is not str
STR_ARGUMENTS = ("dir/sub/disc.cue", "", PathString("sub/other.cue"), ClaimsToBeStr())
NON_STR_ARGUMENTS = (stream_argument, b"bytes/path.img", bytearray(b"x"), None, 0,
                     pathlib.PurePosixPath("p/disc.cue"), FsPath(), ("disc.cue",),
                     str, ["disc.cue"])
DISPATCH_TEXT_BEHAVIOURS = TEXT_BEHAVIOURS + (
    {"parse_text_file": ["x\n"], "attempt_parse_cue_sheet": BadCueSheetChild("child")},
    {"parse_text_file": BadTextFileChild("child")},
    {"parse_text_file": ["x\n"], "attempt_parse_cue_sheet": KeyboardInterrupt()},
)
for mdf, mdx, roland in itertools.product((True, False), repeat=3):
    for failing in (None, "open", "AkaiImageParser"):
        tail = {"is_mdf_image": mdf, "is_mdx_image": mdx,
                "is_roland_s7xx_image": roland}
        if failing:
            tail[failing] = RAISE
        for argument in NON_STR_ARGUMENTS:
            compare(argument, tail)
            # a non-str argument never reaches the text probe: give the text
            # collaborators behaviours that would be noticed
            compare(argument, dict(tail, parse_text_file=RAISE,
                                   attempt_parse_cue_sheet=RAISE))
        for argument in STR_ARGUMENTS:
            for text in DISPATCH_TEXT_BEHAVIOURS:
                compare(argument, dict(tail, **text))
for mdf, mdx, roland in itertools.product(PROBE_ANSWERS, repeat=3):
    for failing in (None, "MdfStream", "MdxStream", "RolandSxxImageParser",
                    "AkaiImageParser", "open"):
        tail = {"is_mdf_image": mdf, "is_mdx_image": mdx,
                "is_roland_s7xx_image": roland}
        if failing:
            tail[failing] = RAISE
        # argument is a stream (also: bytes / None / int are "not a str")
        for argument in (stream_argument, b"bytes/path.img", None, 0):
            compare(argument, tail)
        # argument is a path
        for text in TEXT_BEHAVIOURS:
            for path in ("dir/sub/disc.cue", "disc.img", "", "/abs/x.cue"):
                behaviour = dict(tail)
                behaviour.update(text)
                compare(path, behaviour)

for mdf, mdx, roland in itertools.product(ODD_ANSWERS + (True, False), repeat=3):
    compare(stream_argument, {"is_mdf_image": mdf, "is_mdx_image": mdx,
                              "is_roland_s7xx_image": roland})
    compare("some/path.bin", {"parse_text_file": BadTextFile(),
                              "is_mdf_image": mdf, "is_mdx_image": mdx,
                              "is_roland_s7xx_image": roland})

# the demo itself must have driven every path of the tail
for needed in (("is_mdf_image", "MdfStream", "is_roland_s7xx_image", "RolandSxxImageParser"),
               ("is_mdf_image", "MdfStream", "is_roland_s7xx_image", "AkaiImageParser"),
               ("is_mdf_image", "is_mdx_image", "MdxStream", "is_roland_s7xx_image", "AkaiImageParser"),
               ("is_mdf_image", "is_mdx_image", "MdxStream", "is_roland_s7xx_image", "RolandSxxImageParser"),
               ("is_mdf_image", "is_mdx_image", "is_roland_s7xx_image", "AkaiImageParser"),
               ("is_mdf_image", "is_mdx_image", "is_roland_s7xx_image", "RolandSxxImageParser"),
               ("parse_text_file", "open", "is_mdf_image", "is_mdx_image",
                "is_roland_s7xx_image", "AkaiImageParser"),
               ("parse_text_file", "attempt_parse_cue_sheet"),
               ("parse_text_file", "attempt_parse_cue_sheet", "open", "is_mdf_image",
                "MdfStream", "is_roland_s7xx_image", "AkaiImageParser")):
    check("path covered %r" % (needed,), True, needed in seen_traces)


# ---- end to end on real files (no recorders) -------------------------------
def end_to_end(directory):
    from smpl_extract.alcohol.mdf import MDF_SECTOR_HEADER_MAGIC
    from smpl_extract.alcohol.mdx import MdxHeaderConstruct

    opened = []

    def path(name):
        return os.path.join(directory, name)

    # plain binary (not ASCII): the Akai parser on the raw file
    plain = bytes((i * 13 + 5) & 0xFF for i in range(5000)) + b"\xff\xfe"
    with open(path("plain.img"), "wb") as f:
        f.write(plain)

    # MDF container: 3 sectors of 2352 = 16 header + 2048 body + 288 footer
    bodies = [bytes((s * 31 + i) & 0xFF for i in range(2048)) for s in range(3)]
    with open(path("disc.mdf"), "wb") as f:
        for s, body in enumerate(bodies):
            f.write(MDF_SECTOR_HEADER_MAGIC + bytes([0, 2, s]) + b"\x01")
            f.write(body)
            f.write(b"\xee" * 288)

    # MDX container: header, then payload up to `eof`
    payload = bytes((i * 7 + 1) & 0xFF for i in range(3000))
    header_size = MdxHeaderConstruct.sizeof()
    header = MdxHeaderConstruct.build(dict(
        copyright=b"\xa9" + b" " * 25, eof=header_size + len(payload)))
    with open(path("disc.mdx"), "wb") as f:
        f.write(header + payload + b"trailing bytes beyond eof")

    # ASCII text that is not a cue sheet; non-ASCII text
    with open(path("notes.txt"), "w", encoding="ascii") as f:
        f.write("REM only remarks\nTRACK 01 AUDIO\n  INDEX 01 00:00:00\n")
    with open(path("latin.cue"), "wb") as f:
        f.write(b'FILE "plain.img" BINARY\nREM caf\xe9\nTRACK 01 AUDIO\n')

    # cue sheets (cosmetically disturbed) pointing at the containers / audio
    for name, target in (("data_mdf.cue", "disc.mdf"), ("data_mdx.cue", "disc.mdx"),
                         ("data_plain.cue", "plain.img")):
        with open(path(name), "w", encoding="ascii") as f:
            f.write('REM GENRE x\nPERFORMER "p"\n\n  file "%s" binary  \n'
                    '\n track 01 mode1/2352\n FLAGS DCP\n'
                    '   index 01 00:00:00\n' % target)
    with open(path("audio.bin"), "wb") as f:
        f.write(bytes(2352 * 20))
    with open(path("audio.cue"), "w", encoding="ascii") as f:
        f.write('FILE "audio.bin" BINARY\n  TRACK 01 AUDIO\n    TITLE "One"\n'
                '    INDEX 01 00:00:00\n  TRACK 02 audio\n    INDEX 01 00:00:10\n')

    def probe(argument):
        image = live.determine_image_type(argument)
        stream = getattr(image, "file", None)
        if stream is not None:
            opened.append(stream)
        content = None
        if stream is not None:
            stream.seek(0)
            content = stream.read(1 << 20)
        return type(image).__name__, type(stream).__name__, content

    mdf_content = b"".join(bodies)
    expectations = {
        "plain.img": ("AkaiImageParser", "BufferedReader", plain),
        "disc.mdf": ("AkaiImageParser", "MdfStream", mdf_content),
        "disc.mdx": ("AkaiImageParser", "StreamOffset", payload),
        "notes.txt": ("AkaiImageParser", "BufferedReader",
                      open(path("notes.txt"), "rb").read()),
        "latin.cue": ("AkaiImageParser", "BufferedReader",
                      open(path("latin.cue"), "rb").read()),
        "data_plain.cue": ("AkaiImageParser", "BufferedReader", plain),
        "data_mdf.cue": ("AkaiImageParser", "MdfStream", mdf_content),
        "data_mdx.cue": ("AkaiImageParser", "StreamOffset", payload),
    }
    for name, expected in expectations.items():
        check("end to end, path " + name, expected, probe(path(name)))
        if not name.endswith(".cue") and name != "notes.txt":
            with open(path(name), "rb") as f:
                check("end to end, stream " + name, expected, probe(f))
            # a stream that is not positioned at 0: probes restore the position
            # (MdxStream reads its header from the current position, so this
            # fails for the MDX file - before and after the refactoring alike)
            outcomes = []
            for function in (original_determine_image_type,
                             live.determine_image_type):
                with open(path(name), "rb") as f:
                    f.seek(7)
                    try:
                        image = function(f)
                        outcomes.append(("ok", type(image).__name__,
                                         type(image.file).__name__, f.tell()))
                    except Exception as e:      # noqa
                        outcomes.append(("raise", type(e).__name__, str(e), f.tell()))
            check("end to end, offset stream " + name, outcomes[0], outcomes[1])
            check("end to end, offset stream outcome " + name,
                  "raise" if name == "disc.mdx" else "ok", outcomes[1][0])
    image = live.determine_image_type(path("audio.cue"))
    check("end to end, audio cue", "CompactDiskAudioImage", type(image).__name__)
    check("end to end, audio cue titles", ["One", "Untitled Track 2"],
          [t.title for t in image.tracks])

    for bad in ("missing.img", ""):
        try:
            live.determine_image_type(path(bad) if bad else bad)
            outcome = "ok"
        except Exception as e:      # noqa
            outcome = type(e).__name__
        check("end to end, missing %r" % bad, "FileNotFoundError", outcome)
    try:
        live.determine_image_type(directory)
        outcome = "ok"
    except Exception as e:      # noqa
        outcome = type(e).__name__
    check("end to end, directory", "IsADirectoryError", outcome)

    for stream in opened:
        with contextlib.suppress(Exception):
            stream.close()


workdir = tempfile.mkdtemp(prefix="r24_demo_")
try:
    end_to_end(workdir)
finally:
    shutil.rmtree(workdir, ignore_errors=True)

print("%d scenarios, %d checks, %d mismatches"
      % (n_scenarios, n_checks, len(failures)))
sys.exit(1 if failures else 0)
