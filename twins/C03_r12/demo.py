"""Equivalence demo for r12: smpl_extract.transcoder.make_transcoder.

An inline copy of the ORIGINAL function is compiled with the globals of the
live smpl_extract.transcoder module.  For many random combinations of source
streams (1..3 streams; little/big endian; 1/2/4 byte samples; 0..3
interleaved channels; signed/unsigned; data lengths that are not a multiple
of the frame size; streams that are not rewound) and destination encodings
both versions are called on separate but identical inputs.  Compared:
  * the exception (type and message), or
  * the kind of transcoder returned, its configuration (which DataStream
    object, buffer size, process names), every chunk it yields until
    exhaustion, and the ordered seek/read/tell trace on each source stream.
CDDA tracks (StreamOffset windows over a bin, including a tail that is not
a whole number of 4-byte frames and windows past the end of the file) are
run through the same comparison and against the expected PCM; finally a
cue/bin pair is exported to WAV.
Exit 0 on full agreement, 1 otherwise.
"""
import io
import os
import random
import shutil
import sys
import tempfile

from smpl_extract import transcoder as transcoder_module
from smpl_extract.data_streams import DataStream
from smpl_extract.data_streams import Endianess
from smpl_extract.data_streams import StreamEncoding
from smpl_extract.transcoder import PassthroughTranscoder
from smpl_extract.transcoder import PipelineTranscoder
from smpl_extract.util.stream import StreamOffset


ORIGINAL_SOURCE = '''
def original_make_transcoder(data_streams, dest_encoding):

    # check for bad args
    if len(data_streams) <= 0:
        raise NoDataStream("No data streams given")

    total_num_channels = 0
    for data_stream in data_streams:
        num_channels = max(1, data_stream.encoding.num_interleaved_channels)
        total_num_channels += num_channels
    expected_num_channels = dest_encoding.num_interleaved_channels
    if total_num_channels != expected_num_channels:
        raise IncompatibleNumberOfChannels(
            f"Expected {expected_num_channels} fourd {total_num_channels}."
        )

    # begin
    for data_stream in data_streams:
        data_stream.stream.seek(0, SEEK_SET)
    buffer_sizes = get_buffer_sizes(data_streams)

    if len(data_streams) == 1 \\
            and data_streams[0].encoding == dest_encoding:
        result = PassthroughTranscoder(
            data_streams[0],
            buffer_size=buffer_sizes[0]
        )
        return result

    processes = []

    # is byteswap needed at input?
    swaps = list(
        x.encoding.endianess != system_byte_order
        for x in data_streams
        for _ in range(max(1, x.encoding.num_interleaved_channels))
    )
    if any(swaps):
        if all(swaps):
            processes.append(("swap_input_endianess", swap_endianess))
        else:
            processes.append((
                "swap_input_endianess_multi",
                lambda x: swap_endianess_multi(x, swaps)
            ))

    # is byte swap needed at output?
    if dest_encoding.endianess != system_byte_order:
        processes.append(("swap_output_endianess", swap_endianess))

    dest_dtype = dest_encoding.dtype

    f_decode_frame = lambda x: decode_frame(x, buffer_sizes=buffer_sizes)
    f_encode_frame = lambda x: encode_frame(x, dest_dtype=dest_dtype)
    pipeline = TranscodePipelineStruct(
        f_decode_frame,
        processes,
        f_encode_frame
    )

    result = PipelineTranscoder(data_streams, pipeline)
    return result
'''
_namespace = {}
exec(compile(ORIGINAL_SOURCE, "<original>", "exec"),
     transcoder_module.__dict__, _namespace)
original_make_transcoder = _namespace["original_make_transcoder"]


class RecordingStream(io.BytesIO):
    def __init__(self, data):
        super().__init__(data)
        self.log = []

    def seek(self, *args):
        result = super().seek(*args)
        self.log.append(("seek", args, result))
        return result

    def read(self, *args):
        result = super().read(*args)
        self.log.append(("read", args, len(result)))
        return result

    def tell(self):
        result = super().tell()
        self.log.append(("tell", result))
        return result


def innermost_log(stream):
    while not isinstance(stream, RecordingStream):
        stream = stream.substream
    return stream.log


def run(func, data_streams, dest_encoding, as_keyword=False):
    try:
        if as_keyword:
            result = func(data_streams, dest_encoding=dest_encoding)
        else:
            result = func(data_streams, dest_encoding)
    except Exception as e:
        return ("EXC", type(e).__name__, str(e))
    if isinstance(result, PassthroughTranscoder):
        config = (
            "passthrough",
            [k for k, s in enumerate(data_streams)
             if s is result.data_stream],
            result.buffer_size, type(result.buffer_size).__name__,
        )
    elif isinstance(result, PipelineTranscoder):
        config = (
            "pipeline", result.data_streams is data_streams,
            [name for name, _f in result.pipeline.processes],
        )
    else:
        config = (type(result).__name__,)
    chunks = []
    try:
        for chunk in result:
            chunks.append(chunk)
            if len(chunks) > 5000:
                chunks.append("RUNAWAY")
                break
        ending = "exhausted"
    except Exception as e:
        ending = ("EXC", type(e).__name__, str(e))
    logs = [list(innermost_log(s.stream)) for s in data_streams]
    return ("OK", config, chunks, ending, logs)


def random_encoding(rng, channels=None):
    return StreamEncoding(
        endianess=rng.choice([Endianess.LITTLE, Endianess.LITTLE,
                              Endianess.BIG]),
        sample_width=rng.choice([1, 2, 2, 2, 4]),
        num_interleaved_channels=(
            rng.choice([0, 1, 1, 2, 2, 3]) if channels is None else channels
        ),
        is_signed=rng.choice([True, True, False]),
    )


def build_inputs(rng_seed):
    """Deterministic description -> a fresh, independent set of inputs."""
    rng = random.Random(rng_seed)
    n_streams = rng.choice([1, 1, 1, 2, 2, 3])
    streams = []
    for _ in range(n_streams):
        encoding = random_encoding(rng)
        length = rng.choice([0, 1, 3, 4, 7, 64, 100, 4095, 4096, 4097, 9001,
                             rng.randint(0, 12000)])
        data = bytes(rng.getrandbits(8) for _ in range(length))
        raw = RecordingStream(data)
        style = rng.random()
        if style < 0.5:
            stream = raw
            if rng.random() < 0.5:
                io.BytesIO.seek(raw, rng.randint(0, length))
        else:
            offset = rng.randint(0, max(0, length // 2))
            size = rng.choice([length - offset, (length - offset) // 2,
                               length + 10, 0])
            stream = StreamOffset(raw, size, offset)
            if rng.random() < 0.5:
                stream.seek(rng.randint(0, 50), io.SEEK_SET)
                raw.log.clear()
        streams.append(DataStream(stream, encoding))
    total = sum(max(1, s.encoding.num_interleaved_channels) for s in streams)
    choice = rng.random()
    if choice < 0.35 and n_streams == 1:
        dest = streams[0].encoding          # passthrough (same object)
    elif choice < 0.5 and n_streams == 1:
        source = streams[0].encoding        # equal but distinct object
        dest = StreamEncoding(source.endianess, source.sample_width,
                              source.num_interleaved_channels,
                              source.is_signed)
    elif choice < 0.85:
        dest = random_encoding(rng, channels=total)
    else:
        dest = random_encoding(rng)
    container = rng.choice(["list", "list", "tuple"])
    if container == "tuple":
        streams = tuple(streams)
    return streams, dest


def random_cases(failures):
    count = 0
    kinds = {}
    for seed in range(3000):
        streams_a, dest_a = build_inputs(seed)
        streams_b, dest_b = build_inputs(seed)
        as_keyword = seed % 3 == 0
        expected = run(original_make_transcoder, streams_a, dest_a,
                       as_keyword)
        actual = run(transcoder_module.make_transcoder, streams_b, dest_b,
                     as_keyword)
        key = expected[1] if expected[0] == "EXC" else expected[1][0]
        kinds[key] = kinds.get(key, 0) + 1
        count += 1
        if expected != actual:
            failures.append(seed)
            print("MISMATCH seed", seed)
            print("   expected", str(expected)[:400])
            print("   actual  ", str(actual)[:400])
    return count, kinds


def odd_cases(failures):
    count = 0
    dest = StreamEncoding(Endianess.LITTLE, 2, 2, True)
    for label, factory in [
        ("empty list", lambda: []),
        ("empty tuple", lambda: ()),
        ("None", lambda: None),
        ("int", lambda: 3),
        ("list of None", lambda: [None]),
        ("no encoding", lambda: [object()]),
        ("dest None", lambda: [DataStream(RecordingStream(b"abcd"), dest)]),
    ]:
        for destination in (dest, None):
            expected = run(original_make_transcoder, factory(), destination) \
                if label not in ("list of None", "no encoding") \
                else run_only_call(original_make_transcoder, factory(),
                                   destination)
            actual = run(transcoder_module.make_transcoder, factory(),
                         destination) \
                if label not in ("list of None", "no encoding") \
                else run_only_call(transcoder_module.make_transcoder,
                                   factory(), destination)
            count += 1
            if expected != actual:
                failures.append(label)
                print("MISMATCH odd", label, expected, actual)
    return count


def run_only_call(func, data_streams, dest_encoding):
    try:
        result = func(data_streams, dest_encoding)
    except Exception as e:
        return ("EXC", type(e).__name__, str(e))
    return ("OK", type(result).__name__)


def msf(total):
    return "%02d:%02d:%02d" % (total // 4500, (total // 75) % 60, total % 75)


def cdda_cases(failures):
    from smpl_extract import actions
    from smpl_extract.cdda.image import CompactDiskAudioImageAdapter
    from smpl_extract.cuesheet import parse_cue_sheet
    count = 0
    rng = random.Random(0xC0312)
    dest = StreamEncoding(endianess=Endianess.LITTLE, sample_width=2,
                          num_interleaved_channels=2)
    for n_sectors, tail in [(0, 0), (1, 0), (5, 3), (9, 1177), (14, 0),
                            (3, 2351), (0, 5), (2, 1)]:
        data = bytes(rng.getrandbits(8) for _ in range(n_sectors*2352 + tail))
        for _ in range(10):
            position = rng.randint(0, 2)
            lines = ["FILE \"disc.bin\" BINARY\n"]
            starts = []
            for t in range(rng.randint(1, 5)):
                lines.append("  TRACK %02d AUDIO\n" % (t+1))
                lines.append("    INDEX 01 %s\n" % msf(position))
                starts.append(position)
                position += rng.randint(1, 4)

            def tracks():
                cue = parse_cue_sheet(list(lines))
                image = CompactDiskAudioImageAdapter.from_bin_cue(
                    RecordingStream(data), cue)
                samples = [t.to_generalized() for t in image.tracks]
                for sample in samples:
                    innermost_log(sample.data_streams[0].stream).clear()
                return samples
            for number, (sample_a, sample_b) in enumerate(
                    zip(tracks(), tracks())):
                # every track gets its own pristine bin stream state
                expected = run(original_make_transcoder,
                               sample_a.data_streams, dest)
                actual = run(transcoder_module.make_transcoder,
                             sample_b.data_streams, dest)
                count += 1
                if expected != actual:
                    failures.append("cdda")
                    print("MISMATCH cdda", lines, number)
                    continue
                begin = starts[number]*2352
                end = starts[number+1]*2352 \
                    if number+1 < len(starts) else len(data)
                if begin <= end <= len(data):
                    window = data[begin:end]
                    window = window[:len(window) - len(window) % 4]
                    if actual[0] != "OK" or actual[1][0] != "passthrough" \
                            or b"".join(actual[2]) != window:
                        failures.append("cdda-pcm")
                        print("MISMATCH cdda pcm", lines, number, actual[:2])

    base = tempfile.mkdtemp(prefix="r12demo_")
    try:
        data = bytes(rng.getrandbits(8) for _ in range(9*2352 + 1177))
        with open(os.path.join(base, "tail.bin"), "wb") as f:
            f.write(data)
        cue_path = os.path.join(base, "disc.cue")
        with open(cue_path, "w", encoding="ascii") as f:
            f.write(
                "FILE \"tail.bin\" BINARY\n"
                "  TRACK 01 AUDIO\n    INDEX 01 00:00:01\n"
                "  TRACK 02 AUDIO\n    TITLE \"Two\"\n"
                "    INDEX 00 00:00:03\n    INDEX 01 00:00:04\n"
                "  TRACK 03 AUDIO\n    INDEX 01 00:00:07\n"
            )
        destination = os.path.join(base, "out")
        os.mkdir(destination)
        actions.export_samples_to_wav(cue_path, destination)
        found = []
        for root, _dirs, files in sorted(os.walk(destination)):
            for name in sorted(files):
                with open(os.path.join(root, name), "rb") as f:
                    found.append(f.read())
        windows = [
            data[1*2352:3*2352], data[3*2352:7*2352],
            data[7*2352:len(data) - ((len(data) - 7*2352) % 4)],
        ]
        if sorted(blob[44:] for blob in found) != sorted(windows):
            failures.append("export")
            print("MISMATCH export", [len(blob) for blob in found])
        count += 1
    finally:
        shutil.rmtree(base, ignore_errors=True)
    return count


def main():
    failures = []
    n_random, kinds = random_cases(failures)
    n_odd = odd_cases(failures)
    n_cdda = cdda_cases(failures)
    print("random cases:", n_random, kinds, "odd:", n_odd, "cdda:", n_cdda,
          "failures:", len(failures))
    return 1 if failures else 0


if __name__ == "__main__":
    sys.exit(main())
