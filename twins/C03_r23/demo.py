"""Equivalence demo for r23: smpl_extract.structural.Traversable
.export_samples - the walk that `export` runs over the CompactDiskAudioImage
returned by attempt_parse_cue_sheet (one generalized Sample per AudioTrack is
queued on the ExportManager, which writes the WAV files when the level is
finished).

An inline copy of the ORIGINAL method is compared with the live one:

  A. synthetic trees: random nestings of Traversable nodes whose children
     are sample leaves, program leaves, leaves with odd type ids, nested
     directories, leaves whose to_generalized raises, and children lists
     of various iterable types.  A recording ExportManager logs every
     set_level / add_sample / finish_level / export_samples call with its
     arguments; the ordered log (which also contains the `children` /
     `path` / `type_id` / `to_generalized` accesses), the return value and
     the exception (type and message) must agree.
  B. end to end: cue/bin pairs are exported with the original method patched
     into the class and with the live method; the WAV trees and the printed
     text must be byte-identical, and the PCM must tile the bin
     (independent expected values).
Exit 0 on full agreement, 1 otherwise.
"""
import contextlib
import io
import os
import random
import shutil
import sys
import tempfile

from smpl_extract import actions
from smpl_extract import structural
from smpl_extract.base import ElementTypes
from smpl_extract.structural import ExportManager
from smpl_extract.structural import Traversable


ORIGINAL_SOURCE = '''
def export_samples(
        self, 
        export_manager: ExportManager
):
    export_manager.set_level(tuple(self.path))
    children = self.children

    for child in children:
        if child.type_id == ElementTypes.SampleEntry:
            child = cast(SampleElement, child)
            sample = child.to_generalized()
            export_manager.add_sample(sample)
        elif isinstance(child, Traversable):
            child.export_samples(export_manager)
    
    export_manager.finish_level()
    return
'''
_namespace = {}
exec(compile(ORIGINAL_SOURCE, "<original>", "exec"), structural.__dict__,
     _namespace)
original_export_samples = _namespace["export_samples"]
live_export_samples = Traversable.__dict__["export_samples"]


@contextlib.contextmanager
def patched(function):
    Traversable.export_samples = function
    try:
        yield
    finally:
        Traversable.export_samples = live_export_samples


# --------------------------------------------------------------- synthetic
class CustomError(Exception):
    pass


class RecordingManager(ExportManager):
    def __init__(self, log, fail_at=None):
        super().__init__("unused")
        self.log = log
        self.fail_at = fail_at
        self.calls = 0

    def _tick(self, what):
        self.calls += 1
        if self.fail_at == self.calls:
            raise CustomError("manager failed in %s" % what)

    def add_sample(self, sample):
        self.log.append(("add_sample", sample, self.level))
        self._tick("add_sample")
        super().add_sample(sample)

    def set_level(self, level):
        self.log.append(("set_level", level, type(level).__name__,
                         list(self.samples)))
        self._tick("set_level")
        super().set_level(level)

    def finish_level(self):
        self.log.append(("finish_level", self.level, list(self.samples)))
        self._tick("finish_level")
        super().finish_level()

    def export_samples(self):
        self.log.append(("export", self.level, list(self.samples)))
        self.samples.clear()


class Leaf:
    def __init__(self, label, type_id, log, fails=False):
        self.label = label
        self._type_id = type_id
        self.log = log
        self.fails = fails

    @property
    def type_id(self):
        self.log.append(("type_id", self.label))
        return self._type_id

    def to_generalized(self):
        self.log.append(("to_generalized", self.label))
        if self.fails:
            raise CustomError("leaf %s failed" % self.label)
        return "sample<%s>" % self.label

    def export_samples(self, export_manager):  # must never be called
        self.log.append(("LEAF export_samples", self.label))


class Node(Traversable):
    """A directory whose children are given directly."""
    name = "node"
    type_name = "node"

    def __init__(self, label, path, log, type_id=None):
        super().__init__(lambda context: [], path=path)
        self.label = label
        self.log = log
        self.kids = []
        if type_id is not None:
            self.type_id = type_id

    @property
    def children(self):
        self.log.append(("children", self.label))
        return self.kids

    @property
    def path(self):
        self.log.append(("path", self.label))
        return self._path


def build_tree(rng, log, depth, path, counter):
    counter[0] += 1
    label = "n%d" % counter[0]
    node_type = rng.choice([None, None, None, ElementTypes.SampleEntry,
                            ElementTypes.ProgramEntry])
    node = Node(label, path, log, node_type)
    kids = []
    for _ in range(rng.randint(0, 5)):
        kind = rng.random()
        counter[0] += 1
        if kind < 0.45:
            kids.append(Leaf("s%d" % counter[0], rng.choice(
                [ElementTypes.SampleEntry, ElementTypes.SampleEntry, 2, 2.0]),
                log, fails=rng.random() < 0.04))
        elif kind < 0.65:
            kids.append(Leaf("p%d" % counter[0], rng.choice(
                [ElementTypes.ProgramEntry, ElementTypes.DirectoryEntry,
                 ElementTypes.SampleGeneralized, None, "SampleEntry", 0]),
                log))
        elif depth < 3:
            kids.append(build_tree(rng, log, depth + 1,
                                   path + ["d%d" % counter[0]], counter))
    container = rng.choice([list, list, tuple, iter])
    node.kids = container(kids)
    return node


def run_tree(function, seed, fail_at):
    rng = random.Random(seed)
    log = []
    root = build_tree(rng, log, 0, rng.choice([[], ["root"]]), [0])
    manager = RecordingManager(log, fail_at)
    with patched(function):
        try:
            result = root.export_samples(manager)
        except BaseException as e:
            outcome = ("EXC", type(e).__name__, str(e))
        else:
            outcome = ("OK", result)
    return outcome, log, manager.level, list(manager.samples)


def synthetic_cases():
    failures = 0
    count = 0
    for seed in range(3000):
        fail_at = None if seed % 3 else (seed // 3) % 12 + 1
        expected = run_tree(original_export_samples, seed, fail_at)
        actual = run_tree(live_export_samples, seed, fail_at)
        count += 1
        if expected != actual:
            failures += 1
            if failures < 10:
                print("MISMATCH (synthetic)", seed, fail_at)
                print("   expected", expected[0], len(expected[1]))
                print("   actual  ", actual[0], len(actual[1]))
    return count, failures


# ------------------------------------------------------------------ export
def msf(total):
    return "%02d:%02d:%02d" % (total // 4500, (total // 75) % 60, total % 75)


def make_cue(rng, n_sectors):
    lines = ["FILE \"disc.bin\" BINARY\n"]
    position = rng.randint(0, 2)
    for t in range(rng.randint(1, 6)):
        lines.append("  TRACK %02d AUDIO\n" % (t + 1))
        if rng.random() < 0.6:
            lines.append("    TITLE \"%s\"\n" % rng.choice(
                ["Intro", "Intro", "a/b", "Loop L", "Loop R", "x.", ".."]))
        for k in range(rng.choice([1, 1, 2, 3])):
            lines.append("    INDEX %02d %s\n" % (k, msf(position)))
            position += rng.choice([1, 1, 2, 3])
        if position >= n_sectors:
            break
    return lines


def read_tree(root):
    found = {}
    for directory, _dirs, files in os.walk(root):
        for name in files:
            path = os.path.join(directory, name)
            with open(path, "rb") as f:
                found[os.path.relpath(path, root)] = f.read()
    return found


def run_export(function, cue_path, destination):
    captured = io.StringIO()
    os.mkdir(destination)
    with patched(function), contextlib.redirect_stdout(captured):
        actions.export_samples_to_wav(cue_path, destination)
    return read_tree(destination), captured.getvalue()


def export_cases():
    rng = random.Random(0x323)
    failures = 0
    count = 0
    base = tempfile.mkdtemp(prefix="r23demo_")
    try:
        for number in range(80):
            n_sectors = rng.randint(1, 14)
            tail = rng.choice([0, 0, 1, 2, 3, 5, 1177, 2351])
            data = bytes(rng.getrandbits(8)
                         for _ in range(n_sectors*2352 + tail))
            lines = make_cue(rng, n_sectors)
            directory = os.path.join(base, "case%03d" % number)
            os.mkdir(directory)
            with open(os.path.join(directory, "disc.bin"), "wb") as f:
                f.write(data)
            cue_path = os.path.join(directory, "disc.cue")
            with open(cue_path, "w", encoding="ascii") as f:
                f.writelines(lines)
            expected = run_export(original_export_samples, cue_path,
                                  os.path.join(directory, "out_a"))
            actual = run_export(live_export_samples, cue_path,
                                os.path.join(directory, "out_b"))
            count += 1
            if expected != actual:
                failures += 1
                print("MISMATCH (export)", number)
                continue
            starts = []
            in_track = False
            for line in lines:
                words = line.split()
                if words[0] == "TRACK":
                    in_track = True
                elif words[0] == "INDEX" and in_track:
                    mm, ss, ff = (int(x) for x in words[2].split(":"))
                    starts.append(((mm*60 + ss)*75 + ff)*2352)
                    in_track = False
            if starts[-1] > len(data):
                continue
            ends = starts[1:] + [len(data) - (len(data) - starts[-1]) % 4]
            exported = [line[len("Exported "):]
                        for line in actual[1].splitlines()
                        if line.startswith("Exported ")]
            count += 1
            if len(exported) != len(starts) \
                    or sorted(exported) != sorted(actual[0]):
                failures += 1
                print("MISMATCH (file list)", number, exported)
                continue
            joined = b""
            for name, start, end in zip(exported, starts, ends):
                blob = actual[0][name]
                if blob[44:] != data[start:end]:
                    failures += 1
                    print("MISMATCH (tiling)", number, name)
                    break
                joined += blob[44:]
            else:
                if joined != data[starts[0]:ends[-1]]:
                    failures += 1
                    print("MISMATCH (concatenation)", number)
    finally:
        shutil.rmtree(base, ignore_errors=True)
    return count, failures


def main():
    total = 0
    failed = 0
    for part in (synthetic_cases, export_cases):
        count, failures = part()
        print(part.__name__, "cases:", count, "failures:", failures)
        total += count
        failed += failures
    if Traversable.__dict__["export_samples"] is not live_export_samples:
        print("class not restored")
        failed += 1
    print("total cases:", total, "failures:", failed)
    return 1 if failed else 0


if __name__ == "__main__":
    sys.exit(main())
