"""Equivalence demo for r20: smpl_extract/util/stream.py, StreamWrapper.seek
(inherited by StreamOffset, StreamReversed, SectorStream/FileStream/RolandFile;
it is the method the transcoder uses to rewind the window stream built by the
_get_*_params functions before reading it - mechanism 'loop mode -> data
window, reversal').

Refactoring: the pre-initialised `starting_position = 0` followed by the
`if whence == SEEK_CUR: ... elif whence == SEEK_END: ...` ladder became a
`match whence:` statement with the value patterns `io.SEEK_CUR`,
`io.SEEK_END` and a wildcard arm assigning 0.  The clamping, the reset of
`true_size`, the `_seek` call and the return value are untouched.

The ORIGINAL method (pasted below) is installed on StreamWrapper for a second
run of every scenario and the two runs are compared:
  (1) single seeks on StreamWrapper / StreamOffset / StreamReversed / RolandFile
      for every whence spelling (0, 1, 2, other ints, bool, float, None, str,
      default argument, objects with a custom / raising / non-bool __eq__) and
      offsets below, inside, at and beyond the window: return value, position,
      true_size, calls made on the substream, exception type + message, the
      order and operands of the equality tests made on `whence`,
  (2) random seek/read scripts on nested windows (offset window inside a
      cluster-chain file, reversed window on top),
  (3) the seven loop-mode windows of sample_file.py: rewind + chunked reads the
      way the transcoder does, compared with bytes sliced by hand,
  (4) precomputed positions.
Exit 0 when everything agrees, 1 otherwise.
"""
import io
import random
import struct
import sys
from io import SEEK_CUR
from io import SEEK_END
from io import SEEK_SET

from smpl_extract.roland.s7xx import sample_file
from smpl_extract.roland.s7xx.data_types import ROLAND_CLUSTER_SIZE
from smpl_extract.roland.s7xx.data_types import RolandLoopMode
from smpl_extract.roland.s7xx.fat import RolandFile
from smpl_extract.util.stream import StreamOffset
from smpl_extract.util.stream import StreamReversed
from smpl_extract.util.stream import StreamWrapper


# ---------------------------------------------------------------- original --
def original_seek(self, offset: int, whence: int = SEEK_CUR):
    starting_position = 0
    if whence == SEEK_CUR:
        starting_position = self.position
    elif whence == SEEK_END:
        starting_position = self.end_of_file
    
    new_position = starting_position + offset
    if new_position > self.end_of_file:
        new_position = self.end_of_file
    elif new_position < 0:
        new_position = 0

    self.true_size = 0
    self._seek(new_position)
    self.position = new_position
    return new_position
# -----------------------------------------------------------------------------

failures = []


def check(cond, what):
    if not cond:
        failures.append(what)
        print("MISMATCH:", what)


def outcome(fn):
    try:
        return ("ok", fn())
    except BaseException as e:  # noqa: BLE001
        return ("exc", type(e).__name__, str(e))


class Recorder(io.BytesIO):
    def __init__(self, data):
        super().__init__(data)
        self.log = []

    def seek(self, *a):
        r = super().seek(*a)
        self.log.append(("seek", a, r))
        return r

    def tell(self):
        r = super().tell()
        self.log.append(("tell", r))
        return r

    def read(self, *a):
        r = super().read(*a)
        self.log.append(("read", a, len(r)))
        return r


EQ_LOG = []


class Whence:
    """whence stand-in that logs every equality test made on it."""

    def __init__(self, equal_to=(), raises_on=(), result=None):
        self.equal_to = equal_to
        self.raises_on = raises_on
        self.result = result

    def __eq__(self, other):
        EQ_LOG.append(("eq", other))
        if other in self.raises_on:
            raise RuntimeError("eq %r" % (other,))
        if self.result is not None:
            return self.result
        return other in self.equal_to

    def __ne__(self, other):
        EQ_LOG.append(("ne", other))
        return not self.__eq__(other)

    __hash__ = None


class Falsy:
    def __bool__(self):
        EQ_LOG.append(("bool",))
        return False


class BadBool:
    def __bool__(self):
        raise ValueError("ambiguous truth value")


DEFAULT = object()  # "call seek() without a whence argument"


def whence_values():
    return [
        DEFAULT, 0, 1, 2, 3, -1, 7, True, False, 1.0, 2.0, 0.0, 1.5, None, "1", "cur",
        SEEK_SET, SEEK_CUR, SEEK_END, 1 + 0j, (1,), [2],
        Whence(), Whence(equal_to=(1,)), Whence(equal_to=(2,)), Whence(equal_to=(1, 2)),
        Whence(equal_to=(0,)), Whence(raises_on=(1,)), Whence(raises_on=(2,)),
        Whence(result="yes"), Whence(result=""), Whence(result=Falsy()), Whence(result=BadBool()),
    ]


DATA = bytes((i * 7 + 3) & 0xFF for i in range(6 * ROLAND_CLUSTER_SIZE))


def make_streams():
    """Fresh instances of every stream class that inherits seek()."""
    base1, base2, base3, base4, base5 = (Recorder(DATA) for _ in range(5))
    return [
        ("wrapper", StreamWrapper(base1, 1000), base1),
        ("wrapper@500", StreamWrapper(base1, 1000, position=500), base1),
        ("wrapper empty", StreamWrapper(base2, 0), base2),
        ("offset", StreamOffset(base2, 600, 100), base2),
        ("offset@600", StreamOffset(base2, 600, 100, position=600), base2),
        ("reversed", StreamReversed(base3, 400, sample_width=2), base3),
        ("reversed@10", StreamReversed(base3, 400, sample_width=2, position=10), base3),
        ("reversed odd", StreamReversed(base3, 401, sample_width=2), base3),
        ("roland", RolandFile(base4, [4, 1, 3]), base4),
        ("roland@chain end", RolandFile(base4, [2, 0], position=2 * ROLAND_CLUSTER_SIZE), base4),
        ("nested", StreamReversed(StreamOffset(RolandFile(base5, [5, 0, 2]), 5000, 9000), 5000,
                                  sample_width=2), base5),
        ("size None", StreamWrapper(base1, None), base1),  # type: ignore[arg-type]
    ]


def state(s):
    return (s.position, s.true_size, s.end_of_file)


def scenario_single():
    out = []
    offsets = [0, 1, -1, 2, 37, 399, 400, 401, 599, 600, 601, 1000, 1001, -1000, 10 ** 9, -10 ** 9,
               ROLAND_CLUSTER_SIZE, 3 * ROLAND_CLUSTER_SIZE]
    n_names = len(make_streams())
    for which in range(n_names):
        for w_i in range(len(whence_values())):
            for offset in offsets:
                name, stream, base = make_streams()[which]
                whence = whence_values()[w_i]
                base.log.clear()
                del EQ_LOG[:]
                if whence is DEFAULT:
                    res = outcome(lambda: stream.seek(offset))
                else:
                    res = outcome(lambda: stream.seek(offset, whence))
                eq_log = [(op, repr(args)) for op, *args in EQ_LOG]
                follow = outcome(lambda: stream.read(6))
                out.append((name, w_i, offset, res, state(stream), list(base.log), eq_log, follow))
    # non-int offsets
    for offset in (1.5, None, "3", True):
        for whence in (0, 1, 2):
            name, stream, base = make_streams()[3]
            out.append((name, repr(offset), whence, outcome(lambda: stream.seek(offset, whence)),
                        state(stream), list(base.log)))
    return out


def scenario_scripts():
    out = []
    rng = random.Random(20)
    for trial in range(80):
        streams = make_streams()[:-1]
        name, stream, base = streams[trial % len(streams)]
        base.log.clear()
        trace = []
        for _ in range(25):
            if rng.random() < 0.55:
                off = rng.choice([0, 0, 2, -2, 10, -10, 100, 4096, -4096, rng.randrange(-700, 700) * 2])
                wh = rng.choice([SEEK_SET, SEEK_CUR, SEEK_END, SEEK_SET, 5])
                trace.append(("seek", off, wh, outcome(lambda: stream.seek(off, wh)), state(stream)))
            else:
                size = rng.choice([0, 2, 4, 64, 4096, 400, None, -1])
                trace.append(("read", size, outcome(lambda: stream.read(size)), state(stream)))
        out.append((name, trace, list(base.log)))
    return out


LOOP_FUNCS = {
    RolandLoopMode.FORWARD_END: "_get_forward_end_params",
    RolandLoopMode.FORWARD_RELEASE: "_get_forward_release_params",
    RolandLoopMode.ONESHOT: "_get_oneshot_params",
    RolandLoopMode.FORWARD_ONESHOT: "_get_forward_oneshot_params",
    RolandLoopMode.ALTERNATE: "_get_alternate_params",
    RolandLoopMode.REVERSE_ONESHOT: "_get_reverse_oneshot_params",
    RolandLoopMode.REVERSE_LOOP: "_get_reverse_loop_params",
}


def scenario_loop_modes():
    out = []
    rng = random.Random(2020)
    chain = [3, 0, 5, 1]
    chain_bytes = b"".join(DATA[c * ROLAND_CLUSTER_SIZE:(c + 1) * ROLAND_CLUSTER_SIZE] for c in chain)
    n_words = len(chain_bytes) // 2
    for trial in range(12):
        start = rng.choice([0, 1, 100, ROLAND_CLUSTER_SIZE // 2 - 1, ROLAND_CLUSTER_SIZE // 2])
        s_end = rng.choice([start, start + 1, start + 999, ROLAND_CLUSTER_SIZE - 1, n_words - 1])
        s_end = max(start, min(s_end, n_words - 1))
        r_end = max(s_end, min(n_words - 1, s_end + rng.choice([0, 1, 500, 5000])))
        s_start = rng.randrange(start, s_end + 1)
        r_start = rng.randrange(s_end, r_end + 1)
        points = sample_file.RolandLoopPoints(start, s_start, s_end, r_start, r_end)
        for mode, func_name in LOOP_FUNCS.items():
            base = Recorder(DATA)
            source = RolandFile(base, list(chain))
            params = getattr(sample_file, func_name)(source, points)
            window = params.data_stream
            # consume a little, then rewind + chunked read like the transcoder
            window.read(10)
            rewound = window.seek(0, SEEK_SET)
            chunks = []
            while True:
                chunk = window.read(4096)
                if len(chunk) < 1:
                    break
                chunks.append(chunk)
            pcm = b"".join(chunks)
            tail = (window.seek(0, SEEK_END), window.seek(-4, SEEK_CUR), window.read(100))
            out.append((trial, int(mode), rewound, pcm, tail, list(base.log)))
            # hand-sliced expectation
            end = r_end if mode in (RolandLoopMode.FORWARD_RELEASE, RolandLoopMode.FORWARD_ONESHOT) else s_end
            words = struct.unpack("<%dh" % n_words, chain_bytes)[start:end + 1]
            if mode in (RolandLoopMode.REVERSE_ONESHOT, RolandLoopMode.REVERSE_LOOP):
                words = words[::-1]
            expected = struct.pack("<%dh" % len(words), *words)
            check(pcm == expected, f"hand-sliced PCM trial={trial} mode={mode.name}")
    return out


def run_all():
    return {
        "single": scenario_single(),
        "scripts": scenario_scripts(),
        "loop_modes": scenario_loop_modes(),
    }


def first_difference(a, b):
    for i, (x, y) in enumerate(zip(a, b)):
        if x != y:
            return i, x, y
    return None


def main():
    check("seek" not in StreamOffset.__dict__ and "seek" not in StreamReversed.__dict__
          and "seek" not in RolandFile.__dict__, "subclasses inherit seek")
    live_results = run_all()
    saved = StreamWrapper.seek
    StreamWrapper.seek = original_seek
    try:
        original_results = run_all()
    finally:
        StreamWrapper.seek = saved
    total = 0
    for key in live_results:
        a, b = live_results[key], original_results[key]
        total += len(a)
        check(len(a) == len(b), f"{key}: lengths")
        if a != b:
            check(False, f"{key}: first difference {first_difference(a, b)!r}"[:600])

    # (4) precomputed
    s = StreamOffset(io.BytesIO(DATA), 600, 100)
    check(s.seek(10, SEEK_SET) == 10 and s.seek(5) == 15 and s.seek(5, SEEK_CUR) == 20, "precomputed cur")
    check(s.seek(-1, SEEK_END) == 599 and s.seek(50, SEEK_END) == 600, "precomputed end")
    check(s.seek(-7, SEEK_SET) == 0 and s.seek(30, 9) == 30, "precomputed set/unknown")
    s.seek(4, SEEK_SET)
    check(s.read(3) == DATA[104:107], "precomputed read after seek")
    n_ok = sum(1 for r in live_results["single"] if r[3][0] == "ok")
    n_exc = sum(1 for r in live_results["single"] if r[3][0] == "exc")
    check(n_ok > 1000 and n_exc > 50, f"coverage ok={n_ok} exc={n_exc}")

    print(f"{total} scenario records compared ({n_ok} seeks ok, {n_exc} raising), {len(failures)} mismatches")
    return 1 if failures else 0


if __name__ == "__main__":
    sys.exit(main())
