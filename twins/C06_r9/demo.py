"""Equivalence demo for AkaiImageParser._load_partitions (C06, r9).

The live method is compared against an inline copy of the ORIGINAL body.
Both run against the same scripted fake stream / fake PartitionParser, which
log every observable interaction (tell() calls, parse_stream() calls with all
their arguments, routine calls).  The logs, the resulting state
(_partitions, _partitions_loaded_flag), and exception type/message must agree.
A few scenarios also use the real PartitionParser on junk bytes.
"""
import io
import itertools
import random
import sys
from typing import List, cast

from construct.core import ConstructError
from construct.core import StreamError

import smpl_extract.akai.image as akai_image
from smpl_extract.akai.image import AkaiImageParser
from smpl_extract.akai.partition import InvalidPartition
from smpl_extract.akai.partition import Partition


# --------------------------------------------------------------------------
# ORIGINAL implementation (verbatim, module globals looked up in akai_image
# so that the patched PartitionParser is the one used by both versions)
# --------------------------------------------------------------------------
def original_load_partitions(self):
    partition_cnt = 0
    partitions = []
    while self.file.tell() < self.file_size:
        name = chr(ord("A") + partition_cnt)
        try:
            partition = akai_image.PartitionParser.parse_stream(
                self.file,  # type: ignore
                _elem_name=name,
                _elem_parent=self,
                _elem_routines=self._routines
            )
        except (InvalidPartition, ConstructError) as e:
            break
        partitions.append(partition)
        partition_cnt += 1

    for routine in self._routines.values():
        partitions = routine(partitions)
    self._partitions = cast(List[Partition], partitions)
    self._partitions_loaded_flag = True


# --------------------------------------------------------------------------
# scripted fakes
# --------------------------------------------------------------------------
class SubInvalid(InvalidPartition):
    pass


class Weird:
    """tell() result with a custom (non-total) ordering."""
    def __init__(self, answers, log):
        self.answers = answers
        self.log = log

    def __repr__(self):
        return "<Weird>"

    def __lt__(self, other):
        self.log.append(("lt", other))
        return self.answers.pop(0) if self.answers else False

    def __ge__(self, other):
        self.log.append(("ge-SHOULD-NOT-BE-USED", other))
        return True


class FakeFile:
    def __init__(self, log, size, step, tells=None):
        self.log = log
        self.size = size
        self.step = step
        self.pos = 0
        self.tells = list(tells) if tells is not None else None

    def seek(self, offset, whence=0):
        if whence == 2:
            self.pos = self.size + offset
        else:
            self.pos = offset
        return self.pos

    def tell(self):
        if self.tells is not None:
            value = self.tells.pop(0) if self.tells else self.size
            if isinstance(value, BaseException):
                self.log.append(("tell-raise", repr(value)))
                raise value
        else:
            value = self.pos
        self.log.append(("tell", repr(value)))
        return value


class FakeParser:
    def __init__(self, log, script):
        self.log = log
        self.script = list(script)
        self.calls = 0

    def parse_stream(self, stream, **kwargs):
        self.calls += 1
        self.log.append((
            "parse", id(stream) and "file", sorted(kwargs),
            kwargs.get("_elem_name"),
            type(kwargs.get("_elem_parent")).__name__,
            None if kwargs.get("_elem_routines") is None
            else tuple(kwargs["_elem_routines"]),
        ))
        action = self.script.pop(0) if self.script else "ok"
        if isinstance(action, BaseException):
            raise action
        if isinstance(stream, FakeFile):
            stream.pos += stream.step
        return ("partition", kwargs.get("_elem_name"), self.calls)


def make_routines(log, spec):
    routines = {}
    for idx, kind in enumerate(spec):
        def routine(items, _kind=kind, _idx=idx):
            log.append(("routine", _idx, _kind, repr(items)))
            if _kind == "same":
                return items
            if _kind == "reverse":
                return list(reversed(items))
            if _kind == "drop_first":
                return items[1:]
            if _kind == "tuple":
                return tuple(items)
            if _kind == "raise":
                raise RuntimeError("routine failed")
            raise AssertionError(_kind)
        routines[f"r{idx}:{kind}"] = routine
    return routines


def run(impl, scenario):
    log = []
    file = FakeFile(log, scenario["size"], scenario["step"], scenario.get("tells"))
    if scenario.get("weird_tells") is not None:
        answers = list(scenario["weird_tells"])
        file.tells = [Weird(answers, log) for _ in range(len(answers) + 2)]
    parser = AkaiImageParser(file)          # __init__ seeks, no tell()
    if scenario.get("file_size_override") is not None:
        parser.file_size = scenario["file_size_override"]
    if scenario["routines"] is not None:
        parser.set_routines(make_routines(log, scenario["routines"]))
    fake = FakeParser(log, scenario["script"])
    saved = akai_image.PartitionParser
    akai_image.PartitionParser = fake
    try:
        try:
            if scenario.get("via_property"):
                if impl == "live":
                    value = parser.children
                    value2 = parser.partitions       # second access: cached
                    ret = ("ok", repr(value), value is value2)
                else:
                    # original property body
                    if not parser._partitions_loaded_flag:
                        original_load_partitions(parser)
                    value = parser._partitions
                    if not parser._partitions_loaded_flag:
                        original_load_partitions(parser)
                    value2 = parser._partitions
                    ret = ("ok", repr(value), value is value2)
            else:
                if impl == "live":
                    value = parser._load_partitions()
                else:
                    value = original_load_partitions(parser)
                ret = ("ok", repr(value))
        except Exception as exc:  # noqa: BLE001
            ret = ("exc", type(exc).__name__, str(exc))
    finally:
        akai_image.PartitionParser = saved
    state = (repr(parser._partitions), type(parser._partitions).__name__,
             parser._partitions_loaded_flag, fake.calls, file.pos)
    return ret, state, [tuple(map(repr, entry)) for entry in log]


def scenarios():
    routine_specs = [
        None, [], ["same"], ["reverse"], ["same", "drop_first"],
        ["reverse", "tuple"], ["raise"], ["same", "raise", "reverse"],
    ]
    scripts = [
        [],
        [InvalidPartition("bad")],
        ["ok", ConstructError("c")],
        ["ok", "ok", SubInvalid("s")],
        ["ok", StreamError("stream")],
        ["ok", ValueError("other")],
        [KeyError("k")],
        ["ok", "ok", "ok", "ok", "ok", InvalidPartition()],
    ]
    for routines, script, (size, step), via in itertools.product(
            routine_specs, scripts,
            [(0, 10), (10, 10), (35, 10), (300, 10), (40, 0)],
            [False, True]):
        if step == 0:
            # never advances: only terminate through the script
            if not any(isinstance(a, BaseException) for a in script):
                continue
        yield dict(routines=routines, script=script, size=size, step=step,
                   via_property=via)
    # scripted tell() values: floats, equal, greater, raising
    for tells in ([0, 5, 9.5, 10.0], [10], [11], [float("nan")],
                  [0, float("nan")], [0, OSError("closed")], [OSError("x")],
                  [-1, -1, -1, 10], [True, False, 10]):
        for routines in (None, ["same"], ["reverse"]):
            yield dict(routines=routines, script=[], size=10, step=1,
                       tells=tells)
    # objects with a custom __lt__ (>= must never be consulted)
    for answers in ([], [False], [True, False], [True, True, True, False], [0, 1, ""]):
        yield dict(routines=["same"], script=[], size=10, step=1,
                   weird_tells=answers)
    # file_size of an incomparable type
    yield dict(routines=["same"], script=[], size=10, step=1,
               file_size_override="ten")
    yield dict(routines=None, script=[], size=10, step=1,
               file_size_override=None)
    # many partitions: letters run past "Z"
    yield dict(routines=["same"], script=[], size=700, step=10)
    # random mixes
    rng = random.Random(606)
    for _ in range(300):
        script = []
        for _ in range(rng.randrange(0, 8)):
            script.append(rng.choice([
                "ok", "ok", "ok", InvalidPartition("i"), ConstructError("c"),
                ValueError("v")]))
        yield dict(
            routines=rng.choice(routine_specs), script=script,
            size=rng.randrange(0, 120), step=rng.choice([1, 7, 10, 50]),
            via_property=rng.random() < 0.5)


def real_parser_scenarios():
    """Real PartitionParser on junk data (no monkeypatching)."""
    rng = random.Random(9)
    blobs = [b"", b"\x00" * 64, b"\xff" * 4096, bytes(rng.randrange(256) for _ in range(20000))]
    bad = 0
    for blob in blobs:
        outcomes = []
        for impl in ("live", "orig"):
            parser = AkaiImageParser(io.BytesIO(blob))
            parser.set_routines({
                "make_safe_names": parser.make_safe_names_routine,
                "make_export_names": parser.make_export_names_routine,
            })
            try:
                if impl == "live":
                    parser._load_partitions()
                else:
                    original_load_partitions(parser)
                res = ("ok",)
            except Exception as exc:  # noqa: BLE001
                res = ("exc", type(exc).__name__, str(exc))
            outcomes.append((res, [p.name for p in parser._partitions],
                             parser._partitions_loaded_flag, parser.file.tell()))
        if outcomes[0] != outcomes[1]:
            bad += 1
            print("REAL MISMATCH", len(blob), outcomes)
    return len(blobs), bad


def main():
    total = 0
    mismatches = 0
    for scenario in scenarios():
        total += 1
        live = run("live", scenario)
        orig = run("orig", scenario)
        if live != orig:
            mismatches += 1
            if mismatches <= 5:
                print("MISMATCH", scenario)
                print("  live:", live)
                print("  orig:", orig)
    n_real, bad_real = real_parser_scenarios()
    total += n_real
    mismatches += bad_real
    print(f"{total} scenarios, {mismatches} mismatches")
    return 1 if mismatches else 0


if __name__ == "__main__":
    sys.exit(main())
