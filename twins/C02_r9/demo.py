"""Equivalence demo for r9: smpl_extract/util/fat.py add_to_sector_links
(helper of FatAreaAdapter._decode, mechanism 'FAT words -> cluster links').

The `for link in links_iter: ...` loop followed by the terminating store was
rewritten as `while True:` + `next(links_iter, sentinel)` with the terminating
store moved into the loop-exit branch.

The working-tree function is compared with an inline copy of the ORIGINAL on
  (1) random chains over random-size link tables (all in range),
  (2) chains with one or more out-of-range / negative indices at every position
      (exception type, message, __cause__ type, and the partial writes left
      behind in the table are compared),
  (3) empty input, one-element input, tuples, generators, iterators whose
      __next__ raises IndexError / other errors mid-way,
  (4) link tables whose __setitem__ raises non-IndexError exceptions,
  (5) whole random Roland FAT areas decoded with FatAreaParser, once with the
      working-tree helper and once with the original helper patched in.
Exit 0 when everything agrees, 1 otherwise.
"""
import io
import random
import struct
import sys
from typing import List

from smpl_extract.util import fat as ufat
from smpl_extract.util.fat import InvalidFatDefinition
from smpl_extract.util.fat import SectorLink
from smpl_extract.roland.s7xx import fat as rfat


# ---------------------------------------------------------------- original --
def original_add_to_sector_links(
        links_arg:      List[int],
        sector_links:   List[SectorLink]
    ):

    links_iter = iter(links_arg)
    prev_link = next(links_iter)
    try:
        for link in links_iter:
            sector_links[prev_link] = SectorLink(next=link, end=False)
            prev_link = link
        sector_links[prev_link] = SectorLink(next=0, end=True)

    except IndexError as e:
        raise InvalidFatDefinition(
            f"FAT entry {prev_link} exceeds total "
            f"number of FAT entries {len(sector_links)}."
        ) from e


# ------------------------------------------------------------------ helpers --
failures = 0
checks = 0


def outcome(func, make_links, make_table):
    table = make_table()
    try:
        ret = func(make_links(), table)
        res = ("ok", ret)
    except BaseException as e:  # noqa
        res = ("exc", type(e), str(e), type(e.__cause__))
    try:
        snapshot = [(x.next, x.end) if isinstance(x, SectorLink) else x
                    for x in list(table)]
    except Exception as e:  # noqa
        snapshot = ("unlistable", type(e))
    log = getattr(table, "log", None)
    return res, snapshot, log


def compare(label, make_links, make_table):
    global failures, checks
    checks += 1
    a = outcome(original_add_to_sector_links, make_links, make_table)
    b = outcome(ufat.add_to_sector_links, make_links, make_table)
    if a != b:
        failures += 1
        print("MISMATCH", label, a[0], b[0])
    return a


class Boom(Exception):
    pass


class RaisingIter:
    def __init__(self, values, exc, at):
        self.values = list(values)
        self.exc = exc
        self.at = at
        self.i = 0

    def __iter__(self):
        return self

    def __next__(self):
        if self.i == self.at:
            self.i += 1
            raise self.exc("iterator failure")
        if self.i - (1 if self.i > self.at else 0) >= len(self.values):
            raise StopIteration
        v = self.values[self.i - (1 if self.i > self.at else 0)]
        self.i += 1
        return v


class LoggingTable(list):
    """list that logs every store and can fail with a chosen exception."""
    def __init__(self, n, fail_at=None, exc=Boom):
        super().__init__([SectorLink()] * n)
        self.log = []
        self.fail_at = fail_at
        self.exc = exc

    def __setitem__(self, key, value):
        self.log.append((key, value.next, value.end))
        if self.fail_at is not None and len(self.log) == self.fail_at:
            raise self.exc("store failure")
        super().__setitem__(key, value)


rng = random.Random(20260928)

# (1) in-range random chains
for _ in range(600):
    n = rng.randint(1, 80)
    k = rng.randint(1, min(n, 30))
    if rng.random() < 0.5:
        chain = rng.sample(range(n), k)
    else:
        chain = [rng.randrange(n) for _ in range(k)]   # with repeats
    compare("inrange", lambda c=chain: list(c),
            lambda n=n: [SectorLink()] * n)
    compare("inrange-log", lambda c=chain: list(c),
            lambda n=n: LoggingTable(n))

# (2) out-of-range / negative at every position
for n in (1, 2, 5, 16):
    for k in range(1, 7):
        for bad_pos in range(k):
            for bad in (n, n + 1, 10 ** 6, -1, -n, -n - 1, -10 ** 6):
                chain = [rng.randrange(n) for _ in range(k)]
                chain[bad_pos] = bad
                compare(f"bad n={n} k={k} pos={bad_pos} v={bad}",
                        lambda c=chain: list(c),
                        lambda n=n: LoggingTable(n))
                if k > 2:
                    chain2 = list(chain)
                    chain2[rng.randrange(k)] = n + 7
                    compare("two-bad", lambda c=chain2: list(c),
                            lambda n=n: LoggingTable(n))
# empty table
for chain in ([0], [0, 0], [1, 0], [-1]):
    compare("empty-table", lambda c=chain: list(c), lambda: LoggingTable(0))

# (3) odd iterables
res = compare("empty-list", lambda: [], lambda: LoggingTable(4))
assert res[0][1] is StopIteration, res
compare("empty-tuple", lambda: (), lambda: LoggingTable(4))
compare("empty-gen", lambda: (x for x in ()), lambda: LoggingTable(4))
compare("single", lambda: [3], lambda: LoggingTable(4))
compare("single-bad", lambda: [4], lambda: LoggingTable(4))
compare("tuple", lambda: (3, 1, 2), lambda: LoggingTable(4))
compare("range", lambda: range(6), lambda: LoggingTable(6))
compare("range-over", lambda: range(7), lambda: LoggingTable(6))
compare("gen", lambda: (x for x in [2, 0, 1]), lambda: LoggingTable(3))
compare("dictkeys", lambda: {5: 0, 2: 0, 9: 0}.keys(), lambda: LoggingTable(10))
compare("none-element", lambda: [1, None, 2], lambda: LoggingTable(4))
compare("str-element", lambda: [1, "a", 2], lambda: LoggingTable(4))
compare("not-iterable", lambda: 5, lambda: LoggingTable(4))
compare("bool-elements", lambda: [True, False], lambda: LoggingTable(4))
for exc in (IndexError, KeyError, Boom, StopIteration, RuntimeError):
    for at in range(0, 5):
        compare(f"raising-iter {exc.__name__}@{at}",
                lambda exc=exc, at=at: RaisingIter([1, 2, 3], exc, at),
                lambda: LoggingTable(4))

# (4) tables that fail with other exceptions
for exc in (Boom, KeyError, TypeError, IndexError):
    for fail_at in range(1, 6):
        compare(f"table-fail {exc.__name__}@{fail_at}",
                lambda: [0, 3, 1, 2],
                lambda exc=exc, fail_at=fail_at: LoggingTable(4, fail_at, exc))
compare("dict-table", lambda: [7, 8, 9], lambda: {})
compare("tuple-table", lambda: [0, 1], lambda: (SectorLink(), SectorLink()))
compare("none-table", lambda: [0, 1], lambda: None)

# precomputed expectation for one concrete case
tbl = [SectorLink()] * 6
ufat.add_to_sector_links([4, 2, 5], tbl)
expect = [(0, True), (0, True), (5, False), (0, True), (2, False), (0, True)]
checks += 1
if [(x.next, x.end) for x in tbl] != expect:
    failures += 1
    print("MISMATCH precomputed", tbl)
try:
    ufat.add_to_sector_links([1, 9, 0], [SectorLink()] * 3)
    failures += 1
    print("MISMATCH no exception")
except InvalidFatDefinition as e:
    checks += 1
    if str(e) != "FAT entry 9 exceeds total number of FAT entries 3.":
        failures += 1
        print("MISMATCH message", e)


# (5) end to end: random Roland FAT areas through FatAreaParser
N = rfat.FAT_NUM_ENTRIES


def random_fat_area(rng, mode):
    words = [0] * N
    free = list(range(2, N - 9))
    rng.shuffle(free)
    pos = 0
    n_files = rng.randint(1, 40)
    for _ in range(n_files):
        length = rng.randint(1, 30)
        chain = free[pos:pos + length]
        pos += length
        for a, b in zip(chain, chain[1:]):
            words[a] = b
        words[chain[-1]] = rng.choice((0xfff8, 0xffff, 0xfffb))
    if mode == "reserved-mid":
        chain = free[pos:pos + 3]
        words[chain[0]] = chain[1]
        words[chain[1]] = 0x0001
    elif mode == "loop":
        chain = free[pos:pos + 3]
        words[chain[0]] = chain[1]
        words[chain[1]] = chain[2]
        words[chain[2]] = chain[0]
    elif mode == "error":
        words[free[pos]] = 0xfff7
    elif mode == "tail-link":
        # chain running into the last 9 (metadata) entries
        words[free[pos]] = N - 3
    words[0] = 0xfffa
    words[1] = rng.randint(0, 0xffff)
    words[N - 2] = 0xffff
    words[N - 1] = rng.choice((0xffff, 0xfffe))
    return struct.pack(f"<{N}H", *words) + bytes(64)


def parse_area(data, helper):
    saved = rfat.add_to_sector_links
    rfat.add_to_sector_links = helper
    try:
        try:
            area = rfat.FatAreaParser.parse_stream(io.BytesIO(data))
        except BaseException as e:  # noqa
            return ("exc", type(e).__name__, str(e))
        links = [(x.next, x.end) for x in area.fat.sector_links]
        return ("ok", area.version, area.num_remaining_clusters, links)
    finally:
        rfat.add_to_sector_links = saved


for mode in ("plain", "plain", "plain", "reserved-mid", "loop", "error",
             "tail-link"):
    data = random_fat_area(rng, mode)
    a = parse_area(data, original_add_to_sector_links)
    b = parse_area(data, ufat.add_to_sector_links)
    checks += 1
    if a != b:
        failures += 1
        print("MISMATCH end-to-end", mode, a[:3], b[:3])
    if mode == "plain" and a[0] != "ok":
        failures += 1
        print("unexpected failure on plain FAT", a)

print(f"{checks} checks, {failures} failures")
sys.exit(1 if failures else 0)
