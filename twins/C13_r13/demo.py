"""Equivalence demo for SegmentAllocationTableAdapter._decode (smpl_extract/akai/sat.py).

Compares the _decode found in the tree with an inline copy of the ORIGINAL
implementation: exhaustive small tables over an alphabet of special values
(free / EOF / both directory markers / in-range links / out-of-range and
negative links), many random larger tables, a full-size 11386 entry table, the
route through construct (Int16ul[n] parsing of raw bytes) and both ways of
giving the partition stream (object, or expression of the context; the calls
are logged).  Exit 0 when everything agrees, 1 otherwise.
"""
import io
import itertools
import random
import struct
import sys

from construct.core import Int16ul

from smpl_extract.akai.data_types import AKAI_SAT_ENTRY_CNT
from smpl_extract.akai.data_types import AKAI_SAT_EOF_FLAG
from smpl_extract.akai.data_types import AKAI_SAT_FREE_FLAG
from smpl_extract.akai.data_types import AKAI_SAT_RESERVED_FLAG_STD
from smpl_extract.akai.data_types import AKAI_SAT_RESERVED_FLAG_V2
from smpl_extract.akai.sat import SegmentAllocationTable
from smpl_extract.akai.sat import SegmentAllocationTableAdapter
from smpl_extract.util.fat import SectorLink
from smpl_extract.util.fat import add_to_sector_links


def original_decode(self, obj, context, path):
    # verbatim copy of the original method body
    del path  # Unused 
    block = obj
    if callable(self.partition_stream):
        partition_stream = self.partition_stream(context)  
    else:
        partition_stream = self.partition_stream

    size = len(block)
    sector_links = [SectorLink()] * size
    dirty_flags = [False] * size

    previous_sector_was_directory = True
    for i in range(size):
        if not dirty_flags[i]:

            links = []
            subpath_index = i
            
            continue_flag = True 
            while continue_flag:
                if subpath_index >= size:
                    continue_flag = False
                    break

                value_current = block[subpath_index]
                current_sector_is_directory = value_current in (
                        AKAI_SAT_RESERVED_FLAG_STD, 
                        AKAI_SAT_RESERVED_FLAG_V2
                )

                if not current_sector_is_directory and previous_sector_was_directory and len(links) > 0:
                    add_to_sector_links(links, sector_links)
                    previous_sector_was_directory = False
                    continue_flag = False
                    break
                elif value_current == AKAI_SAT_FREE_FLAG or \
                        (value_current < size and dirty_flags[value_current]):

                    continue_flag = False
                    dirty_flags[subpath_index] = True
                    previous_sector_was_directory = False
                    break 
                elif value_current == AKAI_SAT_EOF_FLAG:
                    links.append(subpath_index)
                    add_to_sector_links(links, sector_links)
                    dirty_flags[subpath_index] = True
                    previous_sector_was_directory = current_sector_is_directory
                    continue_flag = False
                    break
                
                dirty_flags[subpath_index] = True
                links.append(subpath_index)
                if not current_sector_is_directory:
                    subpath_index = value_current
                else:
                    subpath_index += 1
                previous_sector_was_directory = current_sector_is_directory
                
        else:
            pass

    result = SegmentAllocationTable(partition_stream, size, sector_links)
    return result


class LoggedList(list):
    """list that records reads, to compare the order of accesses to the table"""

    def __init__(self, items):
        super().__init__(items)
        self.log = []

    def __len__(self):
        self.log.append("len")
        return super().__len__()

    def __getitem__(self, index):
        self.log.append(index)
        return super().__getitem__(index)


def outcome(decode, block, use_expression):
    stream = io.BytesIO(b"partition")
    calls = []

    def expression(ctx):
        calls.append(ctx)
        return stream

    adapter = SegmentAllocationTableAdapter(
        expression if use_expression else stream,
        Int16ul[len(block)]
    )
    context = {"marker": object()}
    logged = LoggedList(block)
    try:
        table = decode(adapter, logged, context, "(path)")
    except BaseException as e:  # noqa - exceptions are part of the behaviour
        return ("raise", type(e), e.args, type(e.__cause__), logged.log,
                len(calls), all(c is context for c in calls))
    return (
        "ok",
        type(table),
        table.parent_stream is stream,
        table.size,
        [(link.next, link.end) for link in table.sector_links],
        logged.log,
        len(calls),
        all(c is context for c in calls),
    )


def paths(table):
    result = []
    for i in range(table.size):
        try:
            result.append(("ok", table.get_path(i)))
        except Exception as e:
            result.append(("raise", type(e), e.args))
    return result


failures = 0
checked = 0


def compare(block, use_expression):
    global failures, checked
    checked += 1
    new = outcome(
        lambda a, o, c, p: a._decode(o, c, p), block, use_expression
    )
    old = outcome(original_decode, block, use_expression)
    if new != old:
        failures += 1
        if failures < 10:
            print("MISMATCH", block[:32], use_expression)
            print("   new", str(new)[:300])
            print("   old", str(old)[:300])


def main():
    rng = random.Random(13)
    special = [
        AKAI_SAT_FREE_FLAG, AKAI_SAT_EOF_FLAG,
        AKAI_SAT_RESERVED_FLAG_STD, AKAI_SAT_RESERVED_FLAG_V2,
        0xFFFF, 0x3FFF, 0x4001, -1, -2,
    ]

    # exhaustive small tables
    for size in range(0, 5):
        alphabet = sorted(set(special + list(range(size + 2))))
        for block in itertools.product(alphabet, repeat=size):
            compare(list(block), size % 2 == 0)

    # random larger tables, biased towards special values and in-range links
    for n in range(6000):
        size = rng.randint(5, 80)
        block = []
        for _ in range(size):
            kind = rng.random()
            if kind < 0.35:
                block.append(rng.choice(special))
            elif kind < 0.9:
                block.append(rng.randint(0, size + 1))
            else:
                block.append(rng.randint(0, 0xFFFF))
        compare(block, n % 2 == 0)

    # well formed looking tables: directory run, then chains
    for n in range(300):
        size = rng.randint(10, 200)
        n_dir = rng.randint(0, 5)
        block = [rng.choice((0x4000, 0x8000))] * n_dir
        while len(block) < size:
            length = rng.randint(1, 6)
            start = len(block)
            for k in range(length - 1):
                block.append(start + k + 1)
            block.append(AKAI_SAT_EOF_FLAG)
        block = block[:size]
        for _ in range(rng.randint(0, 3)):
            block[rng.randrange(size)] = rng.choice(special + [rng.randrange(size)])
        compare(block, n % 2 == 0)

    # full size table
    block = [rng.choice(special[:5] + [rng.randrange(AKAI_SAT_ENTRY_CNT)])
             for _ in range(AKAI_SAT_ENTRY_CNT)]
    compare(block, True)
    compare([i + 1 for i in range(AKAI_SAT_ENTRY_CNT)], False)

    # through construct, from raw bytes, plus the paths the table then gives
    global failures, checked
    for n in range(400):
        size = rng.randint(0, 60)
        words = [rng.choice(special[:6] + list(range(size + 1))) & 0xFFFF
                 for _ in range(size)]
        raw = struct.pack("<%dH" % size, *words)
        stream = io.BytesIO(b"x")
        adapter = SegmentAllocationTableAdapter(lambda ctx: stream, Int16ul[size])
        checked += 1
        try:
            got = adapter.parse(raw)
            got = (got.size, got.sector_links, got.parent_stream is stream, paths(got))
        except Exception as e:
            got = ("raise", type(e), e.args)
        try:
            want = original_decode(adapter, list(words), {}, None)
            want = (want.size, want.sector_links, want.parent_stream is stream, paths(want))
        except Exception as e:
            want = ("raise", type(e), e.args)
        if got != want:
            failures += 1
            print("MISMATCH via construct", words)

    print("checked", checked, "failures", failures)
    return 1 if failures else 0


if __name__ == "__main__":
    sys.exit(main())
