"""Equivalence demo for r7: StreamEncoding.dtype.

Compares the property with an inline copy of the ORIGINAL body for every
combination of odd/even/unknown sample widths (ints, bools, floats, numpy
ints, strings, None, unhashable) and signedness spellings, then checks that
decode_frame/encode_frame, which consume the dtype, still produce identical
bytes.  Exit 0 when everything agrees, 1 otherwise.
"""
from io import BytesIO
import itertools
import sys
from typing import Dict

import numpy as np

import smpl_extract.transcoder as T
from smpl_extract.data_streams import DataStream
from smpl_extract.data_streams import Endianess
from smpl_extract.data_streams import StreamEncoding


def dtype_ORIG(self) -> np.dtype:
    # verbatim body of the original property
    if self.is_signed:
        default = np.dtype("int16")
        mapping: Dict[int, np.dtype] = {
            1:  np.dtype("int8"),
            2:  np.dtype("int16"),
            4:  np.dtype("int32"),
            8:  np.dtype("int64")
        }
    else:
        default = np.dtype("uint8")
        mapping: Dict[int, np.dtype] = {
            1:  np.dtype("uint8"),
            2:  np.dtype("uint16"),
            4:  np.dtype("uint32"),
            8:  np.dtype("uint64")
        }
    result = mapping.get(self.sample_width, default)
    return result


def outcome(f):
    try:
        d = f()
    except Exception as e:  # noqa
        return ("EXC", type(e).__name__, str(e))
    return ("OK", d, type(d).__name__, d.str, d.name, d.kind, d.itemsize,
            d.byteorder, d.isnative)


def main():
    bad = 0
    n = 0

    widths = list(range(-3, 20)) + [
        16, 32, 64, 255, 2 ** 40, True, False, 1.0, 2.0, 4.0, 8.0, 2.5,
        float("inf"), np.int8(1), np.int64(4), np.uint16(8), np.float32(2),
        "1", "2", b"\x02", None, (2,), 2 + 0j,
        [2], {2: 2}, {2},          # unhashable -> TypeError from dict.get
    ]
    signs = [True, False, 1, 0, 2, -1, None, "", "no", [], [0], 0.0, 1.5,
             np.bool_(True), np.bool_(False)]
    ends = (Endianess.LITTLE, Endianess.BIG)
    for w, s, e, c in itertools.product(widths, signs, ends, (0, 1, 2, 3)):
        enc = StreamEncoding(e, w, c, s)
        a = outcome(lambda: enc.dtype)
        b = outcome(lambda: dtype_ORIG(enc))
        n += 1
        same = a == b
        if same and a[0] == "OK":
            # builtin dtypes are singletons: the very same object is returned
            same = a[1] is b[1] and enc.dtype is enc.dtype
        if not same:
            bad += 1
            if bad <= 5:
                print("MISMATCH", repr(w), repr(s), e, c, a, b)

    # consumers of the dtype: decode -> encode round trips
    rng = np.random.RandomState(7)
    for w, s, c, frames, extra in itertools.product(
            (1, 2, 3, 4, 8), (True, False), (1, 2, 3), (0, 1, 5, 33), (0, 1)):
        enc = StreamEncoding(Endianess.LITTLE, w, c, s)
        data = rng.randint(
            0, 256, size=frames * c * w + extra, dtype=np.uint8).tobytes()
        res = []
        for dt in (enc.dtype, dtype_ORIG(enc)):
            ds = DataStream(BytesIO(data), enc)
            try:
                arr = np.frombuffer(
                    T.resize_buffer(data, max(1, ds.frame_size)), dtype=dt)
                chans = T.decode_frame([ds], [len(data)])
                out = T.encode_frame(chans, dt) if frames else b""
                res.append((arr.tobytes(), [x.tobytes() for x in chans],
                            [x.dtype for x in chans], out))
            except Exception as ex:  # noqa
                res.append(("EXC", type(ex).__name__, str(ex)))
        n += 1
        if res[0] != res[1]:
            bad += 1
            if bad <= 5:
                print("MISMATCH roundtrip", w, s, c, frames, extra)

    print(f"{n} cases, {bad} mismatches")
    return 1 if bad else 0


if __name__ == "__main__":
    sys.exit(main())
