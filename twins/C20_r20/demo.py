"""Equivalence evidence for r20: smpl_extract/util/dataclass.py,
itemize_general (turns a parsed element's fields into the nested dict / tuple
of strings that InfoTree renders for `ls`).

The refactoring separates data selection from conversion: the three mapping
branches (construct Container, dict, dataclass) now only choose an iterable of
(key, value) `pairs` - for a dataclass a lazy generator over fields() - and one
shared dict comprehension applies process_value; the sequence case returns its
tuple directly.

Inline copies of the ORIGINAL itemize_general / process_value are compared with
the live ones:
  1. hand-made values: dicts, Containers with private / empty keys, nested
     dataclasses, dataclass *classes*, objects with itemize(), lists, tuples,
     generators, str, bytes, streams, None, numbers, dict subclasses with odd
     items(), values whose access fails half-way (result incl. key order and
     types, or same exception type and message);
  2. the ORDER of side effects: attribute reads, itemize() calls and str()
     calls are logged and must be identical;
  3. 3000 random nested structures;
  4. real elements: 200 random AKAI programs and sample headers parsed from
     bytes - LeafElement.itemize() and the `ls` text against the ORIGINAL
     applied to the same field dict.
Exit 0 = all agree, 1 = a difference was found.
"""
from collections.abc import Iterable
import io
import random
import struct
import sys
from dataclasses import dataclass
from dataclasses import field
from dataclasses import fields
from dataclasses import is_dataclass
from io import IOBase

from construct.lib.containers import Container
from construct.lib.containers import ListContainer

from smpl_extract.akai.program import ProgramParser
from smpl_extract.akai.sample import SampleAdapter
from smpl_extract.akai.sample import SampleHeaderConstruct
from smpl_extract.info import InfoTree
from smpl_extract.util.constructs import sanitize_container
from smpl_extract.util.dataclass import itemize_general
from smpl_extract.util.dataclass import process_value


# --------------------------------------------------------------------------
# inline copy of the ORIGINAL implementation
# --------------------------------------------------------------------------
def orig_process_value(value):
    if hasattr(value, "itemize"):
        result = value.itemize()
    elif is_dataclass(value):
        result = orig_itemize_general(value)
    elif not isinstance(value, str) and not isinstance(value, IOBase) \
            and isinstance(value, Iterable):

        result = orig_itemize_general(value)  # type: ignore
    else:
        result = str(value)
        return result
    
    return result


def orig_itemize_general(self):
    if isinstance(self, Container):
        sanitized = sanitize_container(self)
        result = {
            k: orig_process_value(v) for k, v in sanitized.items()
        }
    elif isinstance(self, dict):
        result = {
            k: orig_process_value(v) for k, v in self.items()
        }
    elif is_dataclass(self):
        result = {
            k.name: orig_process_value(getattr(self, k.name))
            for k in fields(self)
        }
    else:
        result = tuple(orig_process_value(v) for v in self)
    return result


# --------------------------------------------------------------------------
failures = 0
checked = 0
LOG = []


def fail(*msg):
    global failures
    failures += 1
    if failures <= 5:
        print("MISMATCH", *[repr(m)[:500] for m in msg])


def tree(t):
    if isinstance(t, dict):
        return ("dict", type(t).__name__, [(k, tree(v)) for k, v in t.items()])
    if isinstance(t, tuple):
        return ("tuple", type(t).__name__, [tree(v) for v in t])
    return (type(t).__name__, repr(t))


def observe(func, make):
    """make() builds a fresh argument (generators / streams are consumed)"""
    del LOG[:]
    try:
        value = make()
        out = ("ok", tree(func(value)))
    except Exception as e:  # noqa
        out = ("exc", type(e).__name__, str(e))
    return out, list(LOG)


def compare(tag, make):
    global checked
    checked += 1
    a = observe(orig_itemize_general, make)
    b = observe(itemize_general, make)
    if a != b:
        fail(tag, a, b)
    checked += 1
    a = observe(orig_process_value, make)
    b = observe(process_value, make)
    if a != b:
        fail(tag + " (process_value)", a, b)


class Noisy:
    """str() is logged"""
    def __init__(self, tag):
        self.tag = tag
    def __str__(self):
        LOG.append(("str", self.tag))
        return "<%s>" % self.tag


class Itemizer:
    def __init__(self, tag, boom=False):
        self.tag = tag
        self.boom = boom
    def itemize(self):
        LOG.append(("itemize", self.tag))
        if self.boom:
            raise RuntimeError("itemize " + self.tag)
        return {"tag": self.tag, "n": ("1", "2")}


# shared instances: their str() contains the object address
BYTE_STREAM = io.BytesIO(b"line1\nline2\n")
TEXT_STREAM = io.StringIO("l1\nl2")
PLAIN_OBJECT = object()


def rewound(stream):
    stream.seek(0)
    return stream


@dataclass
class Inner:
    a: int = 1
    b: str = "two"
    _hidden: float = 3.0


@dataclass
class Outer:
    first: Inner = field(default_factory=Inner)
    items: tuple = (Inner(5, "x"), "s", 7)
    mapping: dict = field(default_factory=lambda: {"k": Inner(), "": 0, "_p": [1, 2]})
    con: Container = field(default_factory=lambda: Container(a=1, _b=2, c=Container(_d=3, e=[4, 5])))
    text: str = "plain"
    stream: IOBase = field(default_factory=lambda: BYTE_STREAM)
    none: object = None


@dataclass
class Watched:
    """attribute reads of the fields are logged"""
    x: object = None
    y: object = None
    z: object = None
    def __getattribute__(self, name):
        if name in ("x", "y", "z"):
            LOG.append(("get", name))
        return object.__getattribute__(self, name)


@dataclass
class Broken:
    good: int = 1
    bad: int = 2
    later: int = 3
    def __getattribute__(self, name):
        if name in ("good", "bad", "later"):
            LOG.append(("get", name))
        if name == "bad":
            raise AttributeError("no bad today")
        return object.__getattribute__(self, name)


@dataclass
class NoDefault:
    must: int
    opt: int = 4


class OddItems(dict):
    def __init__(self, result):
        super().__init__(a=1, b=2)
        self.result = result
    def items(self):
        LOG.append(("items",))
        return self.result


class LoggingDict(dict):
    def items(self):
        LOG.append(("items",))
        return super().items()
    def __iter__(self):
        LOG.append(("iter",))
        return super().__iter__()


class DataAndItemize(Inner):
    def itemize(self):
        LOG.append(("itemize", "DataAndItemize"))
        return ("own",)


def gen():
    LOG.append(("gen", 0))
    yield Noisy("g0")
    LOG.append(("gen", 1))
    yield Itemizer("g1")
    LOG.append(("gen", 2))
    yield [Noisy("g2")]


def random_value(rng, depth=0):
    roll = rng.random()
    if depth > 3 or roll < 0.25:
        return rng.choice((0, 1.5, "txt", "", None, True, b"by", Noisy("n%d" % rng.randrange(9))))
    if roll < 0.4:
        return [random_value(rng, depth + 1) for _ in range(rng.randrange(0, 4))]
    if roll < 0.5:
        return tuple(random_value(rng, depth + 1) for _ in range(rng.randrange(0, 4)))
    if roll < 0.65:
        keys = ["k%d" % i for i in range(rng.randrange(0, 4))] + rng.choice(([], ["_x"], [""], [3]))
        rng.shuffle(keys)
        return {k: random_value(rng, depth + 1) for k in keys}
    if roll < 0.8:
        keys = ["c%d" % i for i in range(rng.randrange(0, 4))] + rng.choice(([], ["_io"], ["_y", ""]))
        rng.shuffle(keys)
        return Container({k: random_value(rng, depth + 1) for k in keys})
    if roll < 0.9:
        return Watched(random_value(rng, depth + 1), random_value(rng, depth + 1), random_value(rng, depth + 1))
    if roll < 0.95:
        return Itemizer("r%d" % rng.randrange(9))
    return ListContainer([random_value(rng, depth + 1) for _ in range(rng.randrange(0, 3))])


def akai_name(rng):
    n = rng.randrange(0, 13)
    return bytes(rng.randrange(0, 0x29) for _ in range(n)) + bytes([0x0A] * (12 - n))


def make_program_blob(rng):
    num = rng.randrange(1, 5)
    hdr = bytearray(rng.randrange(256) for _ in range(72))
    hdr[1:3] = struct.pack("<H", 72)
    hdr[3:15] = akai_name(rng)
    hdr[18] = rng.randrange(4)
    hdr[19] = rng.randrange(21, 128)
    hdr[20] = rng.randrange(21, 128)
    hdr[42] = num
    hdr[61] = rng.randrange(2)
    out = bytearray(hdr)
    for i in range(num):
        kg = bytearray(rng.randrange(256) for _ in range(34))
        kg[1:3] = struct.pack("<H", 72 + 150 * (i + 1))
        kg[3] = rng.randrange(21, 128)
        kg[4] = rng.randrange(21, 128)
        kg[31] = 4
        for z in range(4):
            kg += akai_name(rng) + bytes(rng.randrange(256) for _ in range(12))
        kg += bytes(rng.randrange(256) for _ in range(20))
        assert len(kg) == 150
        out += kg
    return bytes(out)


def make_sample_blob(rng):
    play_start = rng.randrange(0, 50)
    play_end = play_start + rng.randrange(0, 50)
    header = bytes([rng.choice((1, 3)), rng.randrange(256), rng.randrange(21, 128)]) + akai_name(rng)
    header += bytes(rng.randrange(256) for _ in range(4))
    header += bytes([rng.randrange(0, 4), rng.randrange(256), rng.randrange(256)])
    header += bytes(rng.randrange(256) for _ in range(4))
    header += struct.pack("<III", rng.randrange(2**32), play_start, play_end)
    for _ in range(8):
        header += struct.pack("<IHIH", rng.randrange(2**20), rng.randrange(65536),
                              rng.randrange(2**20), rng.choice((0, 0, 50, 9999, rng.randrange(65536))))
    header += bytes(rng.randrange(256) for _ in range(4))
    header += struct.pack("<H", rng.choice((0, 22050, 44100, rng.randrange(65536))))
    return header + bytes(rng.randrange(256) for _ in range(2 * play_end + 4))


EXCLUDE = ["name", "path", "type_id", "type_name", "safe_name", "export_name"]


def compare_element(tag, element):
    global checked
    checked += 1
    items_dict = {
        k.name: getattr(element, k.name)
        for k in fields(element)
        if element.is_public_field(k.name, EXCLUDE)
    }
    expected = orig_itemize_general(items_dict)
    got = element.itemize()
    if tree(expected) != tree(got):
        fail(tag + " itemize", tree(expected), tree(got))
    header = (element.safe_name, " " * 2, element.type_name)
    text_expected = InfoTree(header, expected).to_string()
    text_got = element.get_info().to_string()
    if text_expected != text_got:
        fail(tag + " ls text", text_expected, text_got)


def main():
    rng = random.Random(0xC20_20)

    # 1. + 2. hand-made values
    cases = {
        "empty dict": lambda: {},
        "dict": lambda: {"a": 1, "_b": Noisy("b"), "": [Noisy("c"), {"d": Noisy("e")}], 5: None},
        "container": lambda: Container(a=Noisy("a"), _b=Noisy("hidden"), c=Container(_io=1, d=Noisy("d"))),
        "container empty key": lambda: Container({"": 1, "x": 2, "_": 3}),
        "container int key": lambda: Container({1: 2}),
        "list container": lambda: ListContainer([Container(a=1), Noisy("l"), "s"]),
        "inner": lambda: Inner(),
        "outer": lambda: Outer(),
        "dataclass class": lambda: Inner,
        "dataclass class no default": lambda: NoDefault,
        "no default instance": lambda: NoDefault(9),
        "watched": lambda: Watched(Noisy("x"), [Noisy("y1"), Itemizer("y2")], Watched(Noisy("zx"), Noisy("zy"), Noisy("zz"))),
        "broken": lambda: Broken(),
        "broken nested": lambda: {"before": Noisy("b"), "mid": Broken(), "after": Noisy("a")},
        "itemizer": lambda: Itemizer("top"),
        "itemizer boom": lambda: [Noisy("first"), Itemizer("boom", True), Noisy("never")],
        "data and itemize": lambda: DataAndItemize(),
        "data and itemize nested": lambda: [DataAndItemize()],
        "list": lambda: [1, "two", [3, [4, [5]]], (), {}],
        "tuple": lambda: (Noisy("t0"), Noisy("t1")),
        "generator": gen,
        "range": lambda: range(4),
        "set": lambda: {7},
        "str": lambda: "hello",
        "empty str": lambda: "",
        "bytes": lambda: b"\x00\x01\xff",
        "bytearray": lambda: bytearray(b"ab"),
        "stream": lambda: rewound(BYTE_STREAM),
        "text stream": lambda: rewound(TEXT_STREAM),
        "stream in list": lambda: [rewound(BYTE_STREAM), rewound(TEXT_STREAM)],
        "none": lambda: None,
        "int": lambda: 5,
        "float": lambda: 2.5,
        "object": lambda: PLAIN_OBJECT,
        "object in dict": lambda: {"o": PLAIN_OBJECT},
        "noisy": lambda: Noisy("alone"),
        "odd items none": lambda: OddItems(None),
        "odd items pairs": lambda: OddItems([("p", Noisy("p")), ("q", [Noisy("q")])]),
        "odd items triple": lambda: OddItems([("p", 1, 2)]),
        "odd items gen": lambda: OddItems((("g%d" % i, Noisy("g%d" % i)) for i in range(3))),
        "odd items str": lambda: OddItems("ab"),
        "logging dict": lambda: LoggingDict(a=Noisy("a"), b=LoggingDict(c=Noisy("c"))),
        "dict of bad": lambda: {"x": 1, "y": Itemizer("bad", True), "z": Noisy("z")},
        "unhashable key pairs": lambda: OddItems([(["list"], 1)]),
        "deep": lambda: {"l1": {"l2": {"l3": [Container(l4=Inner(b=Noisy("deep")))]}}},
    }
    for tag, make in cases.items():
        compare(tag, make)

    # 3. random structures
    for n in range(3000):
        state = rng.getstate()

        def make(state=state):
            local = random.Random()
            local.setstate(state)
            return random_value(local)

        rng.random()
        compare("random %d" % n, make)

    # 4. real elements
    programs_ok = samples_ok = 0
    for n in range(200):
        blob = make_program_blob(rng)
        try:
            prog = ProgramParser.parse(blob, _elem_name="P%d" % n)
        except Exception:  # noqa  (random header rejected)
            continue
        programs_ok += 1
        compare_element("program %d" % n, prog)
    sample_parser = SampleAdapter(SampleHeaderConstruct)
    for n in range(200):
        blob = make_sample_blob(rng)
        try:
            smp = sample_parser.parse(blob, _elem_name="S%d" % n)
        except Exception:  # noqa
            continue
        samples_ok += 1
        compare_element("sample %d" % n, smp)
    if programs_ok < 100 or samples_ok < 100:
        fail("too few real elements", programs_ok, samples_ok)

    print("r20 demo: %d comparisons (%d programs, %d samples), %d failures"
          % (checked, programs_ok, samples_ok, failures))
    return 1 if failures else 0


if __name__ == "__main__":
    sys.exit(main())
