"""Equivalence demo for r9: decode_frame (smpl_extract/transcoder.py).

An inline copy of the ORIGINAL decode_frame is compared with the one in the
tree on a grid of stream encodings (sample width, channel count, signedness,
endianess), payload lengths, requested buffer sizes and multi-stream
combinations, including streams that return b"", None, or raise.  Compared:
the returned channel list (length, dtype, shape, bytes, strides, writeable
flag), exceptions (type and message) and the exact sequence of stream
operations.  Additionally whole transcoder runs (make_transcoder) are compared
against a run in which the module's decode_frame is replaced by the original.
Exit 0 when everything agrees, 1 otherwise.
"""
import itertools
import sys
from io import BytesIO
from typing import List
from unittest.mock import patch

import numpy as np

from smpl_extract import transcoder
from smpl_extract.data_streams import DataStream
from smpl_extract.data_streams import Endianess
from smpl_extract.data_streams import StreamEncoding
from smpl_extract.transcoder import resize_buffer
from smpl_extract.util.stream import SectorReadError


def orig_decode_frame(streams, buffer_sizes):
    # verbatim copy of the original implementation
    channels: List[np.ndarray] = []

    for stream, size in zip(streams, buffer_sizes):
        dtype = stream.encoding.dtype
        num_channels = max(1, stream.encoding.num_interleaved_channels)
        buffer = stream.stream.read(size)
        buffer = resize_buffer(buffer, stream.frame_size)

        if buffer is None or len(buffer) <= 0:
            for i in range(num_channels):
                channels.append(np.zeros(0, dtype=dtype))
            continue

        samples_interleaved: np.ndarray = np.frombuffer(buffer, dtype=dtype)
        samples = [samples_interleaved]
        if num_channels > 1:
            samples_arr = samples_interleaved.reshape((-1, num_channels)).T
            samples = list(samples_arr)

        channels += samples

    return channels


class LoggingStream:
    """File-like object recording every operation performed on it."""

    def __init__(self, payload, log, tag, mode="bytes"):
        self._io = BytesIO(payload)
        self._log = log
        self._tag = tag
        self._mode = mode

    def read(self, size=-1):
        self._log.append((self._tag, "read", size))
        if self._mode == "none":
            return None
        if self._mode == "raise":
            raise SectorReadError("boom")
        if self._mode == "bytearray":
            return bytearray(self._io.read(size))
        return self._io.read(size)

    def seek(self, offset, whence=0):
        self._log.append((self._tag, "seek", offset, whence))
        return self._io.seek(offset, whence)

    def tell(self):
        self._log.append((self._tag, "tell"))
        return self._io.tell()


def describe(result):
    if not isinstance(result, list):
        return ("notlist", repr(result))
    out = []
    for arr in result:
        out.append((
            type(arr).__name__,
            str(arr.dtype),
            arr.shape,
            arr.strides,
            bool(arr.flags.writeable),
            arr.tobytes(),
        ))
    return ("list", out)


def run(func, spec, sizes, num_calls=3):
    """spec: list of (payload, encoding, mode)."""
    log = []
    streams = []
    for idx, (payload, encoding, mode) in enumerate(spec):
        streams.append(DataStream(LoggingStream(payload, log, idx, mode), encoding))
    outcomes = []
    for _ in range(num_calls):
        try:
            outcomes.append(("ok", describe(func(streams, sizes))))
        except BaseException as e:  # noqa
            outcomes.append(("exc", type(e).__name__, str(e)))
    return outcomes, log


failures = 0
checked = 0


def compare(spec, sizes):
    global failures, checked
    checked += 1
    a = run(orig_decode_frame, spec, sizes)
    b = run(transcoder.decode_frame, spec, sizes)
    if a != b:
        failures += 1
        if failures <= 10:
            print("MISMATCH", spec, sizes)
            print("  orig:", a)
            print("  new: ", b)


payload_src = bytes((i * 37 + 11) % 256 for i in range(64))
encodings = [
    StreamEncoding(endianess=e, sample_width=w, num_interleaved_channels=c, is_signed=s)
    for e in (Endianess.LITTLE, Endianess.BIG)
    for w in (1, 2, 3, 4, 8)
    for c in (0, 1, 2, 3, 4)
    for s in (True, False)
]

# single stream grid
for enc in encodings:
    for n in (0, 1, 2, 3, 4, 5, 7, 8, 12, 16, 23, 24, 48, 64):
        for size in (0, 1, 2, 4, 6, 8, 16, 24, 0x1000):
            compare([(payload_src[:n], enc, "bytes")], [size])

# odd stream behaviours
for enc in encodings:
    for mode in ("none", "raise", "bytearray"):
        compare([(payload_src[:16], enc, mode)], [8])

# multi stream combinations (including unequal lengths / sizes / zip truncation)
small_encs = [
    StreamEncoding(sample_width=2, num_interleaved_channels=1),
    StreamEncoding(sample_width=2, num_interleaved_channels=2),
    StreamEncoding(sample_width=1, num_interleaved_channels=1, is_signed=False),
    StreamEncoding(endianess=Endianess.BIG, sample_width=4, num_interleaved_channels=3),
    StreamEncoding(sample_width=3, num_interleaved_channels=1),
]
for enc_a, enc_b in itertools.product(small_encs, repeat=2):
    for n_a, n_b in itertools.product((0, 3, 8, 24), repeat=2):
        for sizes in ([8, 8], [4, 12], [12], [8, 8, 8], []):
            for mode_b in ("bytes", "raise", "none"):
                compare(
                    [(payload_src[:n_a], enc_a, "bytes"),
                     (payload_src[10:10 + n_b], enc_b, mode_b)],
                    sizes,
                )
compare([], [])
compare([], [4])


# whole transcoder runs: tree version vs. module patched with the original
def run_transcoder(decode_impl, spec, dest):
    log = []
    streams = [
        DataStream(LoggingStream(payload, log, idx, mode), enc)
        for idx, (payload, enc, mode) in enumerate(spec)
    ]
    with patch("smpl_extract.transcoder.decode_frame", decode_impl):
        try:
            blocks = list(transcoder.make_transcoder(streams, dest))
            out = ("ok", blocks)
        except BaseException as e:  # noqa
            out = ("exc", type(e).__name__, str(e))
    return out, log


tree_decode_frame = transcoder.decode_frame
mono16 = StreamEncoding(sample_width=2, num_interleaved_channels=1)
mono16be = StreamEncoding(endianess=Endianess.BIG, sample_width=2, num_interleaved_channels=1)
stereo16 = StreamEncoding(sample_width=2, num_interleaved_channels=2)
stereo16be = StreamEncoding(endianess=Endianess.BIG, sample_width=2, num_interleaved_channels=2)
long_payload = bytes((i * 73 + 5) % 256 for i in range(3 * 0x1000 + 7))
pipeline_cases = [
    ([(long_payload, mono16, "bytes"), (long_payload[::-1], mono16, "bytes")], stereo16),
    ([(long_payload, mono16be, "bytes"), (long_payload[:5000], mono16, "bytes")], stereo16),
    ([(long_payload, mono16be, "bytes"), (long_payload[:5001], mono16be, "bytes")], stereo16),
    ([(long_payload, stereo16be, "bytes")], stereo16),
    ([(long_payload, stereo16, "bytes")], stereo16),
    ([(long_payload[:9], mono16be, "bytes")], mono16),
    ([(b"", mono16be, "bytes")], mono16),
    ([(long_payload, mono16be, "raise")], mono16),
    ([(long_payload, mono16, "bytes"), (long_payload, mono16, "raise")], stereo16),
    ([(long_payload, mono16, "bytes")], stereo16),
]
for spec, dest in pipeline_cases:
    checked += 1
    a = run_transcoder(orig_decode_frame, spec, dest)
    b = run_transcoder(tree_decode_frame, spec, dest)
    if a != b:
        failures += 1
        print("PIPELINE MISMATCH", [(len(p), e, m) for p, e, m in spec], dest)

print(f"checked {checked} cases, {failures} mismatches")
sys.exit(1 if failures else 0)
