"""Equivalence demo for r9: actions.attempt_parse_cue_sheet.

The refactoring spells the "first non-audio track" search as a for/break loop
instead of next(generator, None), inverts the all-audio test into a guard that
raises, and inlines the bin_file_stream / bin_image / image temporaries.

The demo runs an inline copy of the ORIGINAL implementation and the module's
implementation on the same cue sheets with the collaborators (parse_cue_sheet
is real; open, determine_image_type and CompactDiskAudioImageAdapter are
recording stand-ins installed in the module namespace) and compares the return
value / exception and the ordered log of collaborator calls, including the
order of `mode.lower()` evaluations on the tracks.  A second part runs the real
collaborators on real files in a temporary directory.
"""
import builtins
import os
import random
import shutil
import sys
import tempfile

from smpl_extract import actions
from smpl_extract.cuesheet import BadCueSheet
from smpl_extract.cuesheet import CueSheetFile
from smpl_extract.cuesheet import CueSheetTrack
from smpl_extract.cuesheet import parse_cue_sheet


def original_attempt_parse_cue_sheet(lines, directory=""):
    os = actions.os
    open = actions.open  # noqa: A001  (stand-in or builtin, see install())
    determine_image_type = actions.determine_image_type
    CompactDiskAudioImageAdapter = actions.CompactDiskAudioImageAdapter
    parse_cue_sheet = actions.parse_cue_sheet

    cue_sheet_file = parse_cue_sheet(lines)
    binary_track = next(
        (x for x in cue_sheet_file.tracks if x.mode.lower() != "audio"),
        None
    )
    if binary_track:
        bin_file_path = os.path.join(directory, cue_sheet_file.bin_file_name)
        bin_file_stream = open(bin_file_path, "rb")
        bin_image = determine_image_type(bin_file_stream)
        return bin_image

    if all((x.mode.lower() == "audio" for x in cue_sheet_file.tracks)):
        bin_file_path = os.path.join(directory, cue_sheet_file.bin_file_name)
        bin_file_stream = open(bin_file_path, "rb")
        image = CompactDiskAudioImageAdapter.from_bin_cue(
            bin_file_stream,
            cue_sheet_file
        )
        return image

    raise BadCueSheet


LOG = []


class Boom(Exception):
    pass


class LoggedMode(str):
    """A str whose .lower() is logged; optionally answers differently on each
    call so that the otherwise unreachable trailing `raise BadCueSheet` and the
    all() short-circuit are exercised as well."""

    def __new__(cls, value, tag, script=None):
        self = super().__new__(cls, value)
        self.tag = tag
        self.script = list(script) if script else None
        return self

    def lower(self):
        if self.script:
            answer = self.script.pop(0)
        else:
            answer = str.lower(self)
        LOG.append(("lower", self.tag, answer))
        if answer == "!boom":
            raise Boom("lower")
        return answer


class FakeHandle:
    def __init__(self, path, mode):
        self.path = path
        self.mode = mode

    def __repr__(self):
        return "FakeHandle(%r, %r)" % (self.path, self.mode)


class Env:
    """Recording stand-ins for the collaborators."""

    def __init__(self, open_fails=False, detect_fails=False, cdda_fails=False,
                 scripted_file=None):
        self.open_fails = open_fails
        self.detect_fails = detect_fails
        self.cdda_fails = cdda_fails
        self.scripted_file = scripted_file

    def open(self, *args, **kwargs):
        LOG.append(("open", args, kwargs))
        if self.open_fails:
            raise FileNotFoundError(args[0])
        return FakeHandle(*args)

    def determine_image_type(self, *args, **kwargs):
        LOG.append(("determine_image_type", repr(args), kwargs))
        if self.detect_fails:
            raise Boom("detect")
        return ("IMAGE", repr(args))

    def from_bin_cue(self, *args, **kwargs):
        LOG.append(("from_bin_cue", repr(args[0]), id(args[1]) and "cue", kwargs))
        if self.cdda_fails:
            raise Boom("cdda")
        return ("CDDA", repr(args[0]), [t.number for t in args[1].tracks])

    def parse_cue_sheet(self, lines):
        LOG.append(("parse_cue_sheet", len(lines)))
        if self.scripted_file is not None:
            return self.scripted_file
        return parse_cue_sheet(lines)


SAVED = {}


def install(env):
    for name in ("determine_image_type", "CompactDiskAudioImageAdapter",
                 "parse_cue_sheet"):
        SAVED[name] = getattr(actions, name)
    actions.open = env.open
    actions.determine_image_type = env.determine_image_type
    actions.CompactDiskAudioImageAdapter = type(
        "FakeCdda", (), {"from_bin_cue": staticmethod(env.from_bin_cue)}
    )
    actions.parse_cue_sheet = env.parse_cue_sheet


def uninstall():
    for name, value in SAVED.items():
        setattr(actions, name, value)
    SAVED.clear()
    if "open" in vars(actions):
        del actions.open


def run(fn, make_args):
    del LOG[:]
    args = make_args()
    try:
        out = ("ret", fn(*args))
    except BaseException as e:  # noqa
        out = ("exc", type(e).__name__, str(e))
    return repr(out), list(LOG)


MODES = ["AUDIO", "audio", "Audio", "MODE1/2352", "MODE1/2048", "mode2/2336",
         "CDG", "aUdIo"]


def make_cue_text(rng, n_tracks, force=None):
    lines = []
    if rng.random() < 0.3:
        lines.append("REM something\n")
    if rng.random() < 0.15:
        lines.append("\n")
    lines.append('FILE "%s" BINARY\n' % rng.choice(["a.bin", "sub/b.img", "x y.bin", ""]))
    for i in range(n_tracks):
        if force == "audio":
            mode = rng.choice(["AUDIO", "audio", "Audio", "aUdIo"])
        elif force == "data":
            mode = rng.choice(["MODE1/2352", "MODE1/2048", "mode2/2336"])
        else:
            mode = rng.choice(MODES)
        lines.append("  TRACK %02d %s\n" % (i + 1, mode))
        if rng.random() < 0.5:
            lines.append('    TITLE "t%d"\n' % i)
        if rng.random() < 0.8:
            lines.append("    INDEX 01 %02d:%02d:%02d\n" % (i, rng.randrange(60), rng.randrange(75)))
        if rng.random() < 0.1:
            lines.append("    FLAGS DCP\n")
    return lines


def part_stubbed(rng):
    checked = bad = 0
    cases = []

    # real parser, generated cue sheets
    for i in range(400):
        n_tracks = rng.choice([0, 0, 1, 1, 2, 3, 5, 9])
        force = rng.choice([None, None, "audio", "data"])
        text = make_cue_text(rng, n_tracks, force)
        directory = rng.choice([None, "", "dir", "/abs/dir", "a/b/"])
        env_kw = rng.choice([{}, {}, {}, {"open_fails": True}, {"detect_fails": True},
                             {"cdda_fails": True}])
        cases.append((text, directory, env_kw, None))

    # not cue sheets at all
    for text in ([], ["\n"], ["hello\n"], ["TRACK 01 AUDIO\n"], ['FILE "x" WAVE\n'],
                 ['FILE "x" BINARY\n'], ['file "x.bin" binary\n', "track 1 audio\n"]):
        cases.append((text, "d", {}, None))

    # scripted tracks whose mode answers are logged / change between calls
    def scripted(spec):
        tracks = []
        for n, item in enumerate(spec):
            if isinstance(item, tuple):
                value, script = item
            else:
                value, script = item, None
            tracks.append(CueSheetTrack(n + 1, LoggedMode(value, n + 1, script)))
        return lambda: CueSheetFile("s.bin", tracks_copy(tracks))

    def tracks_copy(tracks):
        return [CueSheetTrack(t.number, LoggedMode(str(t.mode), t.mode.tag, t.mode.script))
                for t in tracks]

    specs = [
        [],
        ["AUDIO"],
        ["AUDIO", "AUDIO", "AUDIO"],
        ["MODE1/2352"],
        ["AUDIO", "MODE1/2352", "AUDIO", "MODE2/2336"],
        ["AUDIO", "AUDIO", "MODE1/2048"],
        # says audio in the first pass, something else in the second: falls to raise
        [("AUDIO", ["audio", "data"])],
        ["AUDIO", ("AUDIO", ["audio", "data"]), "AUDIO"],
        [("AUDIO", ["audio", "data"]), ("AUDIO", ["audio", "data"])],
        # lower() raising in the first / second pass
        [("AUDIO", ["!boom"])],
        ["AUDIO", ("X", ["audio", "!boom"]), "AUDIO"],
        # non-audio only on the first look
        [("X", ["data", "audio"]), "AUDIO"],
    ]
    for spec in specs:
        for env_kw in ({}, {"open_fails": True}, {"detect_fails": True}, {"cdda_fails": True}):
            cases.append((["ignored\n"], "d", env_kw, scripted(spec)))

    for text, directory, env_kw, file_factory in cases:
        results = []
        for fn_name in ("orig", "new"):
            env = Env(scripted_file=file_factory() if file_factory else None, **env_kw)
            install(env)
            try:
                fn = original_attempt_parse_cue_sheet if fn_name == "orig" \
                    else actions.attempt_parse_cue_sheet
                if directory is None:
                    results.append(run(fn, lambda: (list(text),)))
                else:
                    results.append(run(fn, lambda: (list(text), directory)))
            finally:
                uninstall()
        checked += 1
        if results[0] != results[1]:
            bad += 1
            print("MISMATCH", text, directory, env_kw)
            print("  orig:", results[0])
            print("  new: ", results[1])
    return checked, bad


def part_real(rng):
    """Real collaborators, real files."""
    checked = bad = 0
    tmp = tempfile.mkdtemp(prefix="r9demo")
    handles = []
    real_open = builtins.open

    def tracking_open(*a, **k):
        h = real_open(*a, **k)
        handles.append(h)
        return h

    try:
        with real_open(os.path.join(tmp, "data.bin"), "wb") as f:
            f.write(bytes(rng.randrange(256) for _ in range(5000)))
        with real_open(os.path.join(tmp, "audio.bin"), "wb") as f:
            f.write(bytes(2352 * 40))
        sheets = {
            "data": ['FILE "data.bin" BINARY\n', "  TRACK 01 MODE1/2352\n", "    INDEX 01 00:00:00\n"],
            "mixed": ['FILE "data.bin" BINARY\n', "  TRACK 01 MODE1/2048\n", "    INDEX 01 00:00:00\n",
                      "  TRACK 02 AUDIO\n", "    INDEX 01 00:00:10\n"],
            "audio": ['FILE "audio.bin" BINARY\n', "  TRACK 01 AUDIO\n", "    INDEX 01 00:00:00\n",
                      "  TRACK 02 audio\n", '    TITLE "two"\n', "    INDEX 01 00:00:20\n"],
            "empty": ['FILE "audio.bin" BINARY\n'],
            "missing": ['FILE "nope.bin" BINARY\n', "  TRACK 01 AUDIO\n"],
            "missing2": ['FILE "nope.bin" BINARY\n', "  TRACK 01 MODE1/2352\n"],
            "garbage": ["not a cue\n"],
        }
        expected = {
            "data": "ret AkaiImageParser",
            "mixed": "ret AkaiImageParser",
            "audio": "ret CompactDiskAudioImage",
            "empty": "ret CompactDiskAudioImage",
            "missing": "exc FileNotFoundError",
            "missing2": "exc FileNotFoundError",
            "garbage": "exc BadCueSheet",
        }
        actions.open = tracking_open
        try:
            for key, text in sheets.items():
                outs = []
                for fn in (original_attempt_parse_cue_sheet, actions.attempt_parse_cue_sheet):
                    try:
                        r = fn(list(text), tmp)
                        out = "ret " + type(r).__name__
                        if key == "audio":
                            out_extra = [c.name for c in r.children] if hasattr(r, "children") else None
                        else:
                            out_extra = None
                    except BaseException as e:  # noqa
                        out, out_extra = "exc " + type(e).__name__, None
                    outs.append((out, out_extra))
                checked += 1
                if outs[0] != outs[1] or outs[1][0] != expected[key]:
                    bad += 1
                    print("MISMATCH real", key, outs, expected[key])
        finally:
            del actions.open
    finally:
        for h in handles:
            h.close()
        shutil.rmtree(tmp, ignore_errors=True)
    return checked, bad


def main():
    rng = random.Random(9009)
    c1, b1 = part_stubbed(rng)
    c2, b2 = part_real(rng)
    print("checked", c1 + c2, "mismatches", b1 + b2)
    return 1 if (b1 + b2) else 0


if __name__ == "__main__":
    sys.exit(main())
