"""Equivalence demo for r8: DirectoryEntryAdapter._decode
(smpl_extract/roland/s7xx/directory_area.py) - the nested try/except that
finds `_dir_version` was extracted into a helper with early returns and
sequential fallbacks; `x -= 0x8000` spelled `x = x - 0x8000`.

Compares the working tree with an inline copy of the ORIGINAL method on
 (1) direct _decode calls with many context shapes (version at depth 2, at
     depth 1, at both, nowhere; odd version values; contexts whose lookups
     raise non-KeyError exceptions) and link pointer values, and
 (2) real DirectoryEntryParser / DirectoryListConstruct parses of random
     32-byte directory records nested at different Struct depths,
and against precomputed expectations.  Exit 0 when all agree, 1 otherwise.
"""
import random
import struct
import sys
from typing import cast

from construct.core import Struct
from construct.lib.containers import Container

from smpl_extract.roland.s7xx import directory_area as da
from smpl_extract.roland.s7xx.data_types import RolandFileType
from smpl_extract.roland.s7xx.directory_area import DirectoryEntryAdapter
from smpl_extract.roland.s7xx.directory_area import DirectoryEntryContainer
from smpl_extract.roland.s7xx.directory_area import DirectoryEntryStruct
from smpl_extract.roland.s7xx.directory_area import DirectoryListConstruct


# ---------------------------------------------------------------- original --
class OriginalDirectoryEntryAdapter(da.Adapter):

    def _decode(self, obj, context, path):
        container = cast(DirectoryEntryContainer, obj)
        version = 1
        try:
            version = context["_"]["_"]["_dir_version"]
        except:  # noqa
            try:
                version = context["_"]["_dir_version"]
            except:  # noqa
                pass
        if version == 2:
            container.backward_link_ptr -= 0x8000
            container.forward_link_ptr -= 0x8000
        return container

    def _encode(self, obj, context, path):
        raise NotImplementedError


OriginalDirectoryEntryParser = OriginalDirectoryEntryAdapter(
    DirectoryEntryStruct)


class Boom(Exception):
    pass


class Raising:
    """Mapping whose lookups raise something that is not a KeyError."""

    def __init__(self, exc, log):
        self.exc = exc
        self.log = log

    def __getitem__(self, key):
        self.log.append(key)
        raise self.exc


class Logging(dict):
    """dict recording every key that is looked up."""

    def __init__(self, log, tag, *a, **kw):
        super().__init__(*a, **kw)
        self._log = log
        self._tag = tag

    def __getitem__(self, key):
        self._log.append((self._tag, key))
        return super().__getitem__(key)


def context_shapes(log):
    """(label, context) pairs.  Built fresh per call because of `log`."""
    shapes = []
    versions = [1, 2, 0, 3, -2, None, "2", 2.0, True, [2], 0x8000]
    for v in versions:
        shapes.append(("d2=%r" % (v,),
                       Container(_=Container(_=Container(_dir_version=v)))))
        shapes.append(("d1=%r" % (v,),
                       Container(_=Container(_dir_version=v))))
        shapes.append(("d1=%r+empty d2" % (v,),
                       Container(_=Container(_dir_version=v, _=Container()))))
        shapes.append(("d0=%r only" % (v,), Container(_dir_version=v)))
    for v2 in (1, 2, 7):
        for v1 in (1, 2, 7):
            shapes.append((
                "d2=%r,d1=%r" % (v2, v1),
                Container(_=Container(_dir_version=v1,
                                      _=Container(_dir_version=v2)))
            ))
    shapes += [
        ("empty", Container()),
        ("plain dict empty", {}),
        ("None", None),
        ("int", 5),
        ("_ is None", {"_": None}),
        ("_._ is None, d1=2", {"_": {"_": None, "_dir_version": 2}}),
        ("_._ is str, d1=2", {"_": {"_": "zz", "_dir_version": 2}}),
        ("_ is list", {"_": [1, 2]}),
        ("raising KeyboardInterrupt", Raising(KeyboardInterrupt(), log)),
        ("raising Boom", Raising(Boom("x"), log)),
        ("_ raising Boom", {"_": Raising(Boom("y"), log)}),
        ("logging d2", Logging(log, "top", _=Logging(
            log, "mid", _=Logging(log, "deep", _dir_version=2),
            _dir_version=1))),
        ("logging d1", Logging(log, "top", _=Logging(
            log, "mid", _dir_version=2))),
        ("logging none", Logging(log, "top", _=Logging(
            log, "mid", _=Logging(log, "deep")))),
    ]
    return shapes


def make_obj(fwd, bwd):
    return Container(
        name="NAME", index=3, file_type=RolandFileType.SAMPLE,
        file_attributes=0, forward_link_ptr=fwd, backward_link_ptr=bwd,
        link_id=0, reserved=0, fat_entry=17, num_clusters=2,
    )


def run_decode(adapter, label_index, fwd, bwd):
    log = []
    label, ctx = context_shapes(log)[label_index]
    obj = make_obj(fwd, bwd)
    try:
        res = adapter._decode(obj, ctx, "path")
        out = ("ok", res is obj, dict(res), list(res.keys()))
    except BaseException as e:  # noqa
        out = ("exc", type(e).__name__, str(e), dict(obj))
    return label, out, [repr(x) for x in log]


def make_record(rnd, name=None):
    name = name or "".join(rnd.choice("ABCDEFGHIJ 0123456789")
                           for _ in range(rnd.randrange(0, 17)))
    raw_name = name.encode("ascii").ljust(16, b"\x00")[:16]
    return raw_name + struct.pack(
        "<BBHHHIHH",
        rnd.choice([0x40, 0x41, 0x42, 0x43, 0x44, 0x00, 0x99]),
        rnd.randrange(256),
        rnd.choice([0, 1, 0x7FFF, 0x8000, 0x8001, 0xFFFF,
                    rnd.randrange(65536)]),
        rnd.choice([0, 1, 0x7FFF, 0x8000, 0x8001, 0xFFFF,
                    rnd.randrange(65536)]),
        rnd.randrange(65536),
        rnd.randrange(1 << 32),
        rnd.randrange(65536),
        rnd.randrange(65536),
    )


def parse_variants(parser, list_construct, data, n, kw):
    """Parse the same bytes through differently nested constructs."""
    outs = []
    variants = {
        "bare": parser,
        "struct1": Struct("d" / parser),
        "struct2": Struct("a" / Struct("d" / parser)),
        "struct3": Struct("a" / Struct("b" / Struct("d" / parser))),
        "list": list_construct,
        "struct+list": Struct("l" / list_construct),
        "struct2+list": Struct("a" / Struct("l" / list_construct)),
    }
    for label, con in variants.items():
        try:
            res = con.parse(data, _index=5, **kw)
            outs.append((label, "ok", repr(res)))
        except BaseException as e:  # noqa
            outs.append((label, "exc", type(e).__name__, str(e)))
    return outs


def main() -> int:
    failures = 0
    checked = 0

    new_adapter = DirectoryEntryAdapter(DirectoryEntryStruct)
    old_adapter = OriginalDirectoryEntryParser

    # 1. direct _decode -----------------------------------------------------
    n_shapes = len(context_shapes([]))
    pointer_values = [(0, 0), (0x8000, 0x8000), (0x8001, 0xFFFF),
                      (0x7FFF, 0x8000), (5, 0x9000), (0xFFFF, 0)]
    for i in range(n_shapes):
        for fwd, bwd in pointer_values:
            a = run_decode(new_adapter, i, fwd, bwd)
            b = run_decode(old_adapter, i, fwd, bwd)
            checked += 1
            if a != b:
                failures += 1
                print("MISMATCH decode", a, b)

    # precomputed expectations
    expectations = {
        "d2=2": True, "d1=2": True, "d2=1": False, "d1=1": False,
        "d0=2 only": False, "d2=2.0": True, "d2=True": False,
        "d2='2'": False, "d2=2,d1=1": True, "d2=1,d1=2": False,
        "d2=7,d1=2": False, "empty": False, "None": False,
        "_._ is None, d1=2": True, "_._ is str, d1=2": True,
        "raising KeyboardInterrupt": False, "_ raising Boom": False,
        "logging d2": True, "logging d1": True, "logging none": False,
        "d1=2+empty d2": True,
    }
    seen = set()
    for i in range(n_shapes):
        label, out, log = run_decode(new_adapter, i, 0x8005, 0x9000)
        if label in expectations:
            seen.add(label)
            shifted = expectations[label]
            want = (0x0005, 0x1000) if shifted else (0x8005, 0x9000)
            checked += 1
            if out[0] != "ok" or (out[2]["forward_link_ptr"],
                                  out[2]["backward_link_ptr"]) != want:
                failures += 1
                print("MISMATCH expectation", label, out)
    if seen != set(expectations):
        failures += 1
        print("expectation labels not found:", set(expectations) - seen)

    # 2. real parses --------------------------------------------------------
    rnd = random.Random(8)

    def original_list_construct(num_entries):
        return da.UnsizedConstruct(
            da.SafeListConstruct(num_entries, OriginalDirectoryEntryParser)
        )

    for case in range(150):
        n = rnd.choice([1, 2, 5])
        data = b"".join(make_record(rnd) for _ in range(n))
        if case % 10 == 0:
            data = data[:rnd.randrange(0, 32)]     # truncated record
        kws = [{}, {"_dir_version": 1}, {"_dir_version": 2},
               {"_dir_version": 3}, {"fat": 1}]
        for kw in kws:
            a = parse_variants(da.DirectoryEntryParser,
                               DirectoryListConstruct(n), data, n, kw)
            b = parse_variants(OriginalDirectoryEntryParser,
                               original_list_construct(n), data, n, kw)
            checked += 1
            if a != b:
                failures += 1
                print("MISMATCH parse", case, kw)
                for x, y in zip(a, b):
                    if x != y:
                        print("   new", x)
                        print("   old", y)

    # a precomputed parse: version 2 seen two levels up shifts both links
    rec = make_record(random.Random(1), name="KICK")
    fwd, bwd = struct.unpack("<HH", rec[18:22])
    got = Struct("a" / Struct("d" / da.DirectoryEntryParser)).parse(
        rec, _index=9, _dir_version=2).a.d
    checked += 1
    if (got.name, got.index, got.forward_link_ptr, got.backward_link_ptr) != \
            ("KICK", 9, fwd - 0x8000, bwd - 0x8000):
        failures += 1
        print("MISMATCH precomputed parse", got)
    got = Struct("a" / Struct("d" / da.DirectoryEntryParser)).parse(
        rec, _index=9, _dir_version=1).a.d
    checked += 1
    if (got.forward_link_ptr, got.backward_link_ptr) != (fwd, bwd):
        failures += 1
        print("MISMATCH precomputed parse v1", got)

    print("checked %d cases, %d failures" % (checked, failures))
    return 1 if failures else 0


if __name__ == "__main__":
    sys.exit(main())
