"""Equivalence demo for r14: smpl_extract.cdda.image.AudioTrack.to_generalized.

An inline copy of the ORIGINAL method is compiled with the globals of the live
smpl_extract.cdda.image module and compared with the live method.

  A. direct: AudioTrack objects with many field combinations (titles
     including empty / None / non-str, bytes_per_sample 0..8 and bad types,
     sample rates, sample counts, parents, paths, with and without
     _safe_name / _export_name set by the naming routines).  Every field of
     the resulting Sample, the identity of the stream / parent / path
     objects handed over, the DataStream encoding and frame_size, the type
     of the result or the exception (type, message) must agree, and the
     track itself must be left untouched.  The underlying stream is a
     recorder: neither version may touch it.
  B. tracks built by CompactDiskAudioImageAdapter.from_bin_cue from random
     cue sheets, after the image's naming routines ran (children property),
     are converted with both versions and compared the same way.
  C. end to end: the same cue/bin pairs are exported to WAV once with the
     live method and once with the original patched into the class; the
     exported trees must be byte-identical, and the PCM must tile the bin.
Exit 0 on full agreement, 1 otherwise.
"""
import dataclasses
import io
import itertools
import os
import random
import shutil
import sys
import tempfile

from smpl_extract import actions
from smpl_extract.cdda import image as cdda_image
from smpl_extract.cdda.image import AudioTrack
from smpl_extract.cdda.image import CompactDiskAudioImage
from smpl_extract.cdda.image import CompactDiskAudioImageAdapter
from smpl_extract.cuesheet import parse_cue_sheet
from smpl_extract.generalized.sample import Sample


ORIGINAL_SOURCE = '''
def original_to_generalized(self) -> Sample:
    stream_encoding = StreamEncoding(
        endianess=Endianess.LITTLE,
        sample_width=self.bytes_per_sample,
        num_interleaved_channels=2
    )
    data_streams = [
        DataStream(stream=self._data_stream, encoding=stream_encoding)
    ]
    result = Sample(
        name=self.name,
        channel_config=ChannelConfig.STEREO_SINGLE_STREAM,
        sample_rate=self.sample_rate,
        num_channels=2,
        num_audio_samples=self.num_audio_samples,
        data_streams=data_streams,
        _parent=self.parent,
        _path=self.path,
        _safe_name=self.safe_name,
        _export_name=self.export_name
    )
    return result
'''
_namespace = {}
exec(compile(ORIGINAL_SOURCE, "<original>", "exec"), cdda_image.__dict__,
     _namespace)
original_to_generalized = _namespace["original_to_generalized"]
live_to_generalized = AudioTrack.to_generalized


class RecordingStream(io.BytesIO):
    def __init__(self, data=b""):
        super().__init__(data)
        self.events = []

    def read(self, *args):
        self.events.append(("read", args))
        return super().read(*args)

    def seek(self, *args):
        self.events.append(("seek", args))
        return super().seek(*args)

    def tell(self):
        self.events.append(("tell",))
        return super().tell()


def describe_sample(sample, track):
    if not isinstance(sample, Sample):
        return ("NOT A SAMPLE", type(sample).__name__)
    description = [type(sample).__name__]
    for f in dataclasses.fields(sample):
        value = getattr(sample, f.name)
        if f.name == "data_streams":
            streams = []
            for ds in value:
                streams.append((
                    type(ds).__name__, ds.stream is track._data_stream,
                    repr(ds.encoding), repr(ds.frame_size),
                    repr(ds.encoding.endianess),
                    repr(ds.encoding.sample_width),
                    ds.encoding.num_interleaved_channels,
                    ds.encoding.is_signed,
                ))
            description.append((f.name, type(value).__name__, streams))
        elif f.name == "_parent":
            description.append((f.name, value is track.parent, id(value)))
        elif f.name == "_path":
            description.append((f.name, value is track.path, repr(value)))
        else:
            description.append((f.name, type(value).__name__, repr(value)))
    description.append(("export_path", repr(sample.export_path())))
    description.append(("safe_name", repr(sample.safe_name)))
    description.append(("export_name", repr(sample.export_name)))
    description.append(("type", sample.type_id, sample.type_name))
    return description


def snapshot_track(track):
    return sorted(
        (k, id(v), repr(v)) for k, v in track.__dict__.items())


def run(func, track):
    before = snapshot_track(track)
    try:
        result = func(track)
        outcome = ("OK", describe_sample(result, track))
    except Exception as e:
        outcome = ("EXC", type(e).__name__, str(e))
    after = snapshot_track(track)
    stream_events = list(getattr(track._data_stream, "events", []))
    return outcome, before == after, stream_events


def compare(track, label, state):
    expected = run(original_to_generalized, track)
    actual = run(live_to_generalized, track)
    state["count"] += 1
    ok = expected == actual and expected[1] and not expected[2]
    if not ok:
        state["failures"] += 1
        if state["failures"] < 10:
            print("MISMATCH", label)
            print("   expected", expected)
            print("   actual  ", actual)
    # two conversions must not share mutable state
    try:
        first = live_to_generalized(track)
        second = live_to_generalized(track)
    except Exception:
        return
    state["count"] += 1
    if first.data_streams is second.data_streams \
            or first.data_streams[0] is second.data_streams[0] \
            or first.loop_regions is second.loop_regions:
        state["failures"] += 1
        print("SHARED STATE", label)


# ---------------------------------------------------------------- direct
def direct_cases(state):
    image = CompactDiskAudioImage()
    other_parent = AudioTrack(title="parent")
    titles = ["", "Track", "Untitled Track 1", "a/b", " spaced ", "x"*70,
              "é", None, 5, b"bytes"]
    widths = [2, 1, 0, 3, 4, 8, -1, 2.5, "2", None, True]
    rates = [44100, 0, 48000]
    counts = [0, 588, 123456789, None]
    parents = [None, image, other_parent]
    paths = [[], ["Track"], ["a", "b", "c"]]
    names = [(False, None, None), (True, None, None), (True, "Safe", None),
             (True, None, "Export"), (True, "Safe", "Export"),
             (True, "", "")]
    for title, width, names_state in itertools.product(titles, widths, names):
        for rate, n_samples, parent, path in itertools.product(
                rates[:2], counts[:2], parents, paths[:2]):
            track = AudioTrack(
                title=title, bytes_per_sample=width, sample_rate=rate,
                num_audio_samples=n_samples,
                _data_stream=RecordingStream(b"abcd"*10),
                _parent=parent, _path=list(path))
            if names_state[0]:
                track._safe_name = names_state[1]
                track._export_name = names_state[2]
            compare(track, ("direct", title, width, names_state), state)
    rng = random.Random(0xC0314)
    for _ in range(1500):
        keyword = {}
        if rng.random() < 0.8:
            keyword["title"] = rng.choice(titles)
        if rng.random() < 0.5:
            keyword["bytes_per_sample"] = rng.choice(widths)
        if rng.random() < 0.5:
            keyword["sample_rate"] = rng.choice(rates)
        if rng.random() < 0.5:
            keyword["num_audio_samples"] = rng.choice(counts)
        if rng.random() < 0.5:
            keyword["num_channels"] = rng.choice([1, 2, 6])
        if rng.random() < 0.8:
            keyword["_data_stream"] = rng.choice(
                [RecordingStream(b"xy"), io.BytesIO(b"12345"), None])
        if rng.random() < 0.5:
            keyword["_parent"] = rng.choice(parents)
        if rng.random() < 0.5:
            keyword["_path"] = list(rng.choice(paths))
        track = AudioTrack(**keyword)
        if rng.random() < 0.5:
            track._safe_name = rng.choice([None, "S", ""])
        if rng.random() < 0.5:
            track._export_name = rng.choice([None, "E", ""])
        if rng.random() < 0.05:
            del track._path
        if rng.random() < 0.05:
            del track._parent
        compare(track, ("random", sorted(keyword)), state)


# -------------------------------------------------------- from_bin_cue
def msf(total):
    return "%02d:%02d:%02d" % (total // 4500, (total // 75) % 60, total % 75)


def make_cue(rng, n_sectors):
    lines = ["FILE \"disc.bin\" BINARY\n"]
    n_tracks = rng.randint(1, 6)
    position = rng.randint(0, 2)
    for t in range(n_tracks):
        lines.append("  TRACK %02d AUDIO\n" % (t + 1))
        if rng.random() < 0.5:
            lines.append("    TITLE \"%s\"\n" % rng.choice(
                ["One", "Two", "Same", "Same", "a/b", "L", "x - R"]))
        for k in range(rng.choice([1, 1, 2, 3])):
            lines.append("    INDEX %02d %s\n" % (k, msf(position)))
            position += rng.choice([1, 1, 2, 3])
        if position >= n_sectors:
            break
    return lines


def adapter_cases(state, base):
    rng = random.Random(0x14C03)
    pairs = []
    for number in range(120):
        n_sectors = rng.randint(1, 20)
        tail = rng.choice([0, 0, 1, 2, 3, 1177, 2351])
        data = bytes(rng.getrandbits(8) for _ in range(n_sectors*2352 + tail))
        lines = make_cue(rng, n_sectors)
        pairs.append((lines, data))
        routines_on = number % 2 == 0
        image = CompactDiskAudioImageAdapter.from_bin_cue(
            RecordingStream(data), parse_cue_sheet(list(lines)))
        if routines_on:
            image.set_routines({
                "make_safe_names": image.make_safe_names_routine,
                "make_export_names": image.make_export_names_routine,
            })
        for track in image.children:
            track._data_stream.substream.events.clear()
            expected = run(original_to_generalized, track)
            actual = run(live_to_generalized, track)
            state["count"] += 1
            if expected != actual or not expected[1] \
                    or track._data_stream.substream.events:
                state["failures"] += 1
                print("MISMATCH (adapter)", number, track.title)
    return pairs


# ---------------------------------------------------------------- export
def read_tree(root):
    found = {}
    for directory, _dirs, files in os.walk(root):
        for name in files:
            path = os.path.join(directory, name)
            with open(path, "rb") as f:
                found[os.path.relpath(path, root)] = f.read()
    return found


def export_with(method, cue_path, destination):
    saved = AudioTrack.__dict__["to_generalized"]
    AudioTrack.to_generalized = method
    try:
        os.mkdir(destination)
        stdout = sys.stdout
        sys.stdout = captured = io.StringIO()
        try:
            actions.export_samples_to_wav(cue_path, destination)
        finally:
            sys.stdout = stdout
    finally:
        AudioTrack.to_generalized = saved
    return read_tree(destination), captured.getvalue()


def export_cases(state, base, pairs):
    for number, (lines, data) in enumerate(pairs[:40]):
        directory = os.path.join(base, "case%03d" % number)
        os.mkdir(directory)
        with open(os.path.join(directory, "disc.bin"), "wb") as f:
            f.write(data)
        cue_path = os.path.join(directory, "disc.cue")
        with open(cue_path, "w", encoding="ascii") as f:
            f.writelines(lines)
        expected = export_with(original_to_generalized, cue_path,
                               os.path.join(directory, "out_original"))
        actual = export_with(live_to_generalized, cue_path,
                             os.path.join(directory, "out_live"))
        state["count"] += 1
        if expected != actual:
            state["failures"] += 1
            print("MISMATCH (export)", number, sorted(expected[0]),
                  sorted(actual[0]))
            continue
        # tiling check for sheets with unique titles and starts in the file
        cue = parse_cue_sheet(list(lines))
        starts = [t.indices[0].get_total_audio_frames()*2352
                  for t in cue.tracks]
        titles = [t.title or "Untitled Track %d" % (i + 1)
                  for i, t in enumerate(cue.tracks)]
        if len(set(titles)) != len(titles) or starts[-1] > len(data) \
                or any("/" in t for t in titles):
            continue
        state["count"] += 1
        ends = starts[1:] + [len(data) - (len(data) - starts[-1]) % 4]
        joined = b""
        for title, start, end in zip(titles, starts, ends):
            blob = actual[0].get(title + ".wav")
            if blob is None or blob[44:] != data[start:end]:
                state["failures"] += 1
                print("MISMATCH (tiling)", number, title)
                break
            joined += blob[44:]
        else:
            if joined != data[starts[0]:ends[-1]]:
                state["failures"] += 1
                print("MISMATCH (concatenation)", number)


def main():
    state = {"count": 0, "failures": 0}
    base = tempfile.mkdtemp(prefix="r14demo_")
    try:
        direct_cases(state)
        pairs = adapter_cases(state, base)
        export_cases(state, base, pairs)
    finally:
        shutil.rmtree(base, ignore_errors=True)
    print("cases:", state["count"], "failures:", state["failures"])
    return 1 if state["failures"] else 0


if __name__ == "__main__":
    sys.exit(main())
