"""Equivalence demo for r13: smpl_extract/util/fat.py FileStream.

FileStream._get_address_given_sector_index was split in two: the sector
lookup (with its IndexError -> SectorReadError translation) now lives in the
private helper FileStream._lookup_sector and the address computation stays in
_get_address_given_sector_index.

The demo pastes the ORIGINAL class (FileStreamOrig) and compares it with the
live smpl_extract.util.fat.FileStream on
  * direct calls of _get_address_given_sector_index (valid, negative, too
    large indices; odd offsets), comparing value / exception type / message /
    __cause__ type and message,
  * random seek/read scripts over complete and truncated parent streams with
    a recording parent stream, comparing results, exceptions, positions and
    the exact sequence of seek/read/tell operations on the parent,
  * make_transcoder over FileStreams (passthrough and pipeline) with
    truncated parents and with sector chains that are too short: the chunks
    produced must be identical.
Exit 0 when everything agrees, 1 otherwise.
"""
from io import BytesIO
from io import IOBase
from io import SEEK_CUR
from io import SEEK_END
from io import SEEK_SET
import random
import sys
from typing import List

from smpl_extract.data_streams import DataStream
from smpl_extract.data_streams import Endianess
from smpl_extract.data_streams import StreamEncoding
from smpl_extract.transcoder import make_transcoder
from smpl_extract.util.fat import FileStream
from smpl_extract.util.sector import SectorStream
from smpl_extract.util.stream import SectorReadError


# --------------------------------------------------------------------------
# ORIGINAL implementation (verbatim copy)
# --------------------------------------------------------------------------
class FileStreamOrig(SectorStream):


    def __init__(
            self,
            parent_stream:      IOBase,
            sector_size:        int,
            sector_list:        List[int],
            position:           int = 0,
            buffer_length:      int = 0x1000
    ) -> None:
        super().__init__(
            parent_stream,
            size=(sector_size * len(sector_list)),
            sector_length=sector_size,
            position=position,
            buffer_length=buffer_length
        )
        self.sector_list = sector_list


    def _get_address_given_sector_index(
            self,
            sector_index: int,
            offset: int
        ):
        try:
            sector  = self.sector_list[sector_index]
        except IndexError as e:
            raise SectorReadError(
                f"Sector {sector_index} lies beyond the "
                f"{len(self.sector_list)} sectors of the file."
            ) from e
        result  = super()._get_address_given_sector_index(
            sector,
            offset
        )
        return result


# --------------------------------------------------------------------------
class RecordingStream(BytesIO):
    """BytesIO that logs every operation performed on it."""

    def __init__(self, data: bytes) -> None:
        super().__init__(data)
        self.log = []

    def seek(self, offset, whence=SEEK_SET):
        result = super().seek(offset, whence)
        self.log.append(("seek", offset, whence, result))
        return result

    def read(self, size=-1):
        result = super().read(size)
        self.log.append(("read", size, len(result)))
        return result

    def tell(self):
        result = super().tell()
        self.log.append(("tell", result))
        return result


failures = 0
checks = 0


def check(cond, what):
    global failures, checks
    checks += 1
    if not cond:
        failures += 1
        if failures <= 20:
            print("MISMATCH:", what)


def outcome(f):
    try:
        return ("ok", f())
    except BaseException as e:  # noqa
        cause = e.__cause__
        return (
            "exc",
            type(e).__name__,
            str(e),
            type(cause).__name__ if cause is not None else None,
            str(cause) if cause is not None else None,
            e.__suppress_context__,
        )


def test_direct(rng: random.Random):
    for _ in range(400):
        sector_size = rng.choice([1, 2, 3, 4, 7, 8, 16, 64, 512])
        n = rng.randint(0, 12)
        sector_list = [rng.randint(0, 40) for _ in range(n)]
        data = bytes(rng.getrandbits(8) for _ in range(64))
        a = FileStreamOrig(BytesIO(data), sector_size, list(sector_list))
        b = FileStream(BytesIO(data), sector_size, list(sector_list))
        for _ in range(30):
            idx = rng.randint(-n - 3, n + 3)
            off = rng.randint(-2, sector_size + 2)
            ra = outcome(lambda: a._get_address_given_sector_index(idx, off))
            rb = outcome(lambda: b._get_address_given_sector_index(idx, off))
            check(ra == rb, f"direct idx={idx} off={off} n={n}: {ra} != {rb}")
        # odd index types
        for idx in (True, False):
            ra = outcome(lambda: a._get_address_given_sector_index(idx, 0))
            rb = outcome(lambda: b._get_address_given_sector_index(idx, 0))
            check(ra == rb, f"direct bool idx={idx}: {ra} != {rb}")
        for idx in ("x", None, 1.5):
            ra = outcome(lambda: a._get_address_given_sector_index(idx, 0))
            rb = outcome(lambda: b._get_address_given_sector_index(idx, 0))
            check(ra == rb, f"direct odd idx={idx!r}: {ra} != {rb}")
        # _translate_address goes through the overridable helper as well
        for _ in range(10):
            addr = rng.randint(-3, sector_size * (n + 2))
            ra = outcome(lambda: a._translate_address(addr))
            rb = outcome(lambda: b._translate_address(addr))
            check(ra == rb, f"translate addr={addr}: {ra} != {rb}")


def make_script(rng: random.Random, size: int):
    script = []
    for _ in range(rng.randint(1, 25)):
        kind = rng.random()
        if kind < 0.6:
            script.append(("read", rng.choice([
                0, 1, 2, 3, 5, 8, 13, 64, 100, 0x1000,
                rng.randint(0, max(1, size + 10))
            ])))
        elif kind < 0.7:
            script.append(("read", rng.choice([None, -1])))
        elif kind < 0.95:
            whence = rng.choice([SEEK_SET, SEEK_CUR, SEEK_END])
            script.append(("seek", rng.randint(-size - 5, size + 5), whence))
        else:
            script.append(("tell",))
    return script


def run_script(stream, script):
    results = []
    for step in script:
        if step[0] == "read":
            results.append(outcome(lambda: stream.read(step[1])))
        elif step[0] == "seek":
            results.append(outcome(lambda: stream.seek(step[1], step[2])))
        else:
            results.append(outcome(stream.tell))
        results.append(("state", stream.position, stream.true_size))
    return results


def test_scripts(rng: random.Random):
    for case in range(600):
        sector_size = rng.choice([1, 2, 3, 4, 8, 16, 32])
        num_parent_sectors = rng.randint(1, 20)
        full = bytes(
            rng.getrandbits(8) for _ in range(sector_size * num_parent_sectors)
        )
        cut = rng.choice([
            len(full),
            rng.randint(0, len(full)),
            rng.randint(0, num_parent_sectors) * sector_size,
        ])
        data = full[:cut]
        n = rng.randint(0, 10)
        mode = rng.random()
        if mode < 0.6:
            sector_list = [
                rng.randint(0, num_parent_sectors - 1) for _ in range(n)
            ]
        else:  # some sectors beyond the parent
            sector_list = [
                rng.randint(0, num_parent_sectors + 5) for _ in range(n)
            ]
        position = rng.choice([0, 0, 0, rng.randint(0, sector_size * n + 2)])
        buffer_length = rng.choice([1, 3, 16, 0x1000])

        pa = RecordingStream(data)
        pb = RecordingStream(data)
        a = FileStreamOrig(
            pa, sector_size, list(sector_list),
            position=position, buffer_length=buffer_length
        )
        b = FileStream(
            pb, sector_size, list(sector_list),
            position=position, buffer_length=buffer_length
        )
        # shrink the sector list after construction: end_of_file then lies
        # beyond the chain, which is what makes the IndexError path reachable
        if rng.random() < 0.4 and n > 0:
            keep = rng.randint(0, n - 1)
            a.sector_list = a.sector_list[:keep]
            b.sector_list = b.sector_list[:keep]

        script = make_script(rng, sector_size * n)
        ra = run_script(a, script)
        rb = run_script(b, script)
        check(ra == rb, f"script case {case}: results differ")
        check(pa.log == pb.log, f"script case {case}: parent op log differs")
        check(
            (a.position, a.end_of_file, a.true_size, a.sector_length)
            == (b.position, b.end_of_file, b.true_size, b.sector_length),
            f"script case {case}: final state differs"
        )


def drain(transcoder):
    chunks = []
    try:
        for chunk in transcoder:
            chunks.append(bytes(chunk))
            if len(chunks) > 10000:
                chunks.append(b"<<runaway>>")
                break
    except BaseException as e:  # noqa
        chunks.append(("exc", type(e).__name__, str(e)))
    return chunks


def test_transcoder(rng: random.Random):
    for case in range(300):
        sector_size = rng.choice([2, 4, 8, 16, 64, 512])
        num_parent_sectors = rng.randint(1, 24)
        full = bytes(
            rng.getrandbits(8) for _ in range(sector_size * num_parent_sectors)
        )
        data = full[:rng.choice([len(full), rng.randint(0, len(full))])]
        num_streams = rng.choice([1, 1, 2])
        sample_width = rng.choice([1, 2])
        src_endian = rng.choice([Endianess.LITTLE, Endianess.BIG])
        dest_endian = rng.choice([Endianess.LITTLE, Endianess.BIG])
        src_channels = rng.choice([1, 2]) if num_streams == 1 else 1

        def build(cls, parent_data):
            streams = []
            local = random.Random(case)
            for _ in range(num_streams):
                n = local.randint(0, 10)
                sector_list = [
                    local.randint(0, num_parent_sectors + 2)
                    for _ in range(n)
                ]
                fs = cls(BytesIO(parent_data), sector_size, sector_list)
                if local.random() < 0.4 and n > 0:
                    fs.sector_list = fs.sector_list[:local.randint(0, n - 1)]
                streams.append(DataStream(fs, StreamEncoding(
                    endianess=src_endian,
                    sample_width=sample_width,
                    num_interleaved_channels=src_channels
                )))
            dest = StreamEncoding(
                endianess=dest_endian,
                sample_width=sample_width,
                num_interleaved_channels=num_streams * src_channels
            )
            return make_transcoder(streams, dest)

        ra = outcome(lambda: drain(build(FileStreamOrig, data)))
        rb = outcome(lambda: drain(build(FileStream, data)))
        check(ra == rb, f"transcoder case {case}: output differs")


def main():
    rng = random.Random(0xC15D13)
    test_direct(rng)
    test_scripts(rng)
    test_transcoder(rng)
    print(f"{checks} checks, {failures} mismatches")
    return 0 if failures == 0 else 1


if __name__ == "__main__":
    sys.exit(main())
