"""Equivalence demo for r3: Traversable.children (routine loop extracted into
a module-level helper).

A subclass carrying an inline copy of the ORIGINAL `children` property is run
side by side with the live class on scenarios covering: call order of the
realiser and of the routines, the context handed to the realiser, caching,
retry after an exception, routines replaced or mutated while children are
realised, falsy / None results, and a real Image tree using the name routines.
Exit 0 on agreement.
"""
import itertools
import sys

from smpl_extract.base import ElementTypes
from smpl_extract.structural import Image
from smpl_extract.structural import Traversable


# ---- inline copy of the ORIGINAL implementation -------------------------
def _orig_children(self):
    if self._children is None:
        context_additions = {
            "_elem_parent": self,
            "_elem_routines": self._routines
        }
        children = self._f_realize_children(context_additions)
        for routine in self._routines.values():
            children = routine(children)  # type: ignore
        self._children = children
    return self._children  # type: ignore


class OrigTraversable(Traversable):
    children = property(_orig_children)


class OrigImage(Image):
    children = property(_orig_children)
# -------------------------------------------------------------------------


class Leaf:
    type_id = ElementTypes.SampleEntry

    def __init__(self, name):
        self.name = name
        self._safe_name = None
        self._export_name = None


def scenario(cls, kind, n_routines, n_access):
    """Returns a fully comparable trace of what happened."""
    log = []
    state = {"calls": 0}
    holder = {}

    def make_routine(tag):
        def routine(children):
            log.append(("routine", tag, None if children is None else list(children)))
            if kind == "routine_raises_once" and tag == 1 and state["calls"] == 1:
                raise KeyError("routine failed")
            if kind == "routine_raises_always" and tag == 0:
                raise ValueError("always")
            if kind == "routine_set_routines" and tag == 0:
                holder["t"].set_routines({"z": make_routine("z")})
            if kind == "routine_mutates_dict" and tag == 0:
                holder["t"]._routines["late"] = make_routine("late")
            if kind == "routine_returns_none" and tag == n_routines - 1:
                return None
            if children is None:
                return [tag]
            return list(children) + [tag]
        return routine

    routines = {f"r{k}": make_routine(k) for k in range(n_routines)}
    if kind == "routines_none":
        routines = None

    def realize(ctx):
        state["calls"] += 1
        log.append((
            "realize",
            sorted(ctx.keys()),
            ctx["_elem_parent"] is holder["t"],
            ctx["_elem_routines"] is holder["t"]._routines,
            list(ctx["_elem_routines"].keys()),
        ))
        if kind == "realize_raises_once" and state["calls"] == 1:
            raise RuntimeError("realize failed")
        if kind == "realize_set_routines":
            holder["t"].set_routines({"n": make_routine("n")})
        if kind == "realize_none":
            return None
        if kind == "realize_empty":
            return []
        return ["c%d" % state["calls"]]

    t = cls(realize, routines, ["p"], None, "T")
    holder["t"] = t
    results = []
    for _ in range(n_access):
        try:
            c = t.children
            results.append(("ok", None if c is None else list(c), c is t._children))
        except Exception as e:  # noqa: BLE001
            results.append(("exc", type(e).__name__, str(e), t._children))
    return results, log, list(t._routines.keys())


def image_tree(cls):
    names = ["a", "a", "a (2)", "x L", "x R", "x/L", "..", "", "'q'", "q"]
    leaves = [Leaf(n) for n in names]
    img = cls(lambda ctx: leaves)
    img.set_routines({
        "safe": img.make_safe_names_routine,
        "export": img.make_export_names_routine,
    })
    first = img.children
    second = img.children
    return (
        first is second, first is leaves,
        [(c.name, c._safe_name, c._export_name) for c in first],
    )


def main():
    kinds = [
        "plain", "routines_none", "realize_none", "realize_empty",
        "realize_raises_once", "routine_raises_once", "routine_raises_always",
        "routine_set_routines", "routine_mutates_dict", "routine_returns_none",
        "realize_set_routines",
    ]
    bad = 0
    total = 0
    for kind, n_routines, n_access in itertools.product(kinds, range(0, 5), range(1, 5)):
        total += 1
        a = scenario(Traversable, kind, n_routines, n_access)
        b = scenario(OrigTraversable, kind, n_routines, n_access)
        if a != b:
            bad += 1
            print("MISMATCH", kind, n_routines, n_access)
            print("  live:", a)
            print("  orig:", b)

    total += 1
    if image_tree(Image) != image_tree(OrigImage):
        bad += 1
        print("MISMATCH image tree")

    print(f"r3: {total} comparisons, {bad} mismatches")
    return 1 if bad else 0


if __name__ == "__main__":
    sys.exit(main())
