"""Equivalence demo for r19: Image.make_safe_names_routine and
Image.make_export_names_routine (smpl_extract/structural.py) - the two naming
routines that write `_safe_name` / `_export_name` into the shared elements.

The live routines and inline copies of the ORIGINAL (with the lambda/setattr
setters) are run on twin lists of elements: plain Element subclasses, real
dataclass leaf elements, directory elements, elements with a __setattr__ hook
that logs every attribute write, elements with __slots__ that cannot take the
attribute, and random names (duplicates, stereo L/R endings, punctuation,
empty).  Compared: the returned list (same list object as the input, same
element order), `_safe_name` / `_export_name` / safe_name / export_name of
every element, the log of attribute writes, and escaping exceptions.  The
routines are also applied repeatedly and in both orders, as `children` does
when ls and export run on the same image object.
"""
from dataclasses import dataclass
import random
import sys

from smpl_extract.base import Element
from smpl_extract.base import ElementTypes
from smpl_extract.elements import LeafElement
from smpl_extract.structural import Image


# --------------------------------------------------------------------------
# inline copies of the ORIGINAL implementation
# --------------------------------------------------------------------------
def orig_make_safe_names_routine(self, elements):
    result = self.sanitize_names_general(
        elements,
        self.make_safe_name,
        lambda element, name: setattr(element, "_safe_name", name)
    )
    return result


def orig_make_export_names_routine(self, elements):
    result = self.sanitize_names_general(
        elements,
        self.make_export_name,
        lambda element, name: setattr(element, "_export_name", name)
    )
    return result


class OrigImage(Image):
    make_safe_names_routine = orig_make_safe_names_routine
    make_export_names_routine = orig_make_export_names_routine


WRITE_LOG = []


class PlainFile(Element):
    type_id = ElementTypes.SampleEntry
    type_name = "File"

    def __init__(self, name):
        super().__init__(["x", name], None)
        self.name = name

    def get_info(self):
        raise NotImplementedError


class PlainDir(PlainFile):
    type_id = ElementTypes.DirectoryEntry
    type_name = "Dir"


class LoggedFile(PlainFile):
    def __setattr__(self, key, value):
        WRITE_LOG.append((self.__dict__.get("name"), key, value))
        object.__setattr__(self, key, value)


class ReadOnlyFile(PlainFile):
    """Rejects the naming attributes, like a frozen element would."""

    def __setattr__(self, key, value):
        if key in ("_safe_name", "_export_name") and value is not None:
            WRITE_LOG.append(("rejected", key, value))
            raise AttributeError("read-only " + key)
        object.__setattr__(self, key, value)


@dataclass
class DataLeaf(LeafElement):
    name: str = ""
    size: int = 0
    type_id = ElementTypes.ProgramEntry
    type_name = "Leaf"


ALPHABET = ["A", "b", "1", " ", "-", ".", ":", "'", "\"", "/", "#", "L", "R", "_", "é", "*", "(", ")", "2"]
STOCK = ["KICK -L", "KICK -R", "KICK", "KICK (2)", "kick", "", " ", ".", "-", "SNARE L", "SNARE  L",
         "SNARE-L", "A:", ":A", "A/B", "A\\B", "'quoted'", "x.", "x. ", "x (2) L", "x L", "x (2)"]


def random_name(rng):
    if rng.random() < 0.6:
        return rng.choice(STOCK)
    return "".join(rng.choice(ALPHABET) for _ in range(rng.randrange(0, 7)))


def make_elements(rng):
    n = rng.choice([0, 1, 2, 3, 5, 8, 12])
    pool = [random_name(rng) for _ in range(max(1, n // 2))]
    spec = []
    for _ in range(n):
        name = rng.choice(pool) if rng.random() < 0.6 else random_name(rng)
        kind = rng.choice(["file", "file", "dir", "logged", "leaf", "readonly"] if rng.random() < 0.2
                          else ["file", "file", "dir", "logged", "leaf"])
        spec.append((kind, name))
    return spec


def build(spec):
    classes = {"file": PlainFile, "dir": PlainDir, "logged": LoggedFile, "readonly": ReadOnlyFile}
    elements = []
    for kind, name in spec:
        if kind == "leaf":
            elements.append(DataLeaf(name=name, size=len(name)))
        else:
            elements.append(classes[kind](name))
    return elements


def snapshot(elements):
    return [
        (type(e).__name__, e.name, getattr(e, "_safe_name", "<unset>"), getattr(e, "_export_name", "<unset>"),
         e.safe_name, e.export_name)
        for e in elements
    ]


def run(image_cls, spec, plan):
    del WRITE_LOG[:]
    image = image_cls(lambda additions: [])
    elements = build(spec)
    trace = []
    for step in plan:
        routine = getattr(image, step)
        try:
            result = routine(elements)
            trace.append((step, "ok", result is elements, len(result)))
        except BaseException as exc:  # noqa
            trace.append((step, type(exc).__name__, repr(exc.args)))
        trace.append(snapshot(elements))
    trace.append(list(WRITE_LOG))
    return trace


PLANS = [
    ["make_safe_names_routine"],
    ["make_export_names_routine"],
    ["make_safe_names_routine", "make_export_names_routine"],
    ["make_export_names_routine", "make_safe_names_routine"],
    ["make_safe_names_routine", "make_export_names_routine", "make_safe_names_routine", "make_export_names_routine"],
]


def via_children(image_cls, spec):
    """The routines as Traversable.children pipes them (ls / export path)."""
    del WRITE_LOG[:]
    elements = build(spec)
    image = image_cls(lambda additions: elements)
    image.set_routines({
        "make_safe_names": image.make_safe_names_routine,
        "make_export_names": image.make_export_names_routine,
    })
    try:
        first = image.children
        second = image.children
        outcome = ("ok", first is elements, second is first)
    except BaseException as exc:  # noqa
        outcome = (type(exc).__name__, repr(exc.args))
    try:
        table = image.get_info().to_string()
    except BaseException as exc:  # noqa
        table = (type(exc).__name__, repr(exc.args))
    return [outcome, snapshot(elements), table, list(WRITE_LOG)]


def main():
    rng = random.Random(1919)
    failures = 0
    cases = 0
    for case in range(2500):
        spec = make_elements(rng)
        for plan in PLANS:
            expected = run(OrigImage, spec, plan)
            actual = run(Image, spec, plan)
            cases += 1
            if expected != actual:
                failures += 1
                if failures < 5:
                    print("MISMATCH", case, plan, spec)
                    print(" expected", expected)
                    print(" actual  ", actual)
        expected = via_children(OrigImage, spec)
        actual = via_children(Image, spec)
        cases += 1
        if expected != actual:
            failures += 1
            if failures < 5:
                print("MISMATCH children", case, spec, expected, actual)
    print("cases:", cases, "failures:", failures)
    return 1 if failures else 0


if __name__ == "__main__":
    sys.exit(main())
