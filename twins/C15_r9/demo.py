"""Equivalence demo for r9: smpl_extract.util.sector.SectorStream helpers
(_get_address_given_sector_index, _translate_address, _read_sector).

The demo carries a verbatim copy of the ORIGINAL SectorStream class
(`SectorStreamOrig`), plus verbatim copies of the two project subclasses that
override `_get_address_given_sector_index` (fat.FileStream, alcohol.mdf
.MdfStream) re-based on that original copy.  The live classes imported from
the package and the original copies are driven with the same random
sequences of read / readall / seek / direct helper calls, on complete and on
truncated backing data.  Compared: return values, exception types and
messages, stream position / true_size after every step, and the exact
sequence of seek/tell/read calls issued on the shared substream.
Exit 0 when everything agrees, 1 otherwise.
"""
from io import BytesIO
from io import IOBase
from io import SEEK_CUR
from io import SEEK_END
from io import SEEK_SET
import random
import sys
from typing import List

from smpl_extract.alcohol.mdf import MDF_SECTOR_BODY_SIZE
from smpl_extract.alcohol.mdf import MDF_SECTOR_HEADER_SIZE
from smpl_extract.alcohol.mdf import MDF_SECTOR_SIZE
from smpl_extract.alcohol.mdf import MdfStream
from smpl_extract.util.fat import FileStream
from smpl_extract.util.sector import SectorStream
from smpl_extract.util.stream import AttemptToReadBeyondBuffer
from smpl_extract.util.stream import SectorReadError
from smpl_extract.util.stream import StreamWrapper


# --------------------------------------------------------------------------
# ORIGINAL implementation (verbatim copy of the class)
# --------------------------------------------------------------------------
class SectorStreamOrig(StreamWrapper):


    def __init__(
            self,
            parent_stream:  IOBase,
            size:           int,
            sector_length:  int,
            position:       int = 0,
            buffer_length:  int = 0x1000
    ) -> None:

        super().__init__(
            parent_stream,
            size=size,
            position=position,
            buffer_length=buffer_length
        )

        self.sector_length = sector_length


    def _get_address_given_sector_index(
            self,
            sector_index: int,
            offset: int
        ):
        sector_address  = sector_index * self.sector_length

        parent_address = sector_address + offset
        return parent_address


    def _translate_address(
            self,
            content_address: int
    )->int:

        if content_address >= self.end_of_file:
            return self.end_of_file

        sector_index    = content_address // self.sector_length
        sector_offset   = content_address % self.sector_length

        partition_address = self._get_address_given_sector_index(
            sector_index,
            sector_offset
        )
        return partition_address


    def _read_sector(
            self,
            sector_index: int,
            offset: int,
            size: int
    )->bytes:
        if offset + size > self.sector_length:
            raise AttemptToReadBeyondBuffer("Reading too much")

        start_address = self._get_address_given_sector_index(
            sector_index,
            offset
        )

        self.substream.seek(start_address, SEEK_SET)
        result = self.substream.read(size)
        return result


    def _read(self, size: int)->bytes:

        if size <= 0:
            return bytes()

        remaining_size = size

        initial_sector_index    = self.position // self.sector_length
        initial_sector_offset   = self.position % self.sector_length

        # read partial initial sector
        if initial_sector_offset + size <= self.sector_length:
            initial_read_size = size
        else:
            initial_read_size = self.sector_length - initial_sector_offset
        result = self._read_sector(
            initial_sector_index,
            initial_sector_offset,
            initial_read_size
        )
        remaining_size -= initial_read_size

        # read full size middle sectors
        i = 1
        while remaining_size > self.sector_length:
            result += self._read_sector(
                initial_sector_index + i,
                0,
                self.sector_length
            )
            remaining_size -= self.sector_length
            i += 1

        # read partial final sector
        final_sector_index = initial_sector_index + i
        if remaining_size > 0:
            result += self._read_sector(
                final_sector_index,
                0,
                remaining_size
            )

        if len(result) != size:
            raise SectorReadError(f"Wanted {size}, read {len(result)}.")

        return result


# verbatim copy of smpl_extract.util.fat.FileStream on top of the original
class FileStreamOrig(SectorStreamOrig):


    def __init__(
            self,
            parent_stream:      IOBase,
            sector_size:        int,
            sector_list:        List[int],
            position:           int = 0,
            buffer_length:      int = 0x1000
    ) -> None:
        super().__init__(
            parent_stream,
            size=(sector_size * len(sector_list)),
            sector_length=sector_size,
            position=position,
            buffer_length=buffer_length
        )
        self.sector_list = sector_list


    def _get_address_given_sector_index(
            self,
            sector_index: int,
            offset: int
        ):
        try:
            sector  = self.sector_list[sector_index]
        except IndexError as e:
            raise SectorReadError(
                f"Sector {sector_index} lies beyond the "
                f"{len(self.sector_list)} sectors of the file."
            ) from e
        result  = super()._get_address_given_sector_index(
            sector,
            offset
        )
        return result


# verbatim copy of smpl_extract.alcohol.mdf.MdfStream on top of the original
class MdfStreamOrig(SectorStreamOrig):


    def __init__(
            self,
            parent_stream:  IOBase,
            position:       int = 0,
            buffer_length:  int = 0x1000
    ) -> None:

        # get parent size
        offset = parent_stream.tell()
        parent_stream.seek(0, SEEK_END)
        parent_size = parent_stream.tell()
        parent_stream.seek(offset, SEEK_SET)

        num_sectors = parent_size // MDF_SECTOR_SIZE
        size = num_sectors * MDF_SECTOR_BODY_SIZE

        super().__init__(
            parent_stream,
            size=size,
            sector_length=MDF_SECTOR_BODY_SIZE,
            position=position,
            buffer_length=buffer_length
        )


    def _get_address_given_sector_index(
            self,
            sector_index: int,
            offset: int
        ):
        sector_address  = sector_index * MDF_SECTOR_SIZE

        mdf_address = sector_address + MDF_SECTOR_HEADER_SIZE + offset
        return mdf_address


# --------------------------------------------------------------------------
# Instrumented shared substream
# --------------------------------------------------------------------------
class LoggedSubstream:
    def __init__(self, data, log):
        self.inner = BytesIO(data)
        self.log = log

    def seek(self, offset, whence=SEEK_SET):
        try:
            res = self.inner.seek(offset, whence)
        except BaseException as e:  # noqa
            self.log.append(("seek-exc", offset, whence, type(e)))
            raise
        self.log.append(("seek", offset, whence, res))
        return res

    def tell(self):
        res = self.inner.tell()
        self.log.append(("tell", res))
        return res

    def read(self, size=-1):
        pos = self.inner.tell()
        res = self.inner.read(size)
        self.log.append(("read", size, pos, len(res)))
        return res


rnd = random.Random(909)

READ_SIZES = [0, 1, 2, 3, 4, 5, 7, 8, 15, 16, 17, 31, 32, 33, 64, 100, 4096]
SEEK_OFFSETS = [0, 1, 2, 4, 8, 10, 16, 32, 50, 64, 1000, 5000, -1, -4, -16,
                -1000]
ADDRESSES = [-40, -17, -16, -1, 0, 1, 7, 8, 9, 15, 16, 17, 31, 32, 63, 64, 65,
             100, 127, 128, 129, 2047, 2048, 2049, 4095, 4096, 10000]


def random_ops(n):
    ops = []
    for _ in range(n):
        r = rnd.random()
        if r < 0.40:
            ops.append(("read", rnd.choice(READ_SIZES)))
        elif r < 0.45:
            ops.append(("read", rnd.choice([None, -1])))
        elif r < 0.48:
            ops.append(("readall",))
        elif r < 0.62:
            ops.append(("seek", rnd.choice(SEEK_OFFSETS),
                        rnd.choice([SEEK_SET, SEEK_CUR, SEEK_END])))
        elif r < 0.74:
            ops.append(("_translate_address", rnd.choice(ADDRESSES)))
        elif r < 0.86:
            ops.append(("_read_sector", rnd.choice(
                [-2, -1, 0, 1, 2, 3, 5, 9, 40]),
                rnd.choice([0, 1, 3, 8, 15, 16, 17, 2047, 2048]),
                rnd.choice([0, 1, 2, 8, 13, 16, 17, 2048, 2049])))
        elif r < 0.94:
            ops.append(("_get_address_given_sector_index", rnd.choice(
                [-3, -1, 0, 1, 2, 4, 7, 30]), rnd.choice([0, 1, 5, 16, 99])))
        elif r < 0.98:
            ops.append(("move_substream", rnd.choice([0, 1, 5, 16, 33, 200])))
        else:
            ops.append(("poke_position", rnd.choice([0, 5, 17, 70, 500])))
    return ops


def execute(make_stream, data, ops):
    log = []
    substream = LoggedSubstream(data, log)
    trace = []
    try:
        stream = make_stream(substream)
    except BaseException as e:  # noqa
        return [("ctor-exc", type(e), str(e))], log
    for op in ops:
        try:
            if op[0] == "read":
                res = stream.read(op[1])
            elif op[0] == "readall":
                res = stream.readall()
            elif op[0] == "seek":
                res = stream.seek(op[1], op[2])
            elif op[0] == "move_substream":
                res = substream.inner.seek(op[1])
            elif op[0] == "poke_position":
                stream.position = op[1]
                res = None
            else:
                res = getattr(stream, op[0])(*op[1:])
            out = ("ok", type(res), res)
        except BaseException as e:  # noqa
            cause = type(e.__cause__) if e.__cause__ is not None else None
            out = ("exc", type(e), str(e), cause)
        trace.append((op, out, stream.position, stream.true_size,
                      substream.inner.tell()))
    return trace, log


failures = 0
checked = 0


def compare(label, make_new, make_old, data, ops):
    global failures, checked
    checked += 1
    new = execute(make_new, data, ops)
    old = execute(make_old, data, ops)
    if new != old:
        failures += 1
        if failures <= 10:
            print("MISMATCH", label)
            for a, b in zip(new[0], old[0]):
                if a != b:
                    print("  new:", a)
                    print("  old:", b)
                    break
            else:
                print("  substream logs differ")


def main():
    full = bytes(rnd.randrange(256) for _ in range(3 * MDF_SECTOR_SIZE + 700))

    # ---- plain SectorStream ------------------------------------------------
    for sector_length in (1, 2, 8, 16, 17, 64, 512):
        for size in (0, 1, 15, 16, 17, 100, 512, 2000, len(full),
                     len(full) + 300):
            for cut in (len(full), size // 2, max(0, size - 1), 3, 0):
                data = full[:cut]
                for position in (0, 5):
                    ops = random_ops(40)
                    compare(
                        f"SectorStream L={sector_length} size={size} "
                        f"cut={cut} pos={position}",
                        lambda s: SectorStream(
                            s, size, sector_length, position=position),
                        lambda s: SectorStreamOrig(
                            s, size, sector_length, position=position),
                        data, ops)

    # sector_length == 0 (ZeroDivisionError paths) and end_of_file None
    for sector_length, size in ((0, 10), (0, 0), (4, None)):
        for _ in range(10):
            ops = random_ops(30)
            compare(
                f"SectorStream degenerate L={sector_length} size={size}",
                lambda s: SectorStream(s, size, sector_length),
                lambda s: SectorStreamOrig(s, size, sector_length),
                full[:200], ops)

    # ---- FileStream (sector chain, SectorReadError past the chain) ----------
    chains = [
        [], [0], [3], [1, 2, 3], [5, 1, 9, 2], [2, 2, 2], [0, 40, 1],
        [7, 6, 5, 4, 3, 2, 1, 0], [100], [1, -1, 2],
    ]
    for sector_size in (1, 4, 16, 32, 100):
        for chain in chains:
            for cut in (len(full), sector_size * 3, sector_size * 2 + 1,
                        sector_size, 1, 0):
                data = full[:cut]
                ops = random_ops(40)
                compare(
                    f"FileStream L={sector_size} chain={chain} cut={cut}",
                    lambda s: FileStream(s, sector_size, list(chain)),
                    lambda s: FileStreamOrig(s, sector_size, list(chain)),
                    data, ops)
                # chain shortened after construction: end_of_file says more
                # sectors than the list has -> SectorReadError from the helper
                ops = random_ops(40)

                def make_new(s):
                    st = FileStream(s, sector_size, list(chain))
                    st.sector_list = st.sector_list[:len(chain) // 2]
                    return st

                def make_old(s):
                    st = FileStreamOrig(s, sector_size, list(chain))
                    st.sector_list = st.sector_list[:len(chain) // 2]
                    return st

                compare(
                    f"FileStream shortened L={sector_size} chain={chain} "
                    f"cut={cut}", make_new, make_old, data, ops)

    # ---- MdfStream (override adds a per-sector header) ----------------------
    for cut in (len(full), 3 * MDF_SECTOR_SIZE, 2 * MDF_SECTOR_SIZE + 100,
                MDF_SECTOR_SIZE + 16, MDF_SECTOR_SIZE, 2000, 16, 0):
        data = full[:cut]
        for _ in range(8):
            ops = random_ops(40)
            compare(f"MdfStream cut={cut}", MdfStream, MdfStreamOrig,
                    data, ops)

    print(f"{checked} scenarios compared, {failures} mismatches")
    return 1 if failures else 0


if __name__ == "__main__":
    sys.exit(main())
