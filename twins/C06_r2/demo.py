"""Equivalence demo for r2: Image.sanitize_names_general (flipped if/else,
dict membership without .keys()).

Runs the live method and an inline copy of the ORIGINAL on many sibling-name
multisets and compares: the ordered log of f_sanitize / f_set calls (side
effects), the returned object identity, the names finally assigned, and any
exception (type + message).  Exit 0 on agreement.
"""
import itertools
import random
import sys
from typing import Dict, List

from smpl_extract.base import ElementTypes
from smpl_extract.structural import CouldNotDetermineName
from smpl_extract.structural import Image


# ---- inline copy of the ORIGINAL implementation -------------------------
def orig_sanitize_names_general(self, elements, f_sanitize, f_set):
    candidate_names: Dict[str, List] = {}
    for element in elements:
        is_file = element.type_id != ElementTypes.DirectoryEntry
        candidate_name = f_sanitize(element.name, is_file)

        if candidate_name not in candidate_names.keys():
            candidate_names[candidate_name] = []
        candidate_names[candidate_name].append(element)

    assigned_names = set()  # as in the tree after the numbering fix
    for name, subelements in candidate_names.items():
        if len(subelements) == 1:
            element = subelements[0]
            f_set(element, name)
            continue

        i = 0
        for element in subelements:
            i += 1
            if i > 1:
                next_name = self._add_count_to_name(name, i)
                j = 0
                while (next_name in candidate_names.keys() or next_name in assigned_names):
                    i += 1
                    j += 1
                    next_name = self._add_count_to_name(name, i)
                    if j > len(candidate_names.keys()):
                        # This should never(?) happen
                        raise CouldNotDetermineName(
                            "Unable to determine proper (sanitized) "
                            f"name for {element.name}. Too many name "
                            "collisions."
                        )
            else:
                next_name = name
            f_set(element, next_name)
            assigned_names.add(next_name)

    result = elements
    return result
# -------------------------------------------------------------------------


class Fake:
    def __init__(self, name, type_id, ident):
        self.name = name
        self.type_id = type_id
        self.ident = ident
        self.assigned = None


class StuckImage(Image):
    """_add_count_to_name never escapes a collision -> the 'never happens'
    branch is reached."""
    def _add_count_to_name(self, name, count):
        return "stuck"


def run(fn, image, specs, mode):
    elements = [Fake(n, t, k) for k, (n, t) in enumerate(specs)]
    log = []

    if mode == "safe":
        inner = image.make_safe_name
    elif mode == "export":
        inner = image.make_export_name
    elif mode == "identity":
        inner = lambda name, is_file: name  # noqa: E731
    elif mode == "constant":
        inner = lambda name, is_file: "same"  # noqa: E731
    elif mode == "unhashable":
        inner = lambda name, is_file: [name]  # noqa: E731
    elif mode == "raises":
        def inner(name, is_file):
            if name == "boom":
                raise RuntimeError("sanitize failed")
            return name
    else:
        raise AssertionError(mode)

    def f_sanitize(name, is_file):
        out = inner(name, is_file)
        log.append(("san", name, is_file, repr(out)))
        return out

    def f_set(element, name):
        log.append(("set", element.ident, name))
        if mode == "raises" and name == "setboom":
            raise ValueError("set failed")
        element.assigned = name

    try:
        res = fn(image, elements, f_sanitize, f_set)
        status = ("ok", res is elements, [e.ident for e in res])
    except Exception as e:  # noqa: BLE001
        status = ("exc", type(e).__name__, str(e))
    return status, log, [e.assigned for e in elements]


def main():
    D = ElementTypes.DirectoryEntry
    S = ElementTypes.SampleEntry
    P = ElementTypes.ProgramEntry
    image = Image(lambda ctx: [])
    stuck = StuckImage(lambda ctx: [])

    cases = []
    hand = [
        [],
        ["a"],
        ["a", "a"],
        ["a", "a", "a"],
        ["a", "a", "a (2)"],
        ["a (2)", "a", "a"],
        ["a", "a", "a (2)", "a (3)", "a"],
        ["a", "a", "a (2)", "a (2)"],
        ["a (2)", "a (2)", "a", "a"],
        ["x L", "x R", "x L", "x R"],
        ["x L", "x L", "x (2) L"],
        ["x-L", "x -L", "x L", "x  L"],
        ["x/y", "x\\y", "x y", "x:y"],
        ["..", "..", "../..", "."],
        ["", "", " ", "."],
        ["'a'", "a", '"a"', "`a`"],
        ["a.", "a", "a .", "a"],
        ["L", "R", "L", "R", "(2) L"],
        ["stuck", "a", "a"],
        ["boom", "a"],
        ["a", "boom", "a"],
        ["setboom", "a"],
        ["setboom", "setboom"],
    ]
    for names in hand:
        for types in (None, "D", "mix"):
            spec = []
            for k, n in enumerate(names):
                if types is None:
                    t = S
                elif types == "D":
                    t = D
                else:
                    t = (S, D, P)[k % 3]
                spec.append((n, t))
            cases.append(spec)

    base = ["a", "a (2)", "a (3)", "a L", "a (2) L", "a.", "a/", "-", ""]
    for n in range(1, 5):
        for tup in itertools.product(base, repeat=n):
            cases.append([(x, S) for x in tup])

    rng = random.Random(62)
    pool = ["a", "A", "a ", "a.", "a'", "a (2)", "a (3)", "a (4)", "a L", "a R",
            "a-L", "a (2) L", "a (2) R", "b", "b/", "b\\", "..", ".", "", "#",
            "(2)", "a(2)", "a  (2)", "stuck", "same"]
    for _ in range(4000):
        k = rng.randint(0, 12)
        cases.append([(rng.choice(pool), rng.choice((S, S, D, P))) for _ in range(k)])

    modes = ["safe", "export", "identity", "constant", "unhashable", "raises"]
    bad = 0
    total = 0
    for spec in cases:
        for img in (image, stuck):
            for mode in modes:
                total += 1
                a = run(type(img).sanitize_names_general, img, spec, mode)
                b = run(orig_sanitize_names_general, img, spec, mode)
                if a != b:
                    bad += 1
                    if bad < 10:
                        print("MISMATCH", mode, type(img).__name__, spec)
                        print("  live:", a[0], a[2])
                        print("  orig:", b[0], b[2])

    # sanity: the 'never happens' branch really was exercised
    st, _, _ = run(Image.sanitize_names_general, stuck, [("stuck", S), ("a", S), ("a", S)], "identity")
    if st[:2] != ("exc", "CouldNotDetermineName"):
        print("expected CouldNotDetermineName, got", st)
        bad += 1

    print(f"r2: {total} comparisons, {bad} mismatches")
    return 1 if bad else 0


if __name__ == "__main__":
    sys.exit(main())
