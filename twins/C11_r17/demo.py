"""Equivalence demo for StreamWrapper.readall (smpl_extract/util/stream.py).

readall() is what read(None) / read(-1) resolve to; it pulls buffer_length sized
blocks through StreamWrapper.read, i.e. every block goes through the "re-seek
when the shared cursor is not where this view left it" check.

Every live stream class (StreamWrapper, StreamOffset, StreamReversed,
SectorStream, FileStream) is compared with a subclass of it that carries a
verbatim copy of the ORIGINAL readall:

 1. single streams of every kind, many sizes / buffer lengths / start
    positions (0, 1, exact multiples, beyond the end, end_of_file 0 or None):
    returned bytes, exceptions (type and text), final position / true_size and
    the complete seek/tell/read trace on the handle must agree;
 2. odd substreams: short reads, reads that return bytearray / memoryview,
    reads that raise midway, a substream that changes the wrapper's
    buffer_length while readall is running;
 3. several streams over ONE shared traced handle, with readall / read / seek
    operations interleaved exhaustively (2 streams x 3 operations each,
    3 streams x 2) and randomly: per operation results and the handle trace
    must agree, and every stream must see exactly the bytes that the same
    operations give on a private copy of the image.
Exit 0 when everything agrees, 1 otherwise.
"""
import io
import itertools
import random
import sys

from smpl_extract.util.fat import FileStream
from smpl_extract.util.sector import SectorStream
from smpl_extract.util.stream import StreamOffset
from smpl_extract.util.stream import StreamReversed
from smpl_extract.util.stream import StreamWrapper


def orig_readall(self) -> bytes:
    """Verbatim copy of the original StreamWrapper.readall."""
    result = bytes()
    while True:
        new_read = self.read(self.buffer_length)
        if len(new_read) < 1:
            break
        result += new_read

    return result


_ORIG_CACHE = {}


def live(cls):
    return cls


def orig(cls):
    if cls not in _ORIG_CACHE:
        _ORIG_CACHE[cls] = type("Orig" + cls.__name__, (cls,), {"readall": orig_readall})
    return _ORIG_CACHE[cls]


class TraceIO(io.BytesIO):
    def __init__(self, data):
        super().__init__(data)
        self.trace = []

    def seek(self, off, whence=0):
        r = super().seek(off, whence)
        self.trace.append(("seek", off, whence, r))
        return r

    def tell(self):
        r = super().tell()
        self.trace.append(("tell", r))
        return r

    def read(self, size=-1):
        r = super().read(size)
        self.trace.append(("read", size, len(r)))
        return r


FAILURES = []
CHECKS = 0


def check(cond, label):
    global CHECKS
    CHECKS += 1
    if not cond:
        FAILURES.append(label)
        if len(FAILURES) <= 20:
            print("MISMATCH:", label)


def outcome(fn):
    try:
        r = fn()
        return ("ok", type(r).__name__, bytes(r))
    except RecursionError:
        return ("exc", "RecursionError", "")
    except Exception as e:  # noqa: BLE001
        ctx = type(e.__context__).__name__ if e.__context__ is not None else None
        return ("exc", type(e).__name__, str(e), ctx)


IMAGE = bytes((i * 37 + (i >> 8) * 11 + 5) & 0xFF for i in range(6000))


# ------------------------------------------------------------------ 1. singles
def single_factories():
    """Yield (label, factory(K, handle) -> stream)."""
    for size in (0, 1, 2, 7, 64, 100, 4095, 4096, 4097, 5000, None):
        for buf in (0, 1, 3, 16, 100, 0x1000, 10000):
            for pos in (0, 1, 5, 64, 5000):
                if size is None and buf == 0:
                    pass
                yield (
                    f"wrapper size={size} buf={buf} pos={pos}",
                    lambda K, h, size=size, buf=buf, pos=pos:
                        K(StreamWrapper)(h, size, position=pos, buffer_length=buf),
                )
    for size in (0, 1, 10, 777, 4096):
        for off in (0, 3, 1000, 5990):
            for buf in (1, 5, 256, 0x1000):
                for pos in (0, 2, 800):
                    yield (
                        f"offset size={size} off={off} buf={buf} pos={pos}",
                        lambda K, h, size=size, off=off, buf=buf, pos=pos:
                            K(StreamOffset)(h, size, off, position=pos, buffer_length=buf),
                    )
    for size in (0, 2, 8, 120, 121, 1000):
        for width in (1, 2, 3, 4):
            for buf in (1, 2, 4, 6, 12, 100, 0x1000):
                for pos in (0, 2, 12):
                    yield (
                        f"reversed size={size} w={width} buf={buf} pos={pos}",
                        lambda K, h, size=size, width=width, buf=buf, pos=pos:
                            K(StreamReversed)(h, size, sample_width=width, position=pos, buffer_length=buf),
                    )
    for size in (0, 1, 16, 17, 100, 512, 1000):
        for sl in (1, 4, 16, 100):
            for buf in (1, 3, 16, 50, 0x1000):
                for pos in (0, 5, 16, 99):
                    yield (
                        f"sector size={size} sl={sl} buf={buf} pos={pos}",
                        lambda K, h, size=size, sl=sl, buf=buf, pos=pos:
                            K(SectorStream)(h, size, sl, position=pos, buffer_length=buf),
                    )
    chains = ([], [3], [5, 2, 9], [0, 1, 2, 3], [40, 7, 7, 12, 1], [2, 400, 3], list(range(20, 0, -3)))
    for chain in chains:
        for ss in (1, 8, 32, 128):
            for buf in (1, 7, 32, 200, 0x1000):
                for pos in (0, 3, 33):
                    yield (
                        f"file chain={chain} ss={ss} buf={buf} pos={pos}",
                        lambda K, h, chain=chain, ss=ss, buf=buf, pos=pos:
                            K(FileStream)(h, ss, list(chain), position=pos, buffer_length=buf),
                    )
    # nested views: file inside a window inside a window, window over a file
    for buf in (1, 9, 64, 0x1000):
        yield (
            f"nested file-in-window buf={buf}",
            lambda K, h, buf=buf: K(FileStream)(
                K(StreamOffset)(K(StreamOffset)(h, 5000, 100), 4000, 50),
                64, [5, 1, 30, 2], buffer_length=buf),
        )
        yield (
            f"nested window-over-file buf={buf}",
            lambda K, h, buf=buf: K(StreamWrapper)(
                K(FileStream)(K(StreamOffset)(h, 5000, 10), 32, [9, 8, 1, 77, 3]),
                100, buffer_length=buf),
        )
        yield (
            f"nested reversed-over-window buf={buf}",
            lambda K, h, buf=buf: K(StreamReversed)(
                K(StreamOffset)(h, 600, 40), 600, sample_width=2,
                buffer_length=buf - buf % 2),
        )


def run_single(K, factory, how):
    h = TraceIO(IMAGE)
    s = factory(K, h)
    if how == "readall":
        out = outcome(s.readall)
    elif how == "none":
        out = outcome(lambda: s.read(None))
    elif how == "neg":
        out = outcome(lambda: s.read(-1))
    else:  # a partial read first, then readall, then readall again
        first = outcome(lambda: s.read(5))
        out = (first, outcome(s.readall), outcome(s.readall))
    top = s
    return out, top.position, top.true_size, top.buffer_length, list(h.trace), io.BytesIO.tell(h)


def part_singles():
    n = 0
    for label, factory in single_factories():
        for how in ("readall", "none", "neg", "mixed"):
            a = run_single(live, factory, how)
            b = run_single(orig, factory, how)
            check(a == b, f"single {label} {how}: {a[:4]} != {b[:4]}")
            n += 1
    return n


# --------------------------------------------------------------- 2. odd bases
class OddBase:
    """A substream whose read() answers from a script."""

    def __init__(self, script, wrapper_hook=None):
        self.script = list(script)
        self.calls = []
        self.pos = 0
        self.hook = wrapper_hook
        self.owner = None

    def tell(self):
        self.calls.append(("tell", self.pos))
        return self.pos

    def seek(self, off, whence=0):
        self.calls.append(("seek", off, whence))
        self.pos = off
        return off

    def read(self, size):
        self.calls.append(("read", size))
        if self.hook is not None:
            self.hook(self.owner, len(self.calls))
        if not self.script:
            return b""
        item = self.script.pop(0)
        if isinstance(item, BaseException):
            raise item
        if callable(item):
            item = item(size)
        self.pos += len(item)
        return item


def odd_scripts():
    yield "empty", []
    yield "short reads", [b"abc", b"d", b"", b"never"]
    yield "bytearray", [bytearray(b"xy"), bytearray(b"z"), bytearray()]
    yield "memoryview", [memoryview(b"12345"), memoryview(b"")]
    yield "mixed types", [b"a", bytearray(b"b"), memoryview(b"c"), b""]
    yield "raises first", [ValueError("boom")]
    yield "raises midway", [b"abcd", b"ef", OSError("disk gone"), b"xx"]
    yield "str block", ["text", b""]
    yield "none block", [b"ab", None]
    yield "list block", [[1, 2], []]
    yield "size echo", [lambda n: bytes(n), lambda n: bytes(n // 2), lambda n: b""]
    yield "tuple block", [(1, 2), ()]


def shrink_hook(owner, ncalls):
    # the base changes the wrapper's buffer_length while readall is running
    if owner is not None:
        owner.buffer_length = max(0, owner.buffer_length - 3)


def grow_hook(owner, ncalls):
    if owner is not None:
        owner.buffer_length += 2


def run_odd(K, script, size, buf, hook):
    base = OddBase(script, hook)
    s = K(StreamWrapper)(base, size, buffer_length=buf)
    base.owner = s
    out = outcome(s.readall)
    return out, s.position, s.true_size, s.buffer_length, base.calls, base.script


def part_odd():
    n = 0
    for label, script in odd_scripts():
        for size in (0, None, 3, 6, 1000):
            for buf in (0, 1, 4, 9, 100):
                for hook in (None, shrink_hook, grow_hook):
                    a = run_odd(live, script, size, buf, hook)
                    b = run_odd(orig, script, size, buf, hook)
                    check(repr(a) == repr(b), f"odd {label} size={size} buf={buf} {hook}: {a[:3]} != {b[:3]}")
                    n += 1
    return n


# ------------------------------------------------ 3. shared handle, schedules
def shared_streams(K, h, how_many):
    """Streams of different kinds over the one handle h."""
    part = K(StreamOffset)(h, 4096, 512, buffer_length=64)
    area = K(StreamOffset)(K(StreamOffset)(h, 5000, 200), 3000, 300, buffer_length=100)
    streams = [
        K(FileStream)(part, 32, [7, 3, 50, 4, 90, 1], buffer_length=48),
        K(StreamWrapper)(K(FileStream)(part, 32, [2, 60, 61, 5]), 100, buffer_length=33),
        K(FileStream)(area, 64, [9, 0, 20, 11], buffer_length=0x1000),
        K(StreamOffset)(h, 150, 2352, buffer_length=7),
        K(StreamReversed)(K(StreamOffset)(h, 240, 1000), 240, sample_width=2, buffer_length=16),
    ]
    return streams[:how_many]


OPS = [
    ("readall",),
    ("read", 10),
    ("read", 64),
    ("read", None),
    ("seek", 0, 0),
    ("seek", 40, 0),
    ("seek", -20, 2),
]


def apply_op(stream, op):
    if op[0] == "readall":
        return outcome(stream.readall)
    if op[0] == "read":
        return outcome(lambda: stream.read(op[1]))
    return ("seek", stream.seek(op[1], op[2]))


def run_schedule(K, how_many, schedule):
    h = TraceIO(IMAGE)
    streams = shared_streams(K, h, how_many)
    results = [apply_op(streams[i], op) for i, op in schedule]
    state = [(s.position, s.true_size) for s in streams]
    return results, state, list(h.trace)


def run_isolated(K, how_many, schedule):
    """Each stream on a private copy of the image, only its own operations."""
    per_stream = {}
    for idx in range(how_many):
        h = TraceIO(IMAGE)
        stream = shared_streams(K, h, how_many)[idx]
        per_stream[idx] = [apply_op(stream, op) for i, op in schedule if i == idx]
    cursor = {i: 0 for i in range(how_many)}
    merged = []
    for i, _ in schedule:
        merged.append(per_stream[i][cursor[i]])
        cursor[i] += 1
    return merged


def check_schedule(how_many, schedule, label):
    a = run_schedule(live, how_many, schedule)
    b = run_schedule(orig, how_many, schedule)
    check(a == b, f"{label}: live and original differ for {schedule}")
    iso = run_isolated(live, how_many, schedule)
    check(a[0] == iso, f"{label}: shared handle differs from isolated reads for {schedule}")


def interleavings(counts):
    """All orders of the stream indices, stream i appearing counts[i] times."""
    pool = [i for i, c in enumerate(counts) for _ in range(c)]
    return sorted(set(itertools.permutations(pool)))


def part_schedules():
    n = 0
    rng = random.Random(1711)
    # exhaustive orders, 2 streams x 3 ops and 3 streams x 2 ops
    for counts in ((3, 3), (2, 2, 2)):
        orders = interleavings(counts)
        for order in orders:
            for variant in range(4):
                ops_per_stream = [
                    [("readall",)] + [rng.choice(OPS) for _ in range(c - 1)]
                    if variant % 2 == 0 else
                    [rng.choice(OPS) for _ in range(c - 1)] + [("readall",)]
                    for c in counts
                ]
                cursor = [0] * len(counts)
                schedule = []
                for i in order:
                    schedule.append((i, ops_per_stream[i][cursor[i]]))
                    cursor[i] += 1
                check_schedule(len(counts), schedule, f"exhaustive {counts}")
                n += 1
    # random, up to 5 streams and 14 operations
    for _ in range(600):
        how_many = rng.randint(2, 5)
        schedule = [
            (rng.randrange(how_many), rng.choice(OPS))
            for _ in range(rng.randint(2, 14))
        ]
        check_schedule(how_many, schedule, "random")
        n += 1
    return n


def main():
    n1 = part_singles()
    n2 = part_odd()
    n3 = part_schedules()
    print(f"single streams: {n1}, odd substreams: {n2}, schedules: {n3}, checks: {CHECKS}")
    if FAILURES:
        print(f"{len(FAILURES)} mismatches")
        return 1
    print("all agree")
    return 0


if __name__ == "__main__":
    sys.exit(main())
