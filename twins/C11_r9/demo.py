"""Equivalence demo for StreamWrapper.seek (smpl_extract/util/stream.py).

The live seek() of StreamWrapper and of its subclasses (StreamOffset,
StreamReversed, SectorStream, FileStream) is compared with an inline copy of the
ORIGINAL seek(): return value, exception, object state afterwards, and the
exact sequence of tell/seek/read calls issued on the shared underlying handle,
over edge cases and random interleavings of several views over one handle.
Exit 0 when everything agrees, 1 otherwise.
"""
import io
import itertools
import random
import sys
from io import SEEK_CUR, SEEK_END, SEEK_SET

from smpl_extract.util.fat import FileStream
from smpl_extract.util.sector import SectorStream
from smpl_extract.util.stream import StreamOffset
from smpl_extract.util.stream import StreamReversed
from smpl_extract.util.stream import StreamWrapper


def original_seek(self, offset, whence=SEEK_CUR):
    """Verbatim copy of the original StreamWrapper.seek."""
    starting_position = 0
    if whence == SEEK_CUR:
        starting_position = self.position
    elif whence == SEEK_END:
        starting_position = self.end_of_file

    new_position = starting_position + offset
    if new_position > self.end_of_file:
        new_position = self.end_of_file
    elif new_position < 0:
        new_position = 0

    self.true_size = 0
    self._seek(new_position)
    self.position = new_position
    return new_position


def with_original(cls):
    return type("Orig" + cls.__name__, (cls,), {"seek": original_seek})


LIVE = {c.__name__: c for c in (StreamWrapper, StreamOffset, StreamReversed, SectorStream, FileStream)}
ORIG = {name: with_original(c) for name, c in LIVE.items()}


class TraceIO(io.BytesIO):
    def __init__(self, data):
        super().__init__(data)
        self.trace = []

    def seek(self, off, whence=0):
        self.trace.append(("seek>", off, whence))
        r = super().seek(off, whence)
        self.trace.append(("seek<", r))
        return r

    def read(self, n=-1):
        r = super().read(n)
        self.trace.append(("read", n, r))
        return r

    def tell(self):
        r = super().tell()
        self.trace.append(("tell", r))
        return r


_RND = random.Random(911)
DATA = bytes(_RND.randrange(256) for _ in range(6000))
FAILS = []


def check(label, a, b):
    if a != b:
        FAILS.append(label)
        print("MISMATCH", label)
        print("   live:", repr(a)[:400])
        print("   orig:", repr(b)[:400])


def state(view):
    d = dict(view.__dict__)
    d.pop("substream", None)
    return sorted((k, repr(v)) for k, v in d.items())


def attempt(f, *a, **k):
    try:
        return ("ok", f(*a, **k))
    except Exception as e:  # noqa
        return ("exc", type(e).__name__, str(e))


def make(table, name, handle, size, rnd_seed=0):
    if name == "StreamWrapper":
        return table[name](handle, size)
    if name == "StreamOffset":
        return table[name](handle, size, 37)
    if name == "StreamReversed":
        return table[name](handle, size, 2)
    if name == "SectorStream":
        return table[name](handle, size, 64)
    if name == "FileStream":
        sl = list(range(40))
        random.Random(rnd_seed).shuffle(sl)
        v = table[name](handle, 64, sl[:max(1, (size if isinstance(size, int) and size > 0 else 64) // 64)])
        v.end_of_file = size if size is not None else v.end_of_file
        return v
    raise AssertionError(name)


# ---------------------------------------------------------------- edge cases
OFFSETS = [-10**6, -700, -65, -64, -1, 0, 1, 2, 3, 63, 64, 65, 499, 500, 501, 10**6]
WHENCES = [SEEK_SET, SEEK_CUR, SEEK_END, 3, -1, None, True, 1.0, 2.0, "1"]
SIZES = [0, 1, 2, 500, 512, -5, 6000, 10**5]
STARTS = [0, 1, 250, 500]


def single_calls():
    n = 0
    for name in LIVE:
        for size, start, off, wh in itertools.product(SIZES, STARTS, OFFSETS, WHENCES):
            rec = []
            for table in (LIVE, ORIG):
                h = TraceIO(DATA)
                h.seek(123)
                h.trace.clear()
                v = make(table, name, h, size)
                v.position = start
                v.true_size = 7
                r = attempt(v.seek, off, wh)
                tail = attempt(v.read, 6)
                rec.append((r, state(v), tail, h.trace))
            check(("single", name, size, start, off, wh), rec[0], rec[1])
            n += 1
    return n


def default_whence():
    """seek(offset) without whence is relative to the current position."""
    for name in LIVE:
        rec = []
        for table in (LIVE, ORIG):
            h = TraceIO(DATA)
            v = make(table, name, h, 512)
            out = [attempt(v.seek, 10), attempt(v.seek, 10), attempt(v.seek, -4), v.tell(),
                   attempt(v.seek, offset=6, whence=SEEK_SET), attempt(v.seek, whence=SEEK_END, offset=-8),
                   attempt(v.read, 4)]
            rec.append((out, state(v), h.trace))
        check(("default", name), rec[0], rec[1])


def odd_end_of_file():
    """end_of_file None / float: same exceptions and values."""
    for name in ("StreamWrapper", "StreamOffset"):
        for eof in (None, 12.5, -0.0):
            for off, wh in itertools.product((-3, 0, 4, 40, 2.5), (0, 1, 2)):
                rec = []
                for table in (LIVE, ORIG):
                    h = TraceIO(DATA)
                    v = make(table, name, h, 100)
                    v.end_of_file = eof
                    r = attempt(v.seek, off, wh)
                    rec.append((repr(r), state(v), h.trace))
                check(("oddeof", name, eof, off, wh), rec[0], rec[1])


def failing_inner_seek():
    """When _seek raises, true_size is already reset and position untouched."""
    class Boom(Exception):
        pass

    for table_name, table in (("live", LIVE), ("orig", ORIG)):
        pass
    rec = []
    for table in (LIVE, ORIG):
        base = table["StreamWrapper"]

        class Failing(base):
            def _seek(self, address):
                self.seen = (address, self.true_size, self.position)
                raise Boom(address)

        v = Failing(io.BytesIO(DATA), 100)
        v.position = 9
        v.true_size = 5
        r = attempt(v.seek, 30, SEEK_SET)
        rec.append((r, state(v)))
    check("failing-inner", rec[0], rec[1])
    # reversed view with odd alignment raises BadAlign from _translate_addr
    rec = []
    for table in (LIVE, ORIG):
        v = table["StreamReversed"](TraceIO(DATA), 101, 2)
        out = [attempt(v.seek, 4, 0), attempt(v.seek, 3, 0), attempt(v.read, 4), attempt(v.seek, 0, 2)]
        rec.append((out, state(v), v.substream.trace))
    check("reversed-align", rec[0], rec[1])


# ------------------------------------------------- interleavings, shared handle
def schedule(seed, nviews, nops):
    rnd = random.Random(seed)
    names = [rnd.choice(list(LIVE)) for _ in range(nviews)]
    sizes = [rnd.choice([0, 1, 64, 500, 512, 2000]) for _ in range(nviews)]
    ops = []
    for _ in range(nops):
        i = rnd.randrange(nviews)
        kind = rnd.choice(["seek", "seek", "read", "tell", "readall"])
        if kind == "seek":
            ops.append((i, "seek", rnd.choice(OFFSETS + [rnd.randrange(-600, 2600)]), rnd.choice([0, 1, 2, 0, 1, 2, 5])))
        elif kind == "read":
            ops.append((i, "read", rnd.choice([0, 1, 2, 6, 64, 100, 130, 4096])))
        else:
            ops.append((i, kind))
    return names, sizes, ops


def play(table, names, sizes, ops, seed):
    h = TraceIO(DATA)
    views = [make(table, n, h, s, rnd_seed=seed + k) for k, (n, s) in enumerate(zip(names, sizes))]
    out = []
    for op in ops:
        v = views[op[0]]
        if op[1] == "seek":
            out.append(attempt(v.seek, op[2], op[3]))
        elif op[1] == "read":
            out.append(attempt(v.read, op[2]))
        elif op[1] == "tell":
            out.append(attempt(v.tell))
        else:
            out.append(attempt(v.readall))
    return out, [state(v) for v in views], h.trace


def nested(table, seed):
    """Windows nested three deep over one handle (offset > sector > wrapper)."""
    rnd = random.Random(seed)
    h = TraceIO(DATA)
    outer = table["StreamOffset"](h, 4000, 100)
    mid_a = table["SectorStream"](outer, 1500, 64)
    mid_b = table["FileStream"](outer, 64, [5, 3, 9, 1, 30, 31, 2])
    leaf_a = table["StreamWrapper"](mid_a, 700)
    leaf_b = table["StreamReversed"](mid_b, 300, 2)
    leaves = [leaf_a, leaf_b, mid_a, outer]
    out = []
    for _ in range(60):
        v = rnd.choice(leaves)
        if rnd.random() < 0.5:
            out.append(attempt(v.seek, rnd.randrange(-50, 900) & ~1, rnd.choice([0, 1, 2])))
        else:
            out.append(attempt(v.read, rnd.choice([0, 2, 10, 64, 128, 200])))
    return out, [state(v) for v in (outer, mid_a, mid_b, leaf_a, leaf_b)], h.trace


def main():
    n = single_calls()
    default_whence()
    odd_end_of_file()
    failing_inner_seek()
    m = 0
    for seed in range(400):
        names, sizes, ops = schedule(seed, 2 + seed % 3, 40)
        check(("schedule", seed), play(LIVE, names, sizes, ops, seed), play(ORIG, names, sizes, ops, seed))
        m += 1
    for seed in range(150):
        check(("nested", seed), nested(LIVE, seed), nested(ORIG, seed))
    # exhaustive small interleavings: two views, three seek/read ops each
    ops_a = [(0, "seek", 70, 0), (0, "read", 10), (0, "seek", -5, 1), (0, "read", 10)]
    ops_b = [(1, "seek", -20, 2), (1, "read", 64), (1, "seek", 999, 1), (1, "read", 3)]
    k = 0
    for mask in itertools.combinations(range(8), 4):
        ia, ib = iter(ops_a), iter(ops_b)
        ops = [next(ia) if i in mask else next(ib) for i in range(8)]
        for names in itertools.product(LIVE, repeat=2):
            check(("exhaustive", mask, names),
                  play(LIVE, names, [512, 500], ops, 1), play(ORIG, names, [512, 500], ops, 1))
            k += 1
    print("single calls: %d, schedules: %d, exhaustive: %d, mismatches: %d" % (n, m, k, len(FAILS)))
    return 1 if FAILS else 0


if __name__ == "__main__":
    sys.exit(main())
