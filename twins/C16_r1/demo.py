"""Equivalence demo for r1: Volume.files (smpl_extract/akai/volume.py).

Compares the live ``Volume.files`` / ``Volume.children`` against an inline copy
of the ORIGINAL implementation, over many randomly generated file-entry lists,
routine sets (including raising routines) and access histories.
Exit 0 = everything agrees, 1 = mismatch.
"""
import random
import sys

from construct.core import ConstructError

from smpl_extract.akai.data_types import VolumeType
from smpl_extract.akai.file_entry import InvalidFileEntry
from smpl_extract.akai.volume import Volume


class OrigVolume(Volume):
    """Verbatim copy of the original lazy realisation code."""

    def _realize_files(self):
        for file_entry in self.file_entries:
            try:
                file = file_entry.file
            except (InvalidFileEntry, ConstructError) as e:
                file = None

            if file is not None:
                self._files.append(file)
        self._is_files_realized = True

    @property
    def files(self):
        if not self._is_files_realized:
            self._realize_files()
            files = self._files
            for routine in self._routines.values():
                files = routine(files)
            self._files = files
        return self._files  # type: ignore

    @property
    def children(self):
        return self.files


class Boom(Exception):
    pass


class FakeEntry:
    def __init__(self, log, ident, mode):
        self.log = log
        self.ident = ident
        self.mode = mode

    @property
    def file(self):
        self.log.append(("file", self.ident))
        if self.mode == "ok":
            return ("FILE", self.ident)
        if self.mode == "none":
            return None
        if self.mode == "invalid":
            raise InvalidFileEntry()
        if self.mode == "construct":
            raise ConstructError("bad")
        if self.mode == "boom":
            raise Boom(self.ident)
        raise AssertionError(self.mode)


def make_routines(log, spec):
    routines = {}
    for idx, kind in enumerate(spec):
        def routine(items, idx=idx, kind=kind):
            log.append(("routine", idx, kind, tuple(items)))
            if kind == "same":
                return items
            if kind == "copy":
                return list(items)
            if kind == "reverse":
                return list(reversed(items))
            if kind == "drop":
                return items[1:]
            if kind == "mutate":
                items.append(("EXTRA", idx))
                return items
            if kind == "raise":
                raise Boom(("routine", idx))
            raise AssertionError(kind)
        routines["r%d" % idx] = routine
    return routines


def run_history(cls, entry_modes, routine_spec, history, use_none_routines):
    log = []
    entries = [FakeEntry(log, i, m) for i, m in enumerate(entry_modes)]
    routines = None if use_none_routines else make_routines(log, routine_spec)
    vol = cls(
        name="VOL",
        volume_type=VolumeType.VOLUME_S3000,
        path=["VOL"],
        routines=routines,
        file_entries=entries,
    )
    trace = []
    last = None
    for op in history:
        try:
            if op == "files":
                res = vol.files
            elif op == "children":
                res = vol.children
            elif op == "set_routines":
                vol.set_routines(make_routines(log, ["reverse"]))
                res = "set"
            else:
                raise AssertionError(op)
            same_obj = (res is last)
            last = res
            trace.append(("ok", op, repr(res), same_obj, res is vol._files))
        except Boom as e:
            trace.append(("exc", op, repr(e)))
        trace.append(("state", vol._is_files_realized, repr(vol._files)))
    return trace, log


def main():
    rng = random.Random(1616)
    modes = ["ok", "ok", "ok", "none", "invalid", "construct", "boom"]
    kinds = ["same", "copy", "reverse", "drop", "mutate", "raise"]
    ops = ["files", "children", "files", "set_routines"]
    cases = 0
    bad = 0
    fixed = [
        ([], [], ["files", "files"], False),
        ([], [], ["children"], True),
        (["ok"], ["raise"], ["files", "files", "children"], False),
        (["boom", "ok"], ["same"], ["files", "files"], False),
        (["ok", "boom"], ["copy"], ["children", "files", "files"], False),
        (["none", "invalid", "construct"], ["mutate", "drop"], ["files"] * 3, False),
    ]
    generated = []
    for _ in range(3000):
        em = [rng.choice(modes) for _ in range(rng.randint(0, 6))]
        if rng.random() < 0.7:
            em = [m for m in em if m != "boom"]
        rs = [rng.choice(kinds) for _ in range(rng.randint(0, 3))]
        if rng.random() < 0.7:
            rs = [k for k in rs if k != "raise"]
        hist = [rng.choice(ops) for _ in range(rng.randint(1, 6))]
        generated.append((em, rs, hist, rng.random() < 0.1))
    for em, rs, hist, none_r in fixed + generated:
        cases += 1
        expected = run_history(OrigVolume, em, rs, hist, none_r)
        actual = run_history(Volume, em, rs, hist, none_r)
        if expected != actual:
            bad += 1
            if bad <= 5:
                print("MISMATCH", em, rs, hist, none_r)
                print("  expected", expected)
                print("  actual  ", actual)
    print("cases=%d mismatches=%d" % (cases, bad))
    return 1 if bad else 0


if __name__ == "__main__":
    sys.exit(main())
