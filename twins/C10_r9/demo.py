"""Equivalence demo for r9 (child lookup: Traversable.children).

The `children` property as currently in the tree is compared with an inline
copy of the ORIGINAL property on:
  * scripted scenarios with a full event log (context dict handed to the
    realizer: keys, key order, value identity; routines called in
    registration order with the previous result; caching; recomputation when
    the pipeline yields None; falsy-but-not-None results; exceptions raised
    by the realizer or by the n-th routine and the state left behind;
    set_routines() before / between / during realization; routines tables
    mutated or replaced while the realizer runs);
  * randomly generated scenarios of the same kind;
  * an end-to-end run of ls_action over a synthetic image tree with the real
    safe-name / export-name routines, for many paths (found and not found),
    comparing stdout.
Exit 0 when all agree, else 1.
"""
import contextlib
from dataclasses import dataclass
import io
import random
import sys
from typing import List

from smpl_extract.actions import ls_action
from smpl_extract.base import ElementTypes
from smpl_extract.elements import LeafElement
from smpl_extract.structural import Image
from smpl_extract.structural import Traversable


# ---- ORIGINAL implementation (verbatim) -----------------------------------
def orig_children(self):
    if self._children is None:
        context_additions = {
            "_elem_parent": self,
            "_elem_routines": self._routines
        }
        children = self._f_realize_children(context_additions)
        for routine in self._routines.values():
            children = routine(children)  # type: ignore
        self._children = children
    return self._children  # type: ignore


class NewDir(Traversable):
    name = "dir"
    type_name = "Dir"


class OrigDir(Traversable):
    name = "dir"
    type_name = "Dir"
    children = property(orig_children)


# ---- scripted scenarios ---------------------------------------------------
class Boom(Exception):
    pass


class Falsy(list):
    def __bool__(self):
        return False


def freeze(value, node):
    """Turn a value into something comparable across the two worlds."""
    if value is node:
        return "<self>"
    if isinstance(value, dict):
        return ("dict", tuple((k, freeze(v, node)) for k, v in value.items()))
    if isinstance(value, (list, tuple)):
        return (type(value).__name__, tuple(freeze(v, node) for v in value))
    if callable(value):
        return ("callable", getattr(value, "tag", repr(type(value))))
    return value


def run_scenario(cls, script):
    """Interpret `script` against a fresh node of class `cls`; return log."""
    log: List[tuple] = []
    state = {"realize_calls": 0}

    def make_routine(tag, behaviour):
        def routine(items):
            log.append(("routine", tag, freeze(items, node)))
            kind = behaviour[0]
            if kind == "append":
                return list(items) + [tag]
            if kind == "same":
                return items
            if kind == "none":
                return None
            if kind == "falsy":
                return Falsy(items or [])
            if kind == "raise":
                raise Boom(tag)
            if kind == "raise_once":
                if not state.get(("raised", tag)):
                    state[("raised", tag)] = True
                    raise Boom(tag)
                return list(items) + [tag]
            if kind == "none_once":
                if not state.get(("noned", tag)):
                    state[("noned", tag)] = True
                    return None
                return list(items or []) + [tag]
            if kind == "set_routines":
                node.set_routines(make_table(behaviour[1]))
                return list(items) + [tag]
            if kind == "mutate_add":
                try:
                    node._routines["late"] = make_routine("late", ("append",))
                except Exception as exc:  # pragma: no cover
                    log.append(("mutate-exc", type(exc).__name__))
                return list(items) + [tag]
            raise AssertionError(kind)
        routine.tag = tag
        return routine

    def make_table(spec):
        return {tag: make_routine(tag, beh) for tag, beh in spec}

    def realize(ctx):
        state["realize_calls"] += 1
        n = state["realize_calls"]
        log.append((
            "realize", n, type(ctx).__name__, tuple(ctx.keys()),
            ctx["_elem_parent"] is node,
            ctx["_elem_routines"] is node._routines,
            freeze(ctx, node), len(ctx)
        ))
        mode = script["realize"]
        kind = mode[0]
        if kind == "list":
            return [f"c{n}.{i}" for i in range(mode[1])]
        if kind == "tuple":
            return tuple(f"c{n}.{i}" for i in range(mode[1]))
        if kind == "none":
            return None
        if kind == "none_once":
            return None if n == 1 else [f"c{n}"]
        if kind == "falsy":
            return Falsy()
        if kind == "raise":
            raise Boom("realize")
        if kind == "raise_once":
            if n == 1:
                raise Boom("realize")
            return [f"c{n}"]
        if kind == "stop":
            raise StopIteration("realize")
        if kind == "replace_routines":
            node.set_routines(make_table(mode[1]))
            return [f"c{n}"]
        if kind == "mutate_routines":
            node._routines["added"] = make_routine("added", ("append",))
            return [f"c{n}"]
        if kind == "clear_routines":
            node._routines.clear()
            return [f"c{n}"]
        if kind == "keep_ctx":
            state["ctx"] = ctx
            return [f"c{n}"]
        raise AssertionError(kind)

    init_routines = script.get("init_routines", "absent")
    kwargs = {}
    if init_routines != "absent":
        kwargs["routines"] = (
            None if init_routines is None else make_table(init_routines)
        )
    node = cls(realize, **kwargs)

    for step in script["steps"]:
        op = step[0]
        try:
            if op == "get":
                value = node.children
                log.append((
                    "got", freeze(value, node), type(value).__name__,
                    value is node._children
                ))
                last = state.get("last")
                log.append(("same-as-last", last is not None and value is last))
                state["last"] = value
            elif op == "set_routines":
                node.set_routines(make_table(step[1]))
                log.append(("set_routines",))
            elif op == "reset":
                node._children = None
                log.append(("reset",))
            elif op == "poke":
                node._children = step[1]
                log.append(("poke",))
            else:
                raise AssertionError(op)
        except BaseException as exc:  # noqa: B902 - we compare everything
            log.append(("exc", type(exc).__name__, str(exc)))
        log.append((
            "state", freeze(node._children, node),
            tuple(node._routines.keys()), state["realize_calls"]
        ))
    if "ctx" in state:
        log.append(("kept-ctx", freeze(state["ctx"], node)))
    return log


ROUTINE_SPECS = [
    (),
    (("r1", ("append",)),),
    (("r1", ("append",)), ("r2", ("append",)), ("r3", ("append",))),
    (("r1", ("same",)), ("r2", ("append",))),
    (("r1", ("none",)),),
    (("r1", ("append",)), ("r2", ("none",))),
    (("r1", ("none",)), ("r2", ("falsy",))),
    (("r1", ("none_once",)), ("r2", ("same",))),
    (("r1", ("falsy",)),),
    (("r1", ("raise",)), ("r2", ("append",))),
    (("r1", ("append",)), ("r2", ("raise",)), ("r3", ("append",))),
    (("r1", ("raise_once",)), ("r2", ("append",))),
    (("r1", ("append",)), ("r2", ("raise_once",))),
    (("r1", ("set_routines", (("n1", ("append",)),))), ("r2", ("append",))),
    (("r1", ("mutate_add",)), ("r2", ("append",))),
]

REALIZE_MODES = [
    ("list", 0), ("list", 1), ("list", 3), ("tuple", 2), ("none",),
    ("none_once",), ("falsy",), ("raise",), ("raise_once",), ("stop",),
    ("replace_routines", (("x1", ("append",)), ("x2", ("append",)))),
    ("replace_routines", ()),
    ("mutate_routines",), ("clear_routines",), ("keep_ctx",),
]

STEP_PLANS = [
    [("get",)],
    [("get",), ("get",)],
    [("get",), ("get",), ("get",)],
    [("get",), ("reset",), ("get",)],
    [("set_routines", (("s1", ("append",)), ("s2", ("append",)))), ("get",),
     ("get",)],
    [("get",), ("set_routines", (("s1", ("append",)),)), ("get",),
     ("reset",), ("get",)],
    [("poke", []), ("get",)],
    [("poke", ()), ("get",), ("get",)],
    [("poke", 0), ("get",)],
    [("poke", "abc"), ("get",), ("reset",), ("get",)],
    [("set_routines", ()), ("get",), ("get",)],
]


def scripted():
    for init in ["absent", None] + ROUTINE_SPECS:
        for mode in REALIZE_MODES:
            for plan in STEP_PLANS:
                script = {"realize": mode, "steps": plan}
                if init != "absent":
                    script["init_routines"] = init
                yield script


def randomised(rng, count):
    for _ in range(count):
        script = {
            "realize": rng.choice(REALIZE_MODES),
            "steps": [],
        }
        pick = rng.random()
        if pick < 0.7:
            script["init_routines"] = rng.choice(ROUTINE_SPECS)
        elif pick < 0.8:
            script["init_routines"] = None
        for _ in range(rng.randint(1, 7)):
            r = rng.random()
            if r < 0.6:
                script["steps"].append(("get",))
            elif r < 0.75:
                script["steps"].append(
                    ("set_routines", rng.choice(ROUTINE_SPECS))
                )
            elif r < 0.9:
                script["steps"].append(("reset",))
            else:
                script["steps"].append(
                    ("poke", rng.choice([[], (), 0, "", "zz", ["kept"]]))
                )
        yield script


# ---- end to end -----------------------------------------------------------
@dataclass
class Leaf(LeafElement):
    type_id = ElementTypes.SampleEntry
    name: str = ""
    type_name: str = "Sample"
    value: int = 0


TREE = (
    ("A", (
        ("VOLUME 001", (
            "STRINGS -L", "STRINGS -R", "strings -l", "", "  PADDED  ",
            "A:B", "TRAIL:", "DUP", "DUP", "DUP (2)", "DUP", "a'b\"c`",
            "sl/ash", "back\\slash", "\u00e4\u00f6\u00fc", "::", "x" * 40,
        )),
        ("EMPTY", ()),
        ("", ("INSIDE BLANK",)),
        ("EMPTY", ()),
        "TOP LEAF",
    )),
    ("B:", ("x", "X", "x ")),
    ("b", ("lower",)),
    "ROOT LEAF",
)


def build(dir_cls, spec, ctx):
    out = []
    for entry in spec:
        if isinstance(entry, str):
            out.append(Leaf(name=entry))
        else:
            node = dir_cls(
                (lambda sub: (lambda c: build(dir_cls, sub, c)))(entry[1]),
                routines=ctx["_elem_routines"],
                parent=ctx["_elem_parent"],
                type_name="Volume",
            )
            node.name = entry[0]
            out.append(node)
    return out


class NewTreeDir(Traversable):
    pass


class OrigTreeDir(Traversable):
    children = property(orig_children)


class NewTreeImage(Image):
    name = "Fake Image"
    type_name = "Fake Image"

    def __init__(self):
        Traversable.__init__(self, lambda c: build(NewTreeDir, TREE, c))


class OrigTreeImage(Image):
    name = "Fake Image"
    type_name = "Fake Image"
    children = property(orig_children)

    def __init__(self):
        Traversable.__init__(self, lambda c: build(OrigTreeDir, TREE, c))


def tree_paths():
    paths = [
        "", " ", "/", "\\", "//", "A", "a", "A/", " A / ", "A:", "B:", "B",
        "b", "A/VOLUME 001", "A\\VOLUME 001\\", "A/VOLUME 001/DUP",
        "A/VOLUME 001/DUP (2)", "A/VOLUME 001/DUP (3)", "A/VOLUME 001/DUP (4)",
        "A/VOLUME 001/STRINGS -L", "A/VOLUME 001/strings -l",
        "A/VOLUME 001/PADDED", "A/VOLUME 001/A:B", "A/VOLUME 001/TRAIL",
        "A/VOLUME 001/TRAIL:", "A/VOLUME 001/abc", "A/VOLUME 001/sl ash",
        "A/VOLUME 001/back slash", "A/VOLUME 001/\u00e4\u00f6\u00fc",
        "A/VOLUME 001/" + "x" * 40, "A/EMPTY", "A/EMPTY (2)", "A//INSIDE BLANK",
        "A/TOP LEAF", "A/TOP LEAF/deeper", "ROOT LEAF", "ROOT LEAF/x",
        "B:/x", "B:/X", "B:/x (2)", "B:/X (2)", "b/lower", "nope", "A/nope",
        "A/VOLUME 001/nope/again", "\u2603", "A\\\\VOLUME 001",
    ]
    return paths


def capture(image_cls, path):
    image = image_cls()
    buf = io.StringIO()
    try:
        with contextlib.redirect_stdout(buf):
            ls_action(image, path)
        outcome = ("ok",)
    except BaseException as exc:  # noqa: B902
        outcome = ("exc", type(exc).__name__, str(exc))
    return outcome, buf.getvalue()


def main():
    failures = 0
    checked = 0

    scripts = list(scripted())
    scripts.extend(randomised(random.Random(910), 4000))
    for script in scripts:
        expected = run_scenario(OrigDir, script)
        actual = run_scenario(NewDir, script)
        checked += 1
        if expected != actual:
            failures += 1
            if failures <= 5:
                print("MISMATCH for script", script)
                for a, b in zip(expected, actual):
                    if a != b:
                        print("  expected", a)
                        print("  actual  ", b)
                        break
                else:
                    print("  log lengths", len(expected), len(actual))

    for path in tree_paths():
        expected = capture(OrigTreeImage, path)
        actual = capture(NewTreeImage, path)
        checked += 1
        if expected != actual:
            failures += 1
            if failures <= 5:
                print("MISMATCH for path", repr(path))
                print("  expected", expected)
                print("  actual  ", actual)

    # the same image object asked twice (cache reuse across ls calls)
    orig_img, new_img = OrigTreeImage(), NewTreeImage()
    for path in tree_paths() * 2:
        outs = []
        for image in (orig_img, new_img):
            buf = io.StringIO()
            with contextlib.redirect_stdout(buf):
                ls_action(image, path)
            outs.append(buf.getvalue())
        checked += 1
        if outs[0] != outs[1]:
            failures += 1
            if failures <= 5:
                print("MISMATCH (shared image) for path", repr(path))

    print(f"checked {checked} cases, {failures} mismatches")
    return 1 if failures else 0


if __name__ == "__main__":
    sys.exit(main())
