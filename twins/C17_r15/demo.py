"""Equivalence demo for the refactoring of the FILE scan of
smpl_extract/cuesheet.py parse_cue_sheet (property C17, mechanism "FILE
scan"): the `cue_sheet_files = []` / `.append(...)` accumulator loop became
the private generator _iter_cue_sheet_files(lines) (same loop, `yield` where
the append was) which parse_cue_sheet drains completely with list(...) before
the unchanged "No FILE entry" guard and the choice of the first entry.

The live module is compared with an inline copy of the ORIGINAL cuesheet.py
(executed into a private module object):
  * parse_cue_sheet (and, for completeness, get_nonempty_entry and the two
    adapters) give the same result (dataclasses compared field by field), the
    same exception (type, args, cause/context types) and leave the caller's
    list in the same state, for canonical cue sheets under all the cosmetic
    transformations of the property (keyword case, leading / trailing blanks,
    blank lines, unknown lines at every position), for texts with zero, one
    and several FILE entries (later entries well formed or broken - a broken
    later entry must still raise), for random line soups and for arguments
    that are not lists of str;
  * a recording list subclass shows that the caller's list sees the same
    sequence of len() / pop() / concatenation operations;
  * the line regexes (wherever the module keeps them) are unchanged.
Exit status 0 when everything agrees, 1 otherwise.
"""
import dataclasses
import itertools
import random
import sys
import types

import smpl_extract.cuesheet as live


ORIGINAL_SRC = r'''
from dataclasses import dataclass
from dataclasses import field
import re
from typing import List
from typing import Optional
from typing import Protocol
from typing import Tuple
from typing import TypeVar


class BadCueSheet(Exception): pass


def get_nonempty_entry(lines: List[str]) -> Tuple[str, List[str]]:
    text = ""
    while len(lines):
        text = lines.pop(0).strip()
        if len(text):
            break
    return text, lines


T = TypeVar("T", covariant=True)
class CueItemAdapter(Protocol[T]):
    def parse(self, lines: List[str]) -> T: ...


_AUDIO_FRAMES_PER_SECOND = 75
@dataclass
class CueSheetIndex:
    number: int = 0
    n_minutes: int = 0
    n_seconds: int = 0
    n_frames: int = 0

    def get_total_audio_frames(self) -> int:
        total_seconds = 60*self.n_minutes + self.n_seconds
        total_frames = _AUDIO_FRAMES_PER_SECOND*total_seconds + \
            self.n_frames
        return total_frames


@dataclass
class CueSheetTrack:
    number: int = 0
    mode: str = ""
    title: Optional[str] = None
    indices: List[CueSheetIndex] = field(default_factory=list)
    unparsed: List = field(default_factory=list)


_TRACK_LINE_REGEX = re.compile(r"\s*TRACK\s+(\d+)\s+([A-z\d\/]+)", flags=re.I)
_TITLE_LINE_REGEX = re.compile(r"\s*TITLE\s+\"(.*?)\"", flags=re.I)
_INDEX_LINE_REGEX = re.compile(r"\s*INDEX\s+(\d+)\s+(\d+):(\d+):(\d+)", flags=re.I)
class CueSheetTrackAdapter:
    @classmethod
    def parse(cls, lines: List[str]):
        text, lines = get_nonempty_entry(lines)
        if len(text) <= 0:
            raise BadCueSheet
        result = _TRACK_LINE_REGEX.match(text)
        if not result:
            raise BadCueSheet
        track_number = int(result.groups()[0])
        track_mode = result.groups()[1]
        track = CueSheetTrack(
            track_number,
            track_mode
        )

        while len(lines):
            text, lines = get_nonempty_entry(lines)
            if len(text) <= 0:
                break

            # Check if next track began
            result = _TRACK_LINE_REGEX.match(text)
            if result:
                lines = [text] + lines
                break

            # check known properties
            result = _INDEX_LINE_REGEX.match(text)
            if result:
                index_number = int(result.groups()[0])
                n_minutes = int(result.groups()[1])
                n_seconds = int(result.groups()[2])
                n_frames = int(result.groups()[3])
                index = CueSheetIndex(
                    index_number,
                    n_minutes,
                    n_seconds,
                    n_frames
                )
                track.indices.append(index)
                continue

            result = _TITLE_LINE_REGEX.match(text)
            if result:
                title = result.groups()[0]
                track.title = title
                continue

            track.unparsed.append(text)

        return track, lines


@dataclass
class CueSheetFile:
    bin_file_name: str
    tracks: List[CueSheetTrack] = field(default_factory=list)


_FILE_LINE_REGEX = re.compile(r"\s*FILE\s+\"(.*?)\"\s+BINARY", flags=re.I)
class CueSheetFileAdapter:


    @classmethod
    def parse(cls, lines: List[str]):
        text, lines = get_nonempty_entry(lines)
        if len(text) <= 0:
            raise BadCueSheet
        result = _FILE_LINE_REGEX.match(text)
        if not result:
            raise BadCueSheet

        bin_file_name = result.groups()[0]
        cue_sheet = CueSheetFile(bin_file_name)
        while len(lines):
            text, lines = get_nonempty_entry(lines)
            if len(text) <= 0:
                break
            lines = [text] + lines
            track, lines = CueSheetTrackAdapter.parse(lines)
            if track:
                cue_sheet.tracks.append(track)

        return cue_sheet, lines


def parse_cue_sheet(lines: List[str]) -> CueSheetFile:
    cue_sheet_files = []
    while len(lines):
        text, lines = get_nonempty_entry(lines)
        match_result = _FILE_LINE_REGEX.match(text)
        if match_result:
            lines = [text] + lines
            cue_sheet_file, lines = CueSheetFileAdapter.parse(lines)
            cue_sheet_files.append(cue_sheet_file)

    if len(cue_sheet_files) <= 0:
        raise BadCueSheet("No FILE entry")

    result = cue_sheet_files[0]
    return result
'''

orig = types.ModuleType("original_cuesheet")
sys.modules["original_cuesheet"] = orig     # dataclasses look the module up
exec(compile(ORIGINAL_SRC, "<original cuesheet.py>", "exec"), orig.__dict__)

failures = []
n_checks = 0


def check(what, a, b):
    global n_checks
    n_checks += 1
    if a != b:
        failures.append(what)
        if len(failures) <= 20:
            print("MISMATCH", what, "\n   original:", repr(a)[:300],
                  "\n   live:    ", repr(b)[:300])


def plain(value):
    """Module-independent picture of a result."""
    if dataclasses.is_dataclass(value) and not isinstance(value, type):
        return (type(value).__name__,
                [(f.name, plain(getattr(value, f.name)))
                 for f in dataclasses.fields(value)])
    if isinstance(value, tuple):
        return ("tuple", [plain(v) for v in value])
    if isinstance(value, list):
        return ("list", [plain(v) for v in value])
    return (type(value).__name__, value)


def outcome(func, lines):
    """Run func on a private copy of lines; report result or exception and
    what happened to the caller's list (content, and whether the returned
    remaining-lines object is the caller's list itself)."""
    mine = list(lines)
    try:
        result = func(mine)
    except Exception as e:      # noqa
        return ("raise", type(e).__name__, e.args,
                type(e.__cause__).__name__, type(e.__context__).__name__,
                mine)
    same_object = None
    if isinstance(result, tuple) and len(result) == 2:
        same_object = result[1] is mine
    return ("return", plain(result), same_object, mine)


# ---- 1. the regexes themselves --------------------------------------------
def find_regex(module, name):
    if hasattr(module, name):
        return getattr(module, name)
    for cls_name in ("CueSheetTrackAdapter", "CueSheetFileAdapter"):
        cls = getattr(module, cls_name)
        if hasattr(cls, name):
            return getattr(cls, name)
    raise AttributeError(name)


REGEX_NAMES = ("_TRACK_LINE_REGEX", "_TITLE_LINE_REGEX", "_INDEX_LINE_REGEX",
               "_FILE_LINE_REGEX")


def case_variants(word):
    yield word
    yield word.lower()
    yield word.capitalize()
    yield word.swapcase()
    yield "".join(c.lower() if i % 2 else c.upper() for i, c in enumerate(word))


def line_corpus():
    rng = random.Random(1713)
    corpus = ["", " ", "\t", "\n", "FILE", "TRACK", "INDEX", "TITLE",
              "FILE \"a.bin\" BINARY", "FILE \"a.bin\" WAVE", "FILE a.bin BINARY",
              "FILE \"\" BINARY", "FILE \"a \"b\" c.bin\" BINARY x",
              "FILE\"a.bin\"BINARY", "FILE\t\"a.bin\"\tBINARY",
              "XFILE \"a.bin\" BINARY", "REM FILE \"a.bin\" BINARY",
              "TRACK 01 AUDIO", "TRACK 1 MODE1/2352", "TRACK 99 MODE2/2336 x",
              "TRACK 01", "TRACK AUDIO", "TRACK 01AUDIO", "TRACK 01 [\\]^_`",
              "TRACK 01 !", "TRACK ١ AUDIO", "TRACK 01 É",
              "TRACK 01 ſK", "TRACK 01 AUDIO", "TİTLE \"x\"",
              "ſILE \"a\" BINARY", "FıLE \"a\" BINARY",
              "INDEX 01 00:00:00", "INDEX 1 1:2:3", "INDEX 01 00:02:00 junk",
              "INDEX 01 00:00", "INDEX 01 00-00-00", "INDEX 01  99:59:74",
              "INDEX 01 00 : 00 : 00", "INDEX -1 00:00:00",
              "TITLE \"x\"", "TITLE \"\"", "TITLE \"a\" \"b\"", "TITLE x",
              "TITLE \"unterminated", "TITLE 'x'", "TITLE   \"  spaced  \"",
              "PERFORMER \"p\"", "FLAGS DCP", "PREGAP 00:02:00", "REM x",
              "CATALOG 0000000000000", "ISRC ABCDE1234567"]
    extra = []
    for line in corpus:
        words = line.split(" ")
        if words and words[0].isalpha():
            for v in case_variants(words[0]):
                extra.append(" ".join([v] + words[1:]))
        for pre, post in (("  ", ""), ("\t", " "), ("", "\r\n"), (" \t ", "\n"),
                          ("\x0b", "\x0c"), ("\xa0", "\xa0")):
            extra.append(pre + line + post)
    corpus += extra
    alphabet = "FILETRACKINDEXTITLEfiletrackindextitle \t\"0123456789:/AUDIObinary"
    for _ in range(3000):
        n = rng.randint(0, 30)
        corpus.append("".join(rng.choice(alphabet) for _ in range(n)))
    return corpus


CORPUS = line_corpus()
for name in REGEX_NAMES:
    a, b = find_regex(orig, name), find_regex(live, name)
    check(name + ".pattern", a.pattern, b.pattern)
    check(name + ".flags", a.flags, b.flags)
    check(name + ".groups", a.groups, b.groups)
    for line in CORPUS:
        for candidate in (line, line.strip()):
            ma, mb = a.match(candidate), b.match(candidate)
            check("%s.match(%r)" % (name, candidate),
                  ma and (ma.span(), ma.groups()),
                  mb and (mb.span(), mb.groups()))


# ---- 2. the parsers --------------------------------------------------------
FUNCS = (
    ("get_nonempty_entry", lambda m: m.get_nonempty_entry),
    ("CueSheetTrackAdapter.parse", lambda m: m.CueSheetTrackAdapter.parse),
    ("CueSheetFileAdapter.parse", lambda m: m.CueSheetFileAdapter.parse),
    ("parse_cue_sheet", lambda m: m.parse_cue_sheet),
)


def compare_all(label, lines):
    for fname, getter in FUNCS:
        check("%s %s %r" % (fname, label, lines),
              outcome(getter(orig), lines), outcome(getter(live), lines))


def canonical(n_tracks, mode_of=lambda i: "AUDIO", eol="\n"):
    lines = ["FILE \"disc%d.bin\" BINARY" % n_tracks + eol]
    for i in range(1, n_tracks + 1):
        lines.append("  TRACK %02d %s%s" % (i, mode_of(i), eol))
        lines.append("    TITLE \"Song %d\"%s" % (i, eol))
        if i % 2 == 0:
            lines.append("    INDEX 00 %02d:%02d:%02d%s" % (i, 2*i, 3*i, eol))
        lines.append("    INDEX 01 %02d:%02d:%02d%s" % (i, 2*i + 2, 3*i, eol))
    return lines


def recase(line, how):
    stripped = line.lstrip()
    lead = line[:len(line) - len(stripped)]
    parts = stripped.split(" ", 1)
    parts[0] = how(parts[0])
    out = lead + " ".join(parts)
    if out.rstrip().endswith("BINARY"):
        body = out.rstrip()
        out = body[:-6] + how("BINARY") + out[len(body):]
    return out


CASE_HOWS = (str.upper, str.lower, str.capitalize, str.swapcase)
UNKNOWN = ("REM comment\n", "PERFORMER \"Someone\"\n", "FLAGS DCP\n",
           "PREGAP 00:02:00\n", "\n", "   \t \n", "CATALOG 1234567890123\n",
           "REM FILE \"x.bin\" BINARY\n", "REM TRACK 01 AUDIO\n",
           "title without quotes\n", "INDEX 01 00:00\n",
           "REM TITLE \"hidden\"\n", "REM INDEX 09 09:09:09\n",
           "xTRACK 09 AUDIO\n")

sheets = []
for n in (1, 2, 3, 5):
    sheets.append(canonical(n))
    sheets.append(canonical(n, lambda i: "MODE1/2352" if i == 1 else "AUDIO"))
    sheets.append(canonical(n, eol="\r\n"))
    sheets.append(canonical(n, eol=""))

for sheet in sheets:
    compare_all("canonical", sheet)
    for how in CASE_HOWS:
        compare_all("recased", [recase(l, how) for l in sheet])
    for pre, post in (("", ""), ("   ", "  \n"), ("\t", "\t\r\n")):
        compare_all("spaced", [pre + l.strip() + post for l in sheet])
    for pos in range(len(sheet) + 1):
        for extra in UNKNOWN:
            compare_all("inserted", sheet[:pos] + [extra] + sheet[pos:])
        # truncation and removal
        compare_all("truncated", sheet[:pos])
        compare_all("suffix", sheet[pos:])
        if pos < len(sheet):
            compare_all("removed", sheet[:pos] + sheet[pos+1:])

# several FILE entries, FILE after junk, nothing at all
two = canonical(2) + canonical(3, lambda i: "MODE2/2336")
compare_all("two files", two)
compare_all("two files, second broken", canonical(2) + ["FILE \"b.bin\" BINARY\n", "REM no track\n"])
compare_all("file then junk", ["FILE \"b.bin\" BINARY\n", "REM no track\n"])
compare_all("file only", ["FILE \"b.bin\" BINARY\n"])
compare_all("file wave", ["FILE \"b.wav\" WAVE\n", "TRACK 01 AUDIO\n"])
compare_all("empty", [])
compare_all("blank", ["\n", "  \n", "\t"])
compare_all("no file", ["TRACK 01 AUDIO\n", "INDEX 01 00:00:00\n"])

# ---- FILE scan specifics ---------------------------------------------------
def file_block(name, n_tracks, broken=False, keyword="FILE"):
    block = ["%s \"%s\" BINARY\n" % (keyword, name)]
    if broken:
        block.append("REM a FILE entry whose first line is not a TRACK\n")
    for i in range(1, n_tracks + 1):
        block += ["  TRACK %02d AUDIO\n" % i, "    INDEX 01 00:%02d:00\n" % i]
    return block


JUNK = (["REM leading\n"], ["\n", "   \n"], ["CATALOG 123\n", "PERFORMER \"p\"\n"],
        ["TRACK 77 AUDIO\n"], ["INDEX 01 00:00:00\n"], [])
for junk_before in JUNK:
    for junk_between in JUNK:
        for spec in itertools.product(((0, False), (1, False), (2, False),
                                       (1, True), (0, True)), repeat=2):
            (n1, b1), (n2, b2) = spec
            for kw in ("FILE", "file", "  File"):
                text = (junk_before + file_block("one.bin", n1, b1, kw)
                        + junk_between + file_block("two.bin", n2, b2, kw))
                compare_all("multi", text)
                compare_all("multi+tail", text + junk_between)
for n_files in (3, 4, 6):
    text = []
    for k in range(n_files):
        text += file_block("f%d.bin" % k, k % 3)
    compare_all("many files", text)
    compare_all("many files, last broken", text + file_block("z.bin", 1, True))

# arguments that are not lists of str
for weird in (None, (), ("FILE \"a.bin\" BINARY\n",), "FILE \"a.bin\" BINARY", 0,
              iter([]), {}, {"FILE \"a.bin\" BINARY": 1}):
    for fname, getter in FUNCS:
        def run(func, arg=weird):
            try:
                return ("return", plain(func(arg)))
            except Exception as e:      # noqa
                return ("raise", type(e).__name__, e.args)
        if hasattr(weird, "__next__"):
            check("%s weird iterator" % fname, run(getter(orig), iter([])),
                  run(getter(live), iter([])))
        else:
            check("%s weird %r" % (fname, weird), run(getter(orig)), run(getter(live)))
for bad_items in ([b"FILE \"a.bin\" BINARY\n"], [1, 2], [None],
                  ["REM x\n", b"bytes\n"], ["FILE \"a.bin\" BINARY\n", 5],
                  ["FILE \"a.bin\" BINARY\n", "TRACK 1 AUDIO\n", None]):
    compare_all("bad items", bad_items)


class RecordingList(list):
    """list that logs the operations the scan performs on the caller's list"""
    log = None

    def __len__(self):
        self.log.append(("len", list.__len__(self)))
        return list.__len__(self)

    def pop(self, *args):
        value = list.pop(self, *args)
        self.log.append(("pop", args, value))
        return value

    def __radd__(self, other):
        self.log.append(("radd", list(other)))
        return list(other) + list(self)

    def __add__(self, other):
        self.log.append(("add", list(other)))
        return list.__add__(self, other)


def recorded(func, lines):
    mine = RecordingList(lines)
    mine.log = []
    try:
        result = ("return", plain(func(mine)))
    except Exception as e:      # noqa
        result = ("raise", type(e).__name__, e.args)
    return result, mine.log, list.__len__(mine), list(mine)


recording_inputs = [canonical(1), canonical(3), two, [], ["\n"], ["REM x\n"] * 3,
                    ["REM x\n", "\n"] + canonical(2) + ["REM tail\n"],
                    canonical(1) + file_block("b.bin", 1, True)]
rng = random.Random(1715)
pool15 = ["FILE \"r.bin\" BINARY\n", "TRACK 01 AUDIO\n", "INDEX 01 00:00:00\n",
          "\n", "REM x\n", "TITLE \"t\"\n"]
for _ in range(1500):
    recording_inputs.append([rng.choice(pool15) for _ in range(rng.randint(0, 9))])
for lines in recording_inputs:
    for fname, getter in FUNCS:
        check("recorded %s %r" % (fname, lines),
              recorded(getter(orig), lines), recorded(getter(live), lines))


# random line soups
rng = random.Random(17)
pool = ["FILE \"r.bin\" BINARY\n", "file \"s.bin\" binary\n", "TRACK 01 AUDIO\n",
        "track 2 mode1/2352\n", "  Track 03 Audio  \n", "INDEX 01 00:00:00\n",
        "index 0 1:2:3\n", "TITLE \"t\"\n", "title \"\"\n", "\n", "  \n",
        "REM x\n", "PERFORMER \"p\"\n", "FLAGS DCP\n", "TRACK\n", "FILE\n",
        "INDEX 01 0:0\n", "TRACK 04 AUDIO extra\n", "REM TITLE \"h\"\n",
        "REM INDEX 9 9:9:9\n", "REM TRACK 9 AUDIO\n"]
for _ in range(4000):
    soup = [rng.choice(pool) for _ in range(rng.randint(0, 12))]
    compare_all("soup", soup)
for soup in itertools.product(pool[:8], repeat=3):
    compare_all("product", list(soup))

print("%d checks, %d mismatches" % (n_checks, len(failures)))
sys.exit(1 if failures else 0)
