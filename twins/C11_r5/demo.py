"""Equivalence demo for SubStreamConstruct._parse (smpl_extract/util/stream.py).

Compares the live SubStreamConstruct with an inline copy of the ORIGINAL
implementation: returned object type/attributes, evaluation order of the
argument expressions, exceptions, and the bytes / underlying I/O trace of the
windows created over a shared handle.  Exit 0 when everything agrees.
"""
import io
import itertools
import random
import sys

from construct.core import Construct, Struct, Int8ul, Bytes
from construct.lib.containers import Container

from smpl_extract.util.stream import StreamOffset
from smpl_extract.util.stream import StreamWrapper
from smpl_extract.util.stream import StreamReversed
from smpl_extract.util.stream import SubStreamConstruct as LiveSub


class OrigSub(Construct):
    """Verbatim copy of the original SubStreamConstruct."""

    def __init__(self, substream_class, *args, **kwargs):
        super().__init__()
        self.substream_class = substream_class
        self.args = args
        self.kwargs = kwargs
        self.flagbuildnone = True

    def _eval_callable(self, x, context_inner):
            result = x(context_inner) if callable(x) else x
            return result

    def _parse(self, stream, context, path):
        del path  # Unused

        if callable(self.substream_class):
            args_eval = [self._eval_callable(arg, context) for arg in self.args]
            kwargs_eval = {key : self._eval_callable(value, context) for key, value in self.kwargs.items()}
            result = self.substream_class(stream, *args_eval, **kwargs_eval)
        else:
            result = self.substream_class
        return result

    def _build(self, obj, stream, context, path):
        del obj  # Unused
        result = self._parse(stream, context, path)
        return result

    def _sizeof(self, context, path):
        return 0


class TraceIO(io.BytesIO):
    def __init__(self, data):
        super().__init__(data)
        self.trace = []

    def seek(self, off, whence=0):
        r = super().seek(off, whence)
        self.trace.append(("seek", off, whence, r))
        return r

    def read(self, n=-1):
        r = super().read(n)
        self.trace.append(("read", n, r))
        return r

    def tell(self):
        r = super().tell()
        self.trace.append(("tell", r))
        return r


class Boom(Exception):
    pass


FAILS = []


def check(label, a, b):
    if a != b:
        FAILS.append(label)
        print("MISMATCH", label, a, b)


def run(cls, scenario):
    """Run one scenario against one implementation, return a comparable record."""
    return scenario(cls)


def describe(obj):
    if isinstance(obj, StreamWrapper):
        d = dict(obj.__dict__)
        d.pop("substream", None)
        return (type(obj).__name__, sorted(d.items()))
    return ("other", repr(obj))


_RND = random.Random(11)
DATA = bytes(_RND.randrange(256) for _ in range(4096))


def scen_basic(args, kwargs, ctxvals):
    def scenario(cls):
        log = []

        def wrap(name, v):
            if callable(v):
                def f(ctx):
                    log.append(("eval", name, ctx is context))
                    return v(ctx)
                return f
            return v

        context = Container(**ctxvals)
        a = [wrap("a%d" % i, v) for i, v in enumerate(args)]
        k = {key: wrap("k" + key, v) for key, v in kwargs.items()}
        handle = TraceIO(DATA)
        con = cls(StreamOffset, *a, **k)
        try:
            res = con._parse(handle, context, "p")
            out = describe(res)
            same_handle = res.substream is handle
            data = (res.read(7), res.read(0), res.seek(3, 0), res.read(5), res.readall()[:9])
        except Exception as e:  # noqa
            out, same_handle, data = ("exc", type(e).__name__, str(e)), None, None
        return out, same_handle, data, log, handle.trace
    return scenario


def scen_raises(pos):
    """The pos-th evaluated expression raises; later ones must not run."""
    def scenario(cls):
        log = []

        def mk(i):
            def f(ctx):
                log.append(i)
                if i == pos:
                    raise Boom(str(i))
                return 10 + i
            return f

        con = cls(StreamOffset, mk(0), mk(1), position=mk(2), buffer_length=mk(3))
        try:
            r = describe(con._parse(io.BytesIO(DATA), Container(), "p"))
        except Boom as e:
            r = ("boom", str(e))
        return r, log
    return scenario


def scen_noncallable(cls):
    sentinel = io.BytesIO(b"abc")
    log = []

    def f(ctx):
        log.append("called")
        return 1

    con = cls(sentinel, f, size=f)
    r1 = con._parse(io.BytesIO(b"zzz"), Container(), "p")
    r2 = con._build(None, io.BytesIO(b"zzz"), Container(), "p")
    return r1 is sentinel, r2 is sentinel, log, con._sizeof(Container(), "p"), con.flagbuildnone


def scen_factory(cls):
    """substream_class may be any callable, e.g. a function."""
    seen = []

    def factory(stream, *a, **k):
        seen.append((a, sorted(k.items())))
        return ("made", a, sorted(k.items()))

    con = cls(factory, 1, lambda c: c.n * 2, z=lambda c: c.n + 1, a=5)
    r = con._parse(io.BytesIO(), Container(n=21), "p")
    r2 = con._build("ignored", io.BytesIO(), Container(n=4), "p")
    return r, r2, seen


def scen_struct(cls):
    """Use through the public construct API, nested in a Struct."""
    st = Struct(
        "n" / Int8ul,
        "win" / cls(StreamOffset, size=lambda this: this.n, offset=lambda this: 4),
        "rest" / Bytes(3),
    )
    handle = TraceIO(bytes([9]) + DATA[:64])
    c = st.parse_stream(handle)
    got = (c.n, c.rest, describe(c.win), c.win.read(100), c.win.read(1))
    return got, handle.trace, st.sizeof()


def scen_shared(seed):
    """Several windows over one handle, interleaved reads/seeks."""
    def scenario(cls):
        rnd = random.Random(seed)
        handle = TraceIO(DATA)
        wins = []
        for _ in range(3):
            off = rnd.randrange(0, 2000)
            size = rnd.randrange(0, 1500)
            kind = rnd.choice([StreamOffset, StreamOffset, StreamWrapper])
            if kind is StreamOffset:
                con = cls(kind, lambda c, s=size: s, offset=off, buffer_length=lambda c: 64)
            else:
                con = cls(kind, size=lambda c, s=size: s)
            wins.append(con._parse(handle, Container(), "p"))
        # one nested window
        wins.append(cls(StreamOffset, 100, 20)._parse(wins[0], Container(), "p"))
        out = []
        for _ in range(60):
            w = rnd.randrange(len(wins))
            op = rnd.random()
            if op < 0.7:
                out.append((w, wins[w].read(rnd.choice([0, 1, 3, 17, 64, 500]))))
            else:
                out.append((w, wins[w].seek(rnd.randrange(-10, 1600), rnd.choice([0, 1, 2]))))
        return out, handle.trace
    return scenario


def main():
    scenarios = []
    consts = [0, 1, 5, 100, 4096, 5000]
    for size, off, pos in itertools.product(consts, consts, [0, 3, 200]):
        scenarios.append(("pos-args", scen_basic((size, off), {"position": pos}, {"q": 1})))
        scenarios.append(("callables", scen_basic(
            (lambda c, s=size: s + c.q - 1,),
            {"offset": (lambda c, o=off: o), "position": pos, "buffer_length": lambda c: 0x20},
            {"q": 1})))
        scenarios.append(("kw-only", scen_basic((), {"size": size, "offset": lambda c, o=off: o * c.q}, {"q": 1})))
    # wrong signatures -> TypeError from the stream class, identical in both
    scenarios.append(("too-few", scen_basic((), {}, {})))
    scenarios.append(("dup", scen_basic((1, 2), {"size": 3}, {})))
    scenarios.append(("unknown-kw", scen_basic((1, 2), {"nope": lambda c: 3}, {})))
    scenarios.append(("ctx-missing", scen_basic((lambda c: c.missing, 2), {}, {})))
    for pos in range(5):
        scenarios.append(("raises%d" % pos, scen_raises(pos)))
    scenarios.append(("noncallable", scen_noncallable))
    scenarios.append(("factory", scen_factory))
    scenarios.append(("struct", scen_struct))
    for seed in range(150):
        scenarios.append(("shared%d" % seed, scen_shared(seed)))

    for label, sc in scenarios:
        check(label, run(OrigSub, sc), run(LiveSub, sc))

    # StreamReversed through the construct as well
    for cls_name in ("rev",):
        def sc(cls):
            h = TraceIO(DATA[:64])
            w = cls(StreamReversed, size=lambda c: 64, sample_width=2)._parse(h, Container(), "p")
            return describe(w), w.read(8), w.read(6), h.trace
        check("reversed", run(OrigSub, sc), run(LiveSub, sc))

    print("scenarios:", len(scenarios) + 1, "failures:", len(FAILS))
    return 1 if FAILS else 0


if __name__ == "__main__":
    sys.exit(main())
