"""r3 demo: loop mode -> data window / loop regions
(smpl_extract/roland/s7xx/sample_file.py: the seven _get_*_params functions
and SampleFile.to_generalized).

Differential test of the live functions against inline copies of the ORIGINAL
implementations for thousands of loop-point tuples (ordered, unordered, points
before the start point so that the clamp at 0 triggers, equal points, windows
that end on the last word) in all seven loop modes plus an unmapped mode.  The
returned stream type/geometry, the bytes read from it and the loop regions are
compared.  Then an end-to-end export of generated S-7xx images is compared
with independently computed PCM.
Exit status 0 = everything agrees, 1 = some disagreement.
"""
import io as _io
import sys
import random as _random
from io import IOBase
from typing import List
from typing import NamedTuple

from smpl_extract.generalized.sample import LoopRegion
from smpl_extract.generalized.sample import LoopType
from smpl_extract.roland.s7xx import sample_file as live
from smpl_extract.roland.s7xx.data_types import RolandLoopMode
from smpl_extract.roland.s7xx.data_types import ROLAND_SAMPLE_WIDTH
from smpl_extract.roland.s7xx.sample_entry import SampleParamLoopPoint
from smpl_extract.util.stream import StreamOffset
from smpl_extract.util.stream import StreamReversed

RolandLoopPoints = live.RolandLoopPoints


class SampleParams(NamedTuple):
    data_stream:    IOBase
    loops:          List[LoopRegion]


# ----- inline copies of the ORIGINAL _get_*_params functions ----------------
def original_get_forward_end_params(
        stream: IOBase, 
        points: RolandLoopPoints
) -> SampleParams:
    offset_sample = points.start
    num_samples = points.sustain_end - offset_sample + 1
    stream_result = StreamOffset(
        stream,
        ROLAND_SAMPLE_WIDTH * num_samples,
        ROLAND_SAMPLE_WIDTH * offset_sample
    )

    sustain_start   = max(0, points.sustain_start - offset_sample)
    sustain_end     = max(0, points.sustain_end - offset_sample)

    sustain_loop = LoopRegion(
        start_sample=sustain_start,
        end_sample=sustain_end,
        repeat_forever=True
    )
    result = SampleParams(
        stream_result,
        loops=[sustain_loop]
    )
    return result


def original_get_forward_release_params(
        stream: IOBase, 
        points: RolandLoopPoints
) -> SampleParams:
    offset_sample = points.start
    num_samples = points.release_end - offset_sample + 1
    stream_result = StreamOffset(
        stream,
        ROLAND_SAMPLE_WIDTH * num_samples,
        ROLAND_SAMPLE_WIDTH * offset_sample
    )

    sustain_start   = max(0, points.sustain_start - offset_sample)
    sustain_end     = max(0, points.sustain_end - offset_sample)
    release_start   = max(0, points.release_start - offset_sample)
    release_end     = max(0, points.release_end - offset_sample)

    sustain_loop = LoopRegion(
        start_sample=sustain_start,
        end_sample=sustain_end,
        repeat_forever=False
    )
    release_loop = LoopRegion(
        start_sample=release_start,
        end_sample=release_end,
        repeat_forever=True
    )

    result = SampleParams(
        stream_result,
        loops=[
            sustain_loop,
            release_loop
        ]
    )
    return result


def original_get_oneshot_params(
        stream: IOBase, 
        points: RolandLoopPoints
) -> SampleParams:
    offset_sample = points.start
    num_samples = points.sustain_end - offset_sample + 1
    stream_result = StreamOffset(
        stream,
        ROLAND_SAMPLE_WIDTH * num_samples,
        ROLAND_SAMPLE_WIDTH * offset_sample
    )

    result = SampleParams(
        stream_result,
        loops=[]
    )
    return result


def original_get_forward_oneshot_params(
        stream: IOBase, 
        points: RolandLoopPoints
) -> SampleParams:
    offset_sample = points.start
    num_samples = points.release_end - offset_sample + 1
    stream_result = StreamOffset(
        stream,
        ROLAND_SAMPLE_WIDTH * num_samples,
        ROLAND_SAMPLE_WIDTH * offset_sample
    )

    sustain_start   = max(0, points.sustain_start - offset_sample)
    sustain_end     = max(0, points.sustain_end - offset_sample)

    sustain_loop = LoopRegion(
        start_sample=sustain_start,
        end_sample=sustain_end,
        repeat_forever=False
    )

    result = SampleParams(
        stream_result,
        loops=[sustain_loop]
    )
    return result


def original_get_alternate_params(
        stream: IOBase, 
        points: RolandLoopPoints
) -> SampleParams:
    offset_sample = points.start
    num_samples = points.sustain_end - offset_sample + 1
    stream_result = StreamOffset(
        stream,
        ROLAND_SAMPLE_WIDTH * num_samples,
        ROLAND_SAMPLE_WIDTH * offset_sample
    )

    sustain_start   = max(0, points.sustain_start - offset_sample)
    sustain_end     = max(0, points.sustain_end - offset_sample)

    sustain_loop = LoopRegion(
        start_sample=sustain_start,
        end_sample=sustain_end,
        repeat_forever=False,
        loop_type=LoopType.ALTERNATING
    )

    result = SampleParams(
        stream_result,
        loops=[sustain_loop]
    )
    return result


def original_get_reverse_oneshot_params(
        stream: IOBase, 
        points: RolandLoopPoints
) -> SampleParams:
    offset_sample = points.start
    num_samples = points.sustain_end - offset_sample + 1
    stream_size = ROLAND_SAMPLE_WIDTH * num_samples

    stream_result = StreamReversed(
        StreamOffset(
            stream,
            stream_size,
            ROLAND_SAMPLE_WIDTH * offset_sample
        ),
        stream_size,
        sample_width=ROLAND_SAMPLE_WIDTH
    )

    result = SampleParams(
        stream_result,
        loops=[]
    )
    return result


def original_get_reverse_loop_params(
        stream: IOBase, 
        points: RolandLoopPoints
) -> SampleParams:
    offset_sample = points.start
    num_samples = points.sustain_end - offset_sample + 1
    stream_size = ROLAND_SAMPLE_WIDTH * num_samples

    stream_result = StreamReversed(
        StreamOffset(
            stream,
            stream_size,
            ROLAND_SAMPLE_WIDTH * offset_sample
        ),
        stream_size,
        sample_width=ROLAND_SAMPLE_WIDTH
    )

    loop_start   = max(0, points.sustain_end - points.start)
    loop_end     = max(0, points.sustain_end - points.sustain_start)

    sustain_loop = LoopRegion(
        start_sample=loop_start,
        end_sample=loop_end,
        repeat_forever=True
    )
    result = SampleParams(
        stream_result,
        loops=[sustain_loop]
    )
    return result
# ---------------------------------------------------------------------------


ORIGINAL_MAP = {
    RolandLoopMode.FORWARD_END:       original_get_forward_end_params,
    RolandLoopMode.FORWARD_RELEASE:   original_get_forward_release_params,
    RolandLoopMode.ONESHOT:           original_get_oneshot_params,
    RolandLoopMode.FORWARD_ONESHOT:   original_get_forward_oneshot_params,
    RolandLoopMode.ALTERNATE:         original_get_alternate_params,
    RolandLoopMode.REVERSE_ONESHOT:   original_get_reverse_oneshot_params,
    RolandLoopMode.REVERSE_LOOP:      original_get_reverse_loop_params,
}
LIVE_MAP = {
    RolandLoopMode.FORWARD_END:       live._get_forward_end_params,
    RolandLoopMode.FORWARD_RELEASE:   live._get_forward_release_params,
    RolandLoopMode.ONESHOT:           live._get_oneshot_params,
    RolandLoopMode.FORWARD_ONESHOT:   live._get_forward_oneshot_params,
    RolandLoopMode.ALTERNATE:         live._get_alternate_params,
    RolandLoopMode.REVERSE_ONESHOT:   live._get_reverse_oneshot_params,
    RolandLoopMode.REVERSE_LOOP:      live._get_reverse_loop_params,
}


def describe_stream(s):
    chain = []
    node = s
    while isinstance(node, (StreamOffset, StreamReversed)):
        chain.append((type(node).__name__, node.end_of_file, node.position,
                      getattr(node, "offset", None),
                      getattr(node, "sample_width", None)))
        node = node.substream
    chain.append(type(node).__name__)
    if any(c[1] <= 0 for c in chain[:-1]):
        # empty/negative window (malformed sample): a reversed stream over
        # it never reports EOF, so only the geometry is compared
        return chain, ("not-read",)
    try:
        data = ("ok", s.read(-1))
    except Exception as e:  # noqa
        data = ("raise", type(e), str(e))
    return chain, data


def outcome(func, backing, points):
    stream = _io.BytesIO(backing)
    try:
        res = func(stream, points)
    except Exception as e:  # noqa
        return ("raise", type(e), str(e))
    same_base = res.data_stream
    while isinstance(same_base, (StreamOffset, StreamReversed)):
        same_base = same_base.substream
    return ("ok", type(res).__name__, len(res), same_base is stream,
            describe_stream(res.data_stream), list(res.loops))


def point_sets(rng, n_words):
    last = n_words - 1
    yield RolandLoopPoints(0, 0, last, 0, last)
    yield RolandLoopPoints(0, 0, 0, 0, 0)
    yield RolandLoopPoints(last, last, last, last, last)
    yield RolandLoopPoints(5, 2, last, 1, last)          # clamp at 0
    yield RolandLoopPoints(7, 9, 8, 3, 7)                # unordered
    yield RolandLoopPoints(4, 4, 3, 4, 3)                # empty window
    yield RolandLoopPoints(6, 0, 2, 0, 1)                # end before start
    for _ in range(160):
        start = rng.randint(0, last)
        if rng.random() < 0.7:
            pts = sorted(rng.randint(start, last) for _ in range(4))
        else:
            pts = [rng.randint(0, last) for _ in range(4)]
        if rng.random() < 0.25:
            pts[1] = last
        if rng.random() < 0.25:
            pts[3] = last
        yield RolandLoopPoints(start, *pts)


def differential():
    rng = _random.Random(31337)
    bad = 0
    n = 0
    for n_words in (1, 2, 16, 300, 0x1200, 0x1200 * 2 + 11):
        backing = bytes(rng.randrange(256) for _ in range(2 * n_words))
        for points in point_sets(rng, n_words):
            for mode in RolandLoopMode:
                want = outcome(ORIGINAL_MAP[mode], backing, points)
                got = outcome(LIVE_MAP[mode], backing, points)
                n += 1
                if want != got:
                    bad += 1
                    print("MISMATCH", mode.name, points, want[:3], got[:3])
            # SampleFile.to_generalized, incl. a mode missing from the map
            for mode in list(RolandLoopMode) + [9]:
                stream = _io.BytesIO(backing)
                sf = live.SampleFile(
                    name="DEMO",
                    loop_mode=mode,
                    start_sample=SampleParamLoopPoint(1, points.start),
                    sustain_loop_start=SampleParamLoopPoint(
                        2, points.sustain_start),
                    sustain_loop_end=SampleParamLoopPoint(
                        3, points.sustain_end),
                    release_loop_start=SampleParamLoopPoint(
                        4, points.release_start),
                    release_loop_end=SampleParamLoopPoint(
                        5, points.release_end),
                    sampling_frequency=30000,
                    _data_stream=stream,
                    _path=["V", "P", "DEMO"]
                )
                f_orig = ORIGINAL_MAP.get(
                    mode, original_get_forward_end_params)
                want = outcome(f_orig, backing, points)
                try:
                    gen = sf.to_generalized()
                    got = ("ok", "SampleParams", 2, True,
                           describe_stream(gen.data_streams[0].stream),
                           list(gen.loop_regions))
                    extra = (gen.name, gen.sample_rate, gen.num_channels,
                             len(gen.data_streams), gen.path,
                             gen.data_streams[0].encoding.sample_width)
                    if extra != ("DEMO", 30000, 1, 1, ["V", "P", "DEMO"], 2):
                        got = ("bad-extra", extra)
                except Exception as e:  # noqa
                    got = ("raise", type(e), str(e))
                n += 1
                if want != got:
                    bad += 1
                    print("MISMATCH to_generalized", mode, points,
                          want[:3], got[:3])
    print("differential cases:", n, "mismatches:", bad)
    return bad

# ---------------------------------------------------------------------------
# Independent Roland S-7xx image writer + end-to-end export check
# (shared verbatim by the four demos; uses only the documented disk layout)
# ---------------------------------------------------------------------------
import contextlib
import io
import os
import random
import shutil
import struct
import tempfile
import wave

CLUSTER = 0x2400
FAT_OFF = 0x80800
DATA_FAT_OFF = 0x2b1000
DIR_OFF = {"vol": 0xa0800, "perf": 0xa1800, "patch": 0xa5800,
           "partial": 0xad800, "sample": 0xcd800}
PAR_OFF = {"vol": 0x10d800, "perf": 0x115800, "patch": 0x155800,
           "partial": 0x1d5800, "sample": 0x255800}
PAR_SIZE = {"vol": 0x100, "perf": 0x200, "patch": 0x200,
            "partial": 0x80, "sample": 0x30}
FTYPE = {"vol": 0x40, "perf": 0x41, "patch": 0x42, "partial": 0x43,
         "sample": 0x44}
FREQS = [48000, 44100, 24000, 22050, 30000, 15000]


def _name(s):
    return s.encode("ascii").ljust(16, b"\x00")


def _ptrs(lst, n):
    lst = list(lst) + [-1] * (n - len(lst))
    return struct.pack("<%dh" % n, *lst)


class S7Image:
    def __init__(self, fat_version=1, max_cluster=48):
        self.size = DATA_FAT_OFF + (max_cluster + 1) * CLUSTER
        self.buf = bytearray(self.size)
        self.fat = [0] * 0x10000
        self.fat[0] = 0xfffa
        self.fat[1] = 0x1234
        flag = 0xffff if fat_version == 1 else 0xfffe
        self.fat[0xfffe] = 0xffff
        self.fat[0xffff] = flag
        self.fat_version = fat_version
        self.counts = dict(vol=0, perf=0, patch=0, partial=0, sample=0)
        self.free = list(range(2, max_cluster + 1))

    def _put(self, off, data):
        self.buf[off:off + len(data)] = data

    def _dir(self, kind, idx, name, fat_entry=0, nclus=0):
        link = 0x8000 if self.fat_version == 2 else 0
        rec = _name(name) + struct.pack(
            "<BBHHHIHH", FTYPE[kind], 0, link, link, 0, 0, fat_entry, nclus)
        assert len(rec) == 0x20
        self._put(DIR_OFF[kind] + 0x20 * idx, rec)
        self.counts[kind] += 1

    def _par(self, kind, idx, rec):
        assert len(rec) == PAR_SIZE[kind], (kind, len(rec))
        self._put(PAR_OFF[kind] + PAR_SIZE[kind] * idx, rec)

    def volume(self, idx, name, perfs):
        self._dir("vol", idx, name)
        self._par("vol", idx, _name(name) + bytes(16) + _ptrs(perfs, 64)
                  + bytes(0x60))

    def performance(self, idx, name, patches):
        self._dir("perf", idx, name)
        rec = (_name(name) + bytes(208) + bytes(16) + bytes(16)
               + _ptrs(patches, 32) + bytes(0xC0))
        self._par("perf", idx, rec)

    def patch(self, idx, name, partials):
        self._dir("patch", idx, name)
        rec = (_name(name) + bytes(16) + bytes(96) + bytes(96) + bytes(32)
               + _ptrs(partials, 88) + bytes(0x50))
        self._par("patch", idx, rec)

    def partial(self, idx, name, samples):
        assert len(samples) <= 4
        sel = list(samples) + [-1] * (4 - len(samples))
        sec = [struct.pack("<h", s) + bytes(9) for s in sel]
        rec = (_name(name) + sec[0] + bytes(5) + sec[1] + bytes(5) + sec[2]
               + bytes(5) + sec[3] + bytes(21 + 16 + 9 + 7))
        self._dir("partial", idx, name)
        self._par("partial", idx, rec)

    def sample(self, idx, name, words, points, loop_mode, freq_code,
               cluster_top=0, chain=None, rng=None):
        """words: list of int16 making up the sample's file AFTER the
        cluster_top leading clusters.  points: 5 word addresses."""
        data = struct.pack("<%dh" % len(words), *words)
        nclus = max(1, -(-len(data) // CLUSTER))
        total = nclus + cluster_top
        if chain is None:
            pool = self.free[:]
            if rng is not None:
                rng.shuffle(pool)
            chain = pool[:total]
        assert len(chain) == total
        for c in chain:
            self.free.remove(c)
        for a, b in zip(chain, chain[1:]):
            self.fat[a] = b
        self.fat[chain[-1]] = 0xfff8 + (idx % 8)
        filler = random.Random(idx)
        for c in chain[:cluster_top]:
            self._put(DATA_FAT_OFF + c * CLUSTER,
                      bytes(filler.randrange(256) for _ in range(64)))
        data = data.ljust(nclus * CLUSTER, b"\xEE")
        for k, c in enumerate(chain[cluster_top:]):
            self._put(DATA_FAT_OFF + c * CLUSTER,
                      data[k * CLUSTER:(k + 1) * CLUSTER])
        self._dir("sample", idx, name, chain[0], total)
        pts = b"".join(struct.pack("<I", (p << 8) | (7 * k + 1))
                       for k, p in enumerate(points))
        rec = (_name(name) + pts + struct.pack(
            "<BBBBHHBBH", loop_mode, 1, 0, 0, cluster_top, total,
            freq_code, 60, 0))
        self._par("sample", idx, rec)

    def tobytes(self):
        ida = struct.pack("<I", 1) + b"S770 MR25A" + bytes(2)
        ida += bytes(15) + bytes(1)
        ida += b"S-770 Hard Disk Ver. 1.00".ljust(31, b"\x00") + bytes(1)
        ida += b"Copyright Roland".ljust(31, b"\x00") + bytes(1)
        ida += bytes(160) + _name("DEMO DISK") + struct.pack(
            "<IHHHHH", 0, self.counts["vol"], self.counts["perf"],
            self.counts["patch"], self.counts["partial"],
            self.counts["sample"])
        self._put(0, ida.ljust(0x200, b"\x00"))
        self._put(FAT_OFF, struct.pack("<65536H", *self.fat))
        return bytes(self.buf)


def expected_pcm(words, points, loop_mode):
    start, s_start, s_end, r_start, r_end = points
    end = r_end if loop_mode in (1, 3) else s_end
    pcm = words[start:end + 1]
    if loop_mode in (5, 6):
        pcm = pcm[::-1]
    return struct.pack("<%dh" % len(pcm), *pcm)


def make_case(seed):
    """Random well-formed image + the set of (relative wav path -> pcm, rate)
    that `export` must produce."""
    rng = random.Random(seed)
    img = S7Image(fat_version=rng.choice([1, 2]))
    n_samples = rng.randint(3, 6)
    sample_info = {}
    for s in range(n_samples):
        sidx = s * 3 + rng.randint(0, 2)
        kind = rng.randrange(4)
        if kind == 0:
            n_words = (CLUSTER // 2) * rng.randint(1, 3)  # fills last cluster
        elif kind == 1:
            n_words = rng.randint(8, 64)
        else:
            n_words = rng.randint(64, CLUSTER + 500)
        words = [rng.randint(-32768, 32767) for _ in range(n_words)]
        start = rng.randint(0, min(5, n_words - 4))
        if kind == 0:
            start = rng.choice([0, start])
        pts = sorted(rng.randint(start, n_words - 1) for _ in range(4))
        s_start, s_end, r_start, r_end = pts
        if kind == 0 or rng.random() < 0.3:
            s_end = r_end = n_words - 1      # window ends on last word
            s_start = min(s_start, s_end)
            r_start = min(r_start, r_end)
        points = (start, s_start, s_end, r_start, r_end)
        mode = (seed + s) % 7
        fcode = (seed // 7 + s) % 6
        top = rng.choice([0, 0, 1, 2])
        name = "SMP%02d" % sidx
        img.sample(sidx, name, words, points, mode, fcode, cluster_top=top,
                   rng=rng)
        sample_info[sidx] = (name, expected_pcm(words, points, mode),
                             FREQS[fcode])
    sidxs = sorted(sample_info)
    # partials
    n_partials = rng.randint(2, 4)
    partials = {}
    for p in range(n_partials):
        pidx = 5 * p + rng.randint(0, 4)
        refs = rng.sample(sidxs, rng.randint(1, min(4, len(sidxs))))
        partials[pidx] = refs
        img.partial(pidx, "PRT%02d" % pidx, refs)
    pidxs = sorted(partials)
    n_patches = rng.randint(2, 3)
    patches = {}
    for q in range(n_patches):
        qidx = 4 * q + rng.randint(0, 3)
        refs = rng.sample(pidxs, rng.randint(1, len(pidxs)))
        patches[qidx] = refs
        img.patch(qidx, "PAT%02d" % qidx, refs)
    qidxs = sorted(patches)
    n_perfs = rng.randint(1, 3)
    perfs = {}
    for r in range(n_perfs):
        ridx = 3 * r + rng.randint(0, 2)
        refs = rng.sample(qidxs, rng.randint(1, len(qidxs)))
        perfs[ridx] = refs
        img.performance(ridx, "PRF%02d" % ridx, refs)
    ridxs = sorted(perfs)
    layout = seed % 3           # 0: all in volumes, 1: some orphan, 2: no vol
    vols = {}
    if layout == 0:
        vols[0] = ridxs
        if len(ridxs) > 1:
            vols[1] = ridxs[:1]                      # shared performance
    elif layout == 1 and len(ridxs) > 1:
        vols[0] = ridxs[:-1]
    elif layout == 1:
        vols[0] = ridxs
    for vidx, refs in vols.items():
        img.volume(vidx, "VOL%02d" % vidx, refs)
    in_vol = set(x for refs in vols.values() for x in refs)
    orphans = [r for r in ridxs if r not in in_vol]
    vol_map = {"VOL%02d" % v: refs for v, refs in vols.items()}
    if orphans:
        vol_map["_Orphan_perf" if vols else "All Performances"] = orphans
    expected = {}
    for vname, refs in vol_map.items():
        for ridx in refs:
            # the exporter lists a sample once per patch that uses it and
            # disambiguates the repeats as "NAME (2)", "NAME (3)", ...
            used = {}
            for qidx in perfs[ridx]:
                in_patch = set()
                for pidx in patches[qidx]:
                    in_patch.update(partials[pidx])
                for sidx in in_patch:
                    used[sidx] = used.get(sidx, 0) + 1
            for sidx, count in used.items():
                name, pcm, rate = sample_info[sidx]
                for k in range(1, count + 1):
                    suffix = "" if k == 1 else " (%d)" % k
                    rel = "%s/PRF%02d/%s%s.wav" % (vname, ridx, name, suffix)
                    expected[rel] = (pcm, rate)
    return img.tobytes(), expected


def run_export(image_bytes):
    """Run the real `export` on the image; return ({relpath: (pcm, rate)},
    sorted stdout lines)."""
    from smpl_extract.actions import export_samples_to_wav
    tmp = tempfile.mkdtemp(prefix="s7demo_")
    try:
        img_path = os.path.join(tmp, "disk.img")
        with open(img_path, "wb") as f:
            f.write(image_bytes)
        dest = os.path.join(tmp, "out")
        os.mkdir(dest)
        out = io.StringIO()
        with contextlib.redirect_stdout(out):
            export_samples_to_wav(img_path, dest)
        got = {}
        for root, _, files in os.walk(dest):
            for fn in files:
                full = os.path.join(root, fn)
                rel = os.path.relpath(full, dest).replace(os.sep, "/")
                with wave.open(full, "rb") as w:
                    assert w.getnchannels() == 1 and w.getsampwidth() == 2
                    got[rel] = (w.readframes(w.getnframes()),
                                w.getframerate())
        return got, sorted(out.getvalue().splitlines())
    finally:
        shutil.rmtree(tmp, ignore_errors=True)


def end_to_end_check(seeds):
    """Returns number of mismatching images."""
    bad = 0
    for seed in seeds:
        image_bytes, expected = make_case(seed)
        got, lines = run_export(image_bytes)
        want_lines = sorted("Exported " + k for k in expected)
        if got != expected or lines != want_lines:
            bad += 1
            print("END-TO-END MISMATCH seed", seed)
            print("  missing:", sorted(set(expected) - set(got)))
            print("  extra  :", sorted(set(got) - set(expected)))
            print("  differ :", sorted(k for k in expected
                                      if k in got and got[k] != expected[k]))
    return bad
# ---------------------------------------------------------------------------


def main():
    bad = differential()
    bad += end_to_end_check(range(42))
    print("end-to-end images checked: 42")
    if bad:
        print("FAIL")
        return 1
    print("OK")
    return 0


if __name__ == "__main__":
    sys.exit(main())
