"""Equivalence demo for r2 (SectorStream._read_sector: guard clause flipped into
if/else with the negated condition, parent stream bound to a local, direct
return).

The live SectorStream / FileStream / MdfStream classes are compared against
subclasses whose `_read_sector` is a verbatim copy of the ORIGINAL code, both by
calling `_read_sector` directly on a grid of arguments and by replaying random
and exhaustive interleavings of reads/seeks on several views that share one
recording file handle.  Compared: return values, exceptions, view state and the
exact order/arguments of seek/read/tell calls reaching the shared handle.
"""
import io
import itertools
import random
import sys
from io import SEEK_CUR, SEEK_END, SEEK_SET

from smpl_extract.alcohol.mdf import MdfStream
from smpl_extract.util.fat import FileStream
from smpl_extract.util.sector import SectorStream
from smpl_extract.util.stream import AttemptToReadBeyondBuffer
from smpl_extract.util.stream import StreamOffset


# ---- verbatim copy of the original SectorStream._read_sector ---------------
def orig_read_sector(self, sector_index, offset, size):
    if offset + size > self.sector_length:
        raise AttemptToReadBeyondBuffer("Reading too much")

    start_address = self._get_address_given_sector_index(
        sector_index,
        offset
    )

    self.substream.seek(start_address, SEEK_SET)
    result = self.substream.read(size)
    return result


class OSector(SectorStream):
    _read_sector = orig_read_sector


class OFile(FileStream):
    _read_sector = orig_read_sector


class OMdf(MdfStream):
    _read_sector = orig_read_sector


LIVE = dict(S=SectorStream, F=FileStream, M=MdfStream)
ORIG = dict(S=OSector, F=OFile, M=OMdf)


class Recorder(io.BytesIO):
    def __init__(self, data):
        super().__init__(data)
        self.log = []

    def tell(self):
        r = super().tell()
        self.log.append(("tell", r))
        return r

    def seek(self, *a):
        r = super().seek(*a)
        self.log.append(("seek", a, r))
        return r

    def read(self, *a):
        r = super().read(*a)
        self.log.append(("read", a, r))
        return r


DATA = bytes((i * 13 + (i >> 7)) & 0xFF for i in range(2352 * 4))


def build(K, seed):
    rng = random.Random(seed)
    fh = Recorder(DATA)
    part = StreamOffset(fh, size=6000, offset=200)
    views = [
        K["S"](fh, size=900, sector_length=64, buffer_length=100),
        K["S"](part, size=777, sector_length=rng.choice([1, 7, 50, 256])),
        K["F"](fh, sector_size=32,
               sector_list=[rng.randrange(0, 200) for _ in range(rng.randrange(0, 7))],
               buffer_length=40),
        K["F"](part, sector_size=128,
               sector_list=[rng.randrange(0, 40) for _ in range(rng.randrange(1, 5))]),
        K["F"](part, sector_size=128,
               sector_list=[rng.randrange(0, 40) for _ in range(rng.randrange(1, 5))]),
        K["M"](fh, buffer_length=3000),
        K["S"](fh, size=100000, sector_length=1000),     # claims more than exists
    ]
    return fh, views


def state(v):
    return (v.position, v.true_size, v.end_of_file)


def do(v, op):
    try:
        if op[0] == "read":
            return ("ok", v.read(op[1]))
        if op[0] == "seek":
            return ("ok", v.seek(op[1], op[2]))
        if op[0] == "readall":
            return ("ok", v.readall())
        if op[0] == "sector":
            return ("ok", v._read_sector(op[1], op[2], op[3]))
    except Exception as e:  # noqa: BLE001
        return ("exc", type(e).__name__, str(e))
    raise AssertionError(op)


failures = 0
checked = 0


def replay(seed, schedule):
    global failures, checked
    fa, va = build(LIVE, seed)
    fb, vb = build(ORIG, seed)
    for step, (idx, op) in enumerate(schedule):
        ra = do(va[idx], op)
        rb = do(vb[idx], op)
        checked += 1
        if (ra != rb or [state(v) for v in va] != [state(v) for v in vb]
                or fa.log != fb.log):
            failures += 1
            if failures < 10:
                print("MISMATCH seed", seed, "step", step, "view", idx, op)
                print("  live:", ra)
                print("  orig:", rb)
            return


NVIEWS = len(build(LIVE, 0)[1])

# 1. direct calls on a grid (including the boundary offset+size == sector_length,
#    one past it, negative values, sector indices beyond the file's sector list)
grid = []
for idx in (-3, -1, 0, 1, 2, 5, 39, 1000):
    for off in (-1, 0, 1, 31, 32, 63, 64, 127, 128, 2047, 2048):
        for size in (-1, 0, 1, 2, 32, 33, 64, 65, 128, 2048, 2049):
            grid.append(("sector", idx, off, size))
for seed in range(3):
    for v in range(NVIEWS):
        replay(seed, [(v, op) for op in grid])

# 2. random interleavings of reads / seeks / direct sector reads
def random_op(rng):
    r = rng.random()
    if r < 0.55:
        return ("read", rng.choice([0, 1, 5, 31, 32, 33, 64, 100, 128, 129, 500,
                                    2048, 2049, 5000]))
    if r < 0.6:
        return ("read", rng.choice([None, -1]))
    if r < 0.85:
        return ("seek", rng.randrange(-50, 2500),
                rng.choice([SEEK_SET, SEEK_CUR, SEEK_END]))
    if r < 0.9:
        return ("readall",)
    return ("sector", rng.randrange(-2, 45), rng.randrange(0, 130),
            rng.randrange(0, 130))


for seed in range(400):
    rng = random.Random(5000 + seed)
    replay(seed, [(rng.randrange(NVIEWS), random_op(rng)) for _ in range(60)])

# 3. exhaustive interleavings: 3 streams x 2 block reads each
for sizes in itertools.product([0, 10, 128, 300], repeat=2):
    for trio in [(0, 1, 2), (2, 3, 4), (3, 4, 5), (1, 5, 6)]:
        base = [trio[0]] * 2 + [trio[1]] * 2 + [trio[2]] * 2
        for order in set(itertools.permutations(base)):
            replay(11, [(i, ("read", sizes[k % 2])) for k, i in enumerate(order)])

print(f"{checked} operations compared, {failures} mismatching schedules")
sys.exit(1 if failures else 0)
