"""Equivalence demo for r4 (RiffStruct / WavRiffChunkStruct length prefixes
in smpl_extract/formats/wav.py).

The ORIGINAL definitions of WavRiffChunkStruct, WavRiffBodyStruct and
RiffStruct are rebuilt below from the (untouched) leaf structs and compared
with the ones exported by the module:
  * build(): identical bytes (and identical sequence of writes on the output
    stream) for many fmt/smpl/data chunk combinations, data supplied as
    lists and as generators that stop early; the RIFF and chunk length
    prefixes are additionally checked against independently computed values;
  * build() failures: same exception type and message;
  * parse(): identical result / exception on the built files, on every
    truncation of small files, and on corrupted length fields;
  * the whole export path WavSampleAdapter(RiffStruct) on Samples whose data
    lives in SectorStreams over complete and truncated backing files.
"""
from construct.core import Const
from construct.core import GreedyRange
from construct.core import Int32ul
from construct.core import Prefixed
from construct.core import Struct
from construct.core import Switch
from construct.expr import this
from construct.lib.containers import Container
from construct.lib.containers import ListContainer
import io
import random
import struct
import sys

import smpl_extract.formats.wav as W
from smpl_extract.data_streams import DataStream
from smpl_extract.data_streams import Endianess
from smpl_extract.data_streams import StreamEncoding
from smpl_extract.formats.wav import WavDataChunkStruct
from smpl_extract.formats.wav import WavFormatChunkContainer
from smpl_extract.formats.wav import WavFormatChunkStruct
from smpl_extract.formats.wav import WavLoopContainer
from smpl_extract.formats.wav import WavLoopType
from smpl_extract.formats.wav import WavRiffChunkType
from smpl_extract.formats.wav import WavSampleChunkContainer
from smpl_extract.formats.wav import WavSampleChunkStruct
from smpl_extract.generalized.sample import LoopRegion
from smpl_extract.generalized.sample import LoopType
from smpl_extract.generalized.sample import Sample
from smpl_extract.generalized.wav import WavSampleAdapter
from smpl_extract.midi import MidiNote
from smpl_extract.util.sector import SectorStream


# ------------------------------------------------- original definitions
OrigWavRiffChunkStruct = Struct(
    "riff_id"   / WavRiffChunkType,
    "data"      / Prefixed(Int32ul,
        Switch(this.riff_id, {
            WavRiffChunkType.FMT:  WavFormatChunkStruct,
            WavRiffChunkType.SMPL: WavSampleChunkStruct,
            WavRiffChunkType.DATA: WavDataChunkStruct
        })
    )
)


OrigWavRiffBodyStruct = Struct(
    "fourcc"    / Const(b"WAVE"),
    "chunks"    / GreedyRange(OrigWavRiffChunkStruct)
)


OrigRiffStruct = Struct(
    "fourcc"    / Const(b"RIFF"),
    "data"      / Prefixed(Int32ul, OrigWavRiffBodyStruct),
)
# ----------------------------------------------------------------------


class LoggingSink(io.BytesIO):
    def __init__(self):
        super().__init__()
        self.log = []

    def write(self, b):
        self.log.append(("write", bytes(b)))
        return super().write(b)

    def seek(self, offset, whence=0):
        self.log.append(("seek", offset, whence))
        return super().seek(offset, whence)


def normalise(x, depth=0):
    if depth > 12:
        return "..."
    if callable(x) and not isinstance(x, type):
        try:
            return ("lazy", normalise(x(), depth + 1))
        except Exception as e:
            return ("lazy-exc", type(e).__name__, str(e))
    if isinstance(x, MidiNote):
        return ("midi", x.to_midi_byte())
    if isinstance(x, dict):
        return {k: normalise(v, depth + 1) for k, v in x.items()
                if k != "_io"}
    if isinstance(x, (list, ListContainer)):
        return [normalise(v, depth + 1) for v in x]
    if isinstance(x, (bytes, int, type(None))):
        return x
    return str(x)


def attempt(f):
    try:
        return ("ok", f())
    except Exception as e:
        return ("exc", type(e).__name__, str(e))


def make_chunks(spec, rng_seed):
    """spec -> fresh list of chunk Containers (generators are single use)."""
    rng = random.Random(rng_seed)
    chunks = []
    for kind, arg in spec:
        if kind == "fmt":
            ch, rate, bits = arg
            chunks.append(Container({
                "riff_id": WavRiffChunkType.FMT,
                "data": WavFormatChunkContainer(
                    audio_format=1, channel_cnt=ch, sample_rate=rate,
                    bits_per_sample=bits)}))
        elif kind == "smpl":
            nloops, sampler_data = arg
            loops = [WavLoopContainer(
                cue_id=i, loop_type=rng.choice(list(WavLoopType)),
                start_byte=rng.randint(0, 1000), end_byte=rng.randint(0, 9999),
                fraction=0, play_cnt=rng.randint(0, 5))
                for i in range(nloops)]
            chunks.append(Container({
                "riff_id": WavRiffChunkType.SMPL,
                "data": WavSampleChunkContainer(
                    manufacturer=0, product=0, sample_period=22675,
                    midi_note=MidiNote.from_midi_byte(rng.randint(20, 100)),
                    pitch_fraction=rng.randint(0, 2**31),
                    sample_loops=loops, sampler_data=sampler_data)}))
        elif kind == "data-list":
            pieces = [bytes(rng.getrandbits(8) for _ in range(n))
                      for n in arg]
            chunks.append(Container({
                "riff_id": WavRiffChunkType.DATA, "data": pieces}))
        elif kind == "data-gen":
            pieces = [bytes(rng.getrandbits(8) for _ in range(n))
                      for n in arg]
            chunks.append(Container({
                "riff_id": WavRiffChunkType.DATA,
                "data": (p for p in pieces)}))
        elif kind == "data-bad":
            chunks.append(Container({
                "riff_id": WavRiffChunkType.DATA, "data": [b"ab", 5]}))
        elif kind == "unknown-id":
            chunks.append(Container({"riff_id": 0x12345678, "data": None}))
        elif kind == "missing-data":
            chunks.append(Container({"riff_id": WavRiffChunkType.FMT}))
    return chunks


def independent_length_check(blob):
    """RIFF size == len-8 and the chunks tile the body exactly."""
    if blob[:4] != b"RIFF" or blob[8:12] != b"WAVE":
        return False
    (riff_len,) = struct.unpack("<I", blob[4:8])
    if riff_len != len(blob) - 8:
        return False
    pos = 12
    while pos < len(blob):
        if pos + 8 > len(blob):
            return False
        (n,) = struct.unpack("<I", blob[pos + 4:pos + 8])
        pos += 8 + n
    return pos == len(blob)


def main():
    rng = random.Random(4151)
    cases = 0
    failures = 0

    def report(what, a, b):
        nonlocal failures
        failures += 1
        if failures <= 5:
            print("MISMATCH", what)
            print("  orig:", repr(a)[:500])
            print("  new :", repr(b)[:500])

    # same objects must still be exported under the public names
    for name in ("RiffStruct", "WavRiffBodyStruct", "WavRiffChunkStruct",
                 "WavDataChunkStruct", "WavRiffChunkType"):
        if not hasattr(W, name):
            report("missing public name " + name, None, None)

    # ---- 1. build / parse of hand-made chunk lists
    specs = []
    fixed = [
        [],
        [("fmt", (1, 44100, 16))],
        [("fmt", (2, 48000, 16)), ("data-list", [])],
        [("fmt", (1, 22050, 8)), ("data-gen", [])],
        [("fmt", (1, 44100, 16)), ("data-gen", [0])],
        [("fmt", (1, 44100, 16)), ("smpl", (0, b"")), ("data-gen", [4096, 10])],
        [("fmt", (1, 44100, 16)), ("smpl", (2, b"xyz")), ("data-list", [1])],
        [("data-gen", [3]), ("data-gen", [5]), ("fmt", (1, 1, 8))],
        [("fmt", (1, 44100, 16)), ("data-bad", None)],
        [("unknown-id", None)],
        [("missing-data", None)],
        [("fmt", (70000, 44100, 16))],            # does not fit Int16ul
    ]
    specs.extend(fixed)
    for _ in range(400):
        spec = [("fmt", (rng.choice((1, 2)), rng.choice((8000, 44100, 48000)),
                         rng.choice((8, 16, 32))))]
        if rng.random() < 0.5:
            spec.append(("smpl", (rng.randint(0, 3),
                                  bytes(rng.randint(0, 4)))))
        npieces = rng.randint(0, 5)
        sizes = [rng.choice((0, 1, 2, 7, 100, 4096)) for _ in range(npieces)]
        spec.append((rng.choice(("data-list", "data-gen")), sizes))
        if rng.random() < 0.1:
            rng.shuffle(spec)
        specs.append(spec)

    for idx, spec in enumerate(specs):
        cases += 1
        seed = 1000 + idx

        def obj():
            return Container({"data": Container({
                "chunks": make_chunks(spec, seed)})})

        a = attempt(lambda: OrigRiffStruct.build(obj()))
        b = attempt(lambda: W.RiffStruct.build(obj()))
        if a != b:
            report(("build", spec), a, b)
            continue

        # identical writes on the output stream
        sa, sb = LoggingSink(), LoggingSink()
        ra = attempt(lambda: OrigRiffStruct.build_stream(obj(), sa))
        rb = attempt(lambda: W.RiffStruct.build_stream(obj(), sb))
        if (ra[0], ra[1:] if ra[0] == "exc" else None, sa.log) != \
                (rb[0], rb[1:] if rb[0] == "exc" else None, sb.log):
            report(("build_stream", spec), (ra, sa.log), (rb, sb.log))

        # chunk struct on its own
        for n in range(len(spec)):
            ca = attempt(lambda: OrigWavRiffChunkStruct.build(
                make_chunks(spec, seed)[n]))
            cb = attempt(lambda: W.WavRiffChunkStruct.build(
                make_chunks(spec, seed)[n]))
            if ca != cb:
                report(("chunk build", spec[n]), ca, cb)

        if a[0] != "ok":
            continue
        blob = a[1]
        if not independent_length_check(blob):
            report(("length prefixes wrong", spec), blob[:64], None)

        # parse: whole file, truncations, corrupted length fields
        cuts = {len(blob), 0, 3, 4, 7, 8, 11, 12, 15, 16, 19, 20, 36, 43, 44}
        if len(blob) <= 200:
            cuts.update(range(len(blob) + 1))
        else:
            cuts.update(rng.randint(0, len(blob)) for _ in range(12))
        variants = [blob[:c] for c in sorted(cuts) if c <= len(blob)]
        for off in (4, 16):
            if len(blob) >= off + 4:
                for val in (0, 1, len(blob), 0xFFFFFFFF):
                    variants.append(blob[:off] + struct.pack("<I", val)
                                    + blob[off + 4:])
        for v in variants:
            cases += 1
            pa = attempt(lambda: normalise(OrigRiffStruct.parse(v)))
            pb = attempt(lambda: normalise(W.RiffStruct.parse(v)))
            if pa != pb:
                report(("parse", len(v)), pa, pb)

    # sizeof behaves the same (both raise the same error)
    for o, n in ((OrigRiffStruct, W.RiffStruct),
                 (OrigWavRiffChunkStruct, W.WavRiffChunkStruct)):
        cases += 1
        sa_ = attempt(lambda: o.sizeof())
        sb_ = attempt(lambda: n.sizeof())
        if sa_ != sb_:
            report("sizeof", sa_, sb_)

    # ---- 2. full export path on (truncated) sector streams
    orig_builder = WavSampleAdapter(OrigRiffStruct)
    new_builder = WavSampleAdapter(W.RiffStruct)
    for _ in range(600):
        cases += 1
        sector_length = rng.choice((16, 512, 0x2000))
        nstreams = rng.choice((1, 1, 2))
        width = rng.choice((1, 2))
        enc = StreamEncoding(rng.choice(list(Endianess)), width, 1, True)
        payloads = []
        for _s in range(nstreams):
            full = rng.randint(0, 3) * 0x1000 + rng.randint(0, 500) * width
            payload = bytes(rng.getrandbits(8) for _ in range(full))
            cut = rng.choice((full, rng.randint(0, full),
                              (full // sector_length) * sector_length, 0))
            payloads.append((payload[:cut], full))
        loops = []
        if rng.random() < 0.4:
            loops.append(LoopRegion(
                loop_type=rng.choice(list(LoopType)),
                start_sample=rng.randint(0, 100),
                end_sample=rng.randint(100, 1000),
            ))
        midi = MidiNote.from_midi_byte(60) if rng.random() < 0.5 else None

        def sample():
            streams = [
                DataStream(SectorStream(io.BytesIO(data), full,
                                        sector_length), enc)
                for data, full in payloads
            ]
            return Sample(
                name="S", sample_rate=44100, num_channels=nstreams,
                data_streams=streams, loop_regions=list(loops),
                midi_note=midi,
            )

        a = attempt(lambda: orig_builder.build(sample()))
        b = attempt(lambda: new_builder.build(sample()))
        if a != b:
            report("export", a, b)
        elif a[0] == "ok" and not independent_length_check(a[1]):
            report("export length prefixes wrong", a[1][:64], None)

    print(f"{cases} cases, {failures} mismatches")
    return 1 if failures else 0


if __name__ == "__main__":
    sys.exit(main())
