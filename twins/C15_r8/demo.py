"""Equivalence demo for r8: smpl_extract.util.stream.StreamWrapper.read.

For StreamWrapper and every subclass used in the project (StreamOffset,
StreamReversed, SectorStream, FileStream) a twin class is created whose
`read` is an inline copy of the ORIGINAL method.  Random sequences of
read / readall / seek / "somebody else moved the shared substream"
operations are run on both, over complete and truncated backing data,
comparing return values, exceptions, position, true_size and the exact
order of calls made on the shared substream.
Exit 0 when everything agrees, 1 otherwise.
"""
from io import BytesIO
from io import SEEK_CUR
from io import SEEK_END
from io import SEEK_SET
import random
import sys
from typing import Union

from smpl_extract.util.fat import FileStream
from smpl_extract.util.sector import SectorStream
from smpl_extract.util.stream import StreamOffset
from smpl_extract.util.stream import StreamReversed
from smpl_extract.util.stream import StreamWrapper


# --------------------------------------------------------------------------
# ORIGINAL implementation (verbatim copy of the method)
# --------------------------------------------------------------------------
def read_original(self, size: Union[int, None])->bytes:

    if size is None or size < 0:
        return self.readall()

    self.true_size = size
    if self.end_of_file is not None:  # as in the tree after the empty-view fix
        self.true_size = min(self.end_of_file - self.position, size)
    if self.true_size < 0:
        self.true_size = 0

    true_position = self.substream.tell()
    expected_position = self._translate_addr(self.position)
    if expected_position != true_position:
        self._seek(self.position)

    result = self._read(self.true_size)
    self.position += self.true_size
    return result


def twin(cls):
    return type(cls.__name__ + "Original", (cls,), {"read": read_original})


# --------------------------------------------------------------------------
# Instrumented shared substream
# --------------------------------------------------------------------------
class LoggedSubstream:
    def __init__(self, data, log):
        self.inner = BytesIO(data)
        self.log = log

    def seek(self, offset, whence=SEEK_SET):
        try:
            res = self.inner.seek(offset, whence)
        except BaseException as e:  # noqa
            self.log.append(("seek-exc", offset, whence, type(e)))
            raise
        self.log.append(("seek", offset, whence, res))
        return res

    def tell(self):
        res = self.inner.tell()
        self.log.append(("tell", res))
        return res

    def read(self, size=-1):
        pos = self.inner.tell()
        res = self.inner.read(size)
        self.log.append(("read", size, pos, len(res)))
        return res


rnd = random.Random(1508)


def random_ops(n):
    ops = []
    for _ in range(n):
        r = rnd.random()
        if r < 0.55:
            ops.append(("read", rnd.choice(
                [0, 1, 2, 3, 4, 5, 7, 8, 16, 31, 32, 33, 64, 100, 4096])))
        elif r < 0.62:
            ops.append(("read", rnd.choice([None, -1, -5])))
        elif r < 0.66:
            ops.append(("readall",))
        elif r < 0.86:
            whence = rnd.choice([SEEK_SET, SEEK_CUR, SEEK_END, 7])
            ops.append(("seek", rnd.choice(
                [0, 1, 2, 4, 8, 10, 16, 32, 50, 64, 1000, -1, -4, -16,
                 -1000]), whence))
        elif r < 0.96:
            ops.append(("move_substream", rnd.choice(
                [0, 1, 5, 16, 33, 64, 200])))
        else:
            ops.append(("poke_position", rnd.choice([-3, 0, 5, 70, 500])))
    return ops


def execute(make_stream, data, ops):
    log = []
    substream = LoggedSubstream(data, log)
    trace = []
    try:
        stream = make_stream(substream)
    except BaseException as e:  # noqa
        return [("ctor-exc", type(e), str(e))], log
    for op in ops:
        try:
            if op[0] == "read":
                res = stream.read(op[1])
            elif op[0] == "readall":
                res = stream.readall()
            elif op[0] == "seek":
                res = stream.seek(op[1], op[2])
            elif op[0] == "move_substream":
                res = substream.inner.seek(op[1])
            else:
                stream.position = op[1]
                res = None
            out = ("ok", type(res), res)
        except BaseException as e:  # noqa
            out = ("exc", type(e), str(e))
        trace.append((op, out, stream.position, stream.true_size,
                      substream.inner.tell()))
    return trace, log


failures = 0
checks = 0
outcome_stats = {}


def compare(cls, ctor_args, ctor_kwargs, data, ops, label):
    global failures, checks
    cls_original = twin(cls)
    assert cls_original.read is read_original
    assert "read" not in vars(cls) or cls is StreamWrapper
    a = execute(lambda s: cls_original(s, *ctor_args, **ctor_kwargs),
                data, ops)
    b = execute(lambda s: cls(s, *ctor_args, **ctor_kwargs), data, ops)
    checks += 1
    for step in a[0]:
        if len(step) == 5:
            key = (cls.__name__, step[0][0], step[1][0],
                   step[1][1].__name__)
            outcome_stats[key] = outcome_stats.get(key, 0) + 1
    if a != b:
        failures += 1
        print("MISMATCH", label)
        for x, y in zip(a[0], b[0]):
            if x != y:
                print("  first differing step:")
                print("    original  :", repr(x)[:300])
                print("    refactored:", repr(y)[:300])
                break
        else:
            print("  substream call logs differ")


DATA_LEN = 256
full = bytes(range(256))

for trial in range(4000):
    # backing data: complete or truncated at a random point
    cut = rnd.choice([DATA_LEN, DATA_LEN, 0, 1, 15, 16, 17, 63, 64, 65,
                      100, 200, rnd.randrange(0, DATA_LEN)])
    data = full[:cut]
    ops = random_ops(rnd.randrange(1, 25))
    kind = rnd.choice(["wrapper", "offset", "reversed", "sector", "file"])
    size = rnd.choice([64, 64, 32, 1, 0, -8, None, 100, 256, 1000])
    position = rnd.choice([0, 0, 0, 3, 64, 90])
    buffer_length = rnd.choice([0x1000, 1, 7, 16])
    if kind == "wrapper":
        compare(StreamWrapper, (size,),
                dict(position=position, buffer_length=buffer_length),
                data, ops, ("wrapper", trial))
    elif kind == "offset":
        compare(StreamOffset, (size, rnd.choice([0, 1, 16, 100, 250])),
                dict(position=position, buffer_length=buffer_length),
                data, ops, ("offset", trial))
    elif kind == "reversed":
        rsize = size if size is not None else 64
        compare(StreamReversed, (rsize,),
                dict(sample_width=rnd.choice([1, 2, 2, 3, 4]),
                     position=position,
                     buffer_length=rnd.choice([0x1000, 4, 12, 16])),
                data, ops, ("reversed", trial))
    elif kind == "sector":
        ssize = size if size is not None else 64
        compare(SectorStream, (),
                dict(size=ssize, sector_length=rnd.choice([8, 16, 32, 100]),
                     position=position, buffer_length=buffer_length),
                data, ops, ("sector", trial))
    else:
        sector_size = rnd.choice([8, 16, 32])
        n_sectors = DATA_LEN // sector_size
        sector_list = [rnd.randrange(0, n_sectors + 2)
                       for _ in range(rnd.randrange(0, 8))]
        compare(FileStream, (sector_size, sector_list),
                dict(position=rnd.choice([0, 0, 5]),
                     buffer_length=buffer_length),
                data, ops, ("file", trial))

for key in sorted(outcome_stats):
    print("  %-16s %-15s %-4s %-22s %d" % (key + (outcome_stats[key],)))
print("checks: %d  failures: %d" % (checks, failures))
sys.exit(1 if failures else 0)
