"""Equivalence demo for make_transcoder (smpl_extract/transcoder.py).

make_transcoder validates the channel count, rewinds every sample data stream,
fixes the per-stream block sizes and builds the pipeline whose f_decode is
decode_frame bound to those block sizes - the function that reads one block
from the left stream, one block from the right stream, ... per frame.

The live make_transcoder is compared with a verbatim copy of the ORIGINAL one:

 1. argument checking: no streams, every mismatch of channel counts (incl.
    num_interleaved_channels 0, numpy integers) - exception type and text, and
    no seek may have happened on any stream;
 2. order of attribute accesses and seeks: logging encodings / streams record
    every access to num_interleaved_channels, endianess, dtype and every
    seek / read / tell; the logs must be identical;
 3. structure: kind of transcoder, buffer sizes, process labels, identity of
    the shared swap function, and the behaviour of f_decode / every process /
    f_encode when called like PipelineTranscoder.__next__ calls them;
 4. exported frames for all combinations of 1-3 source streams (8/16/32 bit,
    both byte orders, mono / interleaved stereo, windows, nested windows and
    fragmented sector files, streams not positioned at 0) over ONE traced
    handle: frames, end of iteration and the complete seek/tell/read trace;
 5. several exports sharing the handle, their __next__ calls interleaved
    exhaustively (2 exports x 3 frames, 3 x 2) and randomly: per export the
    frames must equal those of the original and those of an isolated export.
Exit 0 when everything agrees, 1 otherwise.
"""
import io
import itertools
import random
import sys
from io import SEEK_SET
from typing import Callable
from typing import List
from typing import Tuple

import numpy as np

from smpl_extract.data_streams import DataStream
from smpl_extract.data_streams import Endianess
from smpl_extract.data_streams import IncompatibleNumberOfChannels
from smpl_extract.data_streams import NoDataStream
from smpl_extract.data_streams import StreamEncoding
from smpl_extract.data_streams import system_byte_order
from smpl_extract.transcoder import PassthroughTranscoder
from smpl_extract.transcoder import PipelineTranscoder
from smpl_extract.transcoder import TranscodePipelineStruct
from smpl_extract.transcoder import decode_frame
from smpl_extract.transcoder import encode_frame
from smpl_extract.transcoder import get_buffer_sizes
from smpl_extract.transcoder import make_transcoder
from smpl_extract.transcoder import swap_endianess
from smpl_extract.transcoder import swap_endianess_multi
from smpl_extract.util.fat import FileStream
from smpl_extract.util.stream import StreamOffset
from smpl_extract.util.stream import StreamWrapper


def orig_make_transcoder(
        data_streams: List[DataStream],
        dest_encoding: StreamEncoding
    ):
    """Verbatim copy of the original make_transcoder."""

    # check for bad args
    if len(data_streams) <= 0:
        raise NoDataStream("No data streams given")

    total_num_channels = 0
    for data_stream in data_streams:
        num_channels = max(1, data_stream.encoding.num_interleaved_channels)
        total_num_channels += num_channels
    expected_num_channels = dest_encoding.num_interleaved_channels
    if total_num_channels != expected_num_channels:
        raise IncompatibleNumberOfChannels(
            f"Expected {expected_num_channels} fourd {total_num_channels}."
        )

    # begin
    for data_stream in data_streams:
        data_stream.stream.seek(0, SEEK_SET)
    buffer_sizes = get_buffer_sizes(data_streams)

    if len(data_streams) == 1 \
            and data_streams[0].encoding == dest_encoding:
        result = PassthroughTranscoder(
            data_streams[0],
            buffer_size=buffer_sizes[0]
        )
        return result

    processes: List[Tuple[
        str,
        Callable[[List[np.ndarray]], List[np.ndarray]]
    ]]
    processes = []

    # is byteswap needed at input?
    swaps = list(
        x.encoding.endianess != system_byte_order
        for x in data_streams
        for _ in range(max(1, x.encoding.num_interleaved_channels))
    )
    if any(swaps):
        if all(swaps):
            processes.append(("swap_input_endianess", swap_endianess))
        else:
            processes.append((
                "swap_input_endianess_multi",
                lambda x: swap_endianess_multi(x, swaps)
            ))

    # is byte swap needed at output?
    if dest_encoding.endianess != system_byte_order:
        processes.append(("swap_output_endianess", swap_endianess))

    dest_dtype = dest_encoding.dtype

    f_decode_frame = lambda x: decode_frame(x, buffer_sizes=buffer_sizes)
    f_encode_frame = lambda x: encode_frame(x, dest_dtype=dest_dtype)
    pipeline = TranscodePipelineStruct(
        f_decode_frame,
        processes,
        f_encode_frame
    )

    result = PipelineTranscoder(data_streams, pipeline)
    return result


MAKERS = {"live": make_transcoder, "orig": orig_make_transcoder}

FAILURES = []
CHECKS = 0


def check(cond, label):
    global CHECKS
    CHECKS += 1
    if not cond:
        FAILURES.append(label)
        if len(FAILURES) <= 20:
            print("MISMATCH:", label)


def exc_info(e):
    ctx = type(e.__context__).__name__ if e.__context__ is not None else None
    return ("exc", type(e).__name__, str(e), ctx)


class TraceIO(io.BytesIO):
    def __init__(self, data, log=None):
        super().__init__(data)
        self.trace = [] if log is None else log

    def seek(self, off, whence=0):
        r = super().seek(off, whence)
        self.trace.append(("seek", off, whence, r))
        return r

    def tell(self):
        r = super().tell()
        self.trace.append(("tell", r))
        return r

    def read(self, size=-1):
        r = super().read(size)
        self.trace.append(("read", size, len(r)))
        return r


IMAGE = bytes(((i * 73) ^ (i >> 5) ^ 0x5A) & 0xFF for i in range(40000))

L, B = Endianess.LITTLE, Endianess.BIG


# --------------------------------------------------------- 1. argument checks
def part_bad_args():
    n = 0
    for name, mk in MAKERS.items():
        for empty in ([], (), ""):
            try:
                mk(empty, StreamEncoding())
                out = ("ok",)
            except Exception as e:  # noqa: BLE001
                out = exc_info(e)
            check(out == ("exc", "NoDataStream", "No data streams given", None), f"{name} empty {empty!r}: {out}")
            n += 1
    channel_counts = (0, 1, 2, 3, np.int64(2), np.int8(1), True)
    for k in (1, 2, 3):
        for src in itertools.product(channel_counts, repeat=k):
            for dest in (0, 1, 2, 3, 4, 5, np.int32(2)):
                outs = {}
                for name, mk in MAKERS.items():
                    h = TraceIO(IMAGE)
                    streams = [
                        DataStream(StreamOffset(h, 64, 16 * i, position=5), StreamEncoding(L, 2, c))
                        for i, c in enumerate(src)
                    ]
                    try:
                        t = mk(streams, StreamEncoding(L, 2, dest))
                        out = ("ok", type(t).__name__)
                    except Exception as e:  # noqa: BLE001
                        out = exc_info(e)
                    outs[name] = (out, list(h.trace), [s.stream.position for s in streams])
                    total = sum(max(1, c) for c in src)
                    if total != dest:
                        check(out[:2] == ("exc", "IncompatibleNumberOfChannels") and h.trace == [],
                              f"{name} src={src} dest={dest}: {out}, trace={h.trace}")
                check(outs["live"] == outs["orig"], f"bad args src={src} dest={dest}: {outs}")
                n += 1
    return n


# ------------------------------------------------------ 2. order of accesses
LOG = []


class LogEncoding(StreamEncoding):
    """A StreamEncoding that records which of its attributes are looked at."""

    def __getattribute__(self, name):
        if name in ("num_interleaved_channels", "endianess", "dtype", "sample_width", "is_signed"):
            LOG.append(("enc", object.__getattribute__(self, "tag"), name))
        return super().__getattribute__(name)


def log_encoding(tag, *args):
    enc = LogEncoding(*args)
    object.__setattr__(enc, "tag", tag)
    return enc


class LogStream(StreamOffset):
    def seek(self, offset, whence=1):
        LOG.append(("stream.seek", self.tag, offset, whence))
        return super().seek(offset, whence)

    def read(self, size):
        LOG.append(("stream.read", self.tag, size))
        return super().read(size)


def part_access_order():
    n = 0
    encodings = [
        (L, 1, 1), (B, 2, 1), (L, 2, 2), (B, 2, 2), (L, 4, 1), (B, 1, 0), (L, 2, 3),
    ]
    dests = [(L, 2, 1), (B, 2, 2), (L, 4, 3), (B, 1, 4), (L, 2, 2), (L, 2, 5)]
    for k in (1, 2, 3):
        for combo in itertools.product(encodings, repeat=k):
            for dest in dests:
                logs = {}
                for name, mk in MAKERS.items():
                    del LOG[:]
                    h = TraceIO(IMAGE, log=LOG)
                    streams = []
                    for i, enc in enumerate(combo):
                        s = LogStream(h, 96, 100 * i + 7, position=3)
                        s.tag = i
                        streams.append(DataStream(s, log_encoding(i, *enc)))
                    try:
                        t = mk(streams, log_encoding("dest", *dest))
                        frames = []
                        for _ in range(3):
                            try:
                                frames.append(next(t))
                            except StopIteration:
                                frames.append("stop")
                                break
                        out = ("ok", type(t).__name__, frames)
                    except Exception as e:  # noqa: BLE001
                        out = exc_info(e)
                    logs[name] = (out, list(LOG))
                check(logs["live"] == logs["orig"], f"access order {combo} -> {dest}")
                n += 1
    return n


# ------------------------------------------------------------- 3. structure
def describe(t):
    if isinstance(t, PassthroughTranscoder):
        return ("passthrough", t.buffer_size)
    assert isinstance(t, PipelineTranscoder)
    p = t.pipeline
    return (
        "pipeline",
        type(p).__name__,
        [name for name, _ in p.processes],
        [f is swap_endianess for _, f in p.processes],
        [callable(f) for _, f in p.processes],
        callable(p.f_decode),
        callable(p.f_encode),
        len(p.processes),
    )


def arrays_equal(a, b):
    if type(a) is not type(b):
        return False
    if isinstance(a, (list, tuple)):
        return len(a) == len(b) and all(arrays_equal(x, y) for x, y in zip(a, b))
    if isinstance(a, np.ndarray):
        return a.dtype == b.dtype and a.shape == b.shape and a.tobytes() == b.tobytes()
    return a == b


def source_sets():
    """(label, [(encoding, stream factory)]) - streams over the shared handle h."""
    def window(off, size, pos=0):
        return lambda h: StreamOffset(h, size, off, position=pos)

    def nested(off, size, pos=0):
        return lambda h: StreamOffset(StreamOffset(StreamOffset(h, 30000, 100), 20000, 50), size, off, position=pos)

    def sector_file(ss, chain, size, pos=0):
        return lambda h: StreamWrapper(
            FileStream(StreamOffset(h, 36000, 512), ss, list(chain)), size, position=pos)

    streams = [
        window(1000, 10000), window(13000, 9001, pos=77), nested(300, 12288, pos=4096),
        sector_file(512, [9, 3, 40, 41, 2, 17, 5, 30, 31, 8], 5000, pos=13),
        sector_file(2048, [4, 1, 7, 2, 9], 10240),
        window(2352 * 3, 2352 * 4, pos=2352),
        window(50, 0), window(60, 3),
    ]
    encs = [
        StreamEncoding(L, 1, 1), StreamEncoding(B, 1, 1, False),
        StreamEncoding(L, 2, 1), StreamEncoding(B, 2, 1),
        StreamEncoding(L, 2, 2), StreamEncoding(B, 2, 2),
        StreamEncoding(L, 4, 1), StreamEncoding(B, 4, 2),
        StreamEncoding(L, 2, 0),
    ]
    rng = random.Random(2020)
    sets = []
    for k in (1, 2, 3):
        for _ in range(90):
            sets.append([(rng.choice(encs), rng.choice(streams)) for _ in range(k)])
    # the classic stereo export: left and right 16 bit mono samples
    sets.append([(StreamEncoding(B, 2, 1), streams[3]), (StreamEncoding(B, 2, 1), streams[4])])
    sets.append([(StreamEncoding(L, 2, 1), streams[0]), (StreamEncoding(L, 2, 1), streams[1])])
    sets.append([(StreamEncoding(L, 2, 1), streams[0]), (StreamEncoding(B, 2, 1), streams[2])])
    return sets


def dest_for(sources, rng):
    total = sum(max(1, e.num_interleaved_channels) for e, _ in sources)
    return StreamEncoding(rng.choice((L, B)), rng.choice((1, 2, 4)), total, rng.choice((True, False)))


def build(name, sources, dest, h):
    data_streams = [DataStream(factory(h), enc) for enc, factory in sources]
    return MAKERS[name](data_streams, dest), data_streams


def part_structure():
    rng = random.Random(2021)
    n = 0
    for sources in source_sets():
        for dest in (dest_for(sources, rng), dest_for(sources, rng), sources[0][0]):
            got = {}
            for name in MAKERS:
                h = TraceIO(IMAGE)
                try:
                    t, data_streams = build(name, sources, dest, h)
                except Exception as e:  # noqa: BLE001
                    got[name] = exc_info(e)
                    continue
                d = describe(t)
                calls = None
                if isinstance(t, PipelineTranscoder):
                    # call the pieces the way PipelineTranscoder.__next__ does
                    check(t.data_streams is data_streams, f"{name}: data_streams not passed through")
                    channels = t.pipeline.f_decode(t.data_streams)
                    steps = [channels]
                    for process in t.pipeline.processes:
                        channels = process[1](channels)
                        steps.append(channels)
                    try:
                        encoded = t.pipeline.f_encode(channels)
                    except Exception as e:  # noqa: BLE001
                        encoded = exc_info(e)
                    calls = (steps, encoded)
                got[name] = (d, calls, list(h.trace))
            a, b = got["live"], got["orig"]
            if isinstance(a, tuple) and a and a[0] == "exc" or isinstance(b, tuple) and b and b[0] == "exc":
                check(a == b, f"structure {sources} -> {dest}: {a} != {b}")
            else:
                check(a[0] == b[0], f"structure {dest}: {a[0]} != {b[0]}")
                check(a[2] == b[2], f"structure {dest}: handle traces differ")
                if a[1] is None or b[1] is None:
                    check(a[1] is None and b[1] is None, "structure: one is passthrough, the other not")
                else:
                    check(arrays_equal(a[1][0], b[1][0]), f"structure {dest}: decode / process results differ")
                    check(a[1][1] == b[1][1], f"structure {dest}: encoded frame differs")
            n += 1
    return n


# ------------------------------------------------------------ 4. full exports
def export(name, sources, dest, max_frames=10000):
    h = TraceIO(IMAGE)
    try:
        t, data_streams = build(name, sources, dest, h)
    except Exception as e:  # noqa: BLE001
        return exc_info(e), list(h.trace)
    frames = []
    try:
        for frame in t:
            frames.append(frame)
            if len(frames) >= max_frames:
                break
        frames.append("stop")
    except Exception as e:  # noqa: BLE001
        frames.append(exc_info(e))
    state = [(s.stream.position, s.stream.true_size) for s in data_streams]
    return (type(t).__name__, frames, state), list(h.trace)


def part_exports():
    rng = random.Random(2022)
    n = 0
    for sources in source_sets():
        for dest in (dest_for(sources, rng), sources[0][0]):
            a = export("live", sources, dest)
            b = export("orig", sources, dest)
            check(a == b, f"export {sources} -> {dest}")
            n += 1
    return n


# ------------------------------------------- 5. exports sharing one handle
def run_shared(name, jobs, schedule):
    h = TraceIO(IMAGE)
    transcoders = []
    for sources, dest in jobs:
        try:
            transcoders.append(build(name, sources, dest, h)[0])
        except Exception as e:  # noqa: BLE001
            transcoders.append(iter([exc_info(e)] * len(schedule)))
    results = []
    for idx in schedule:
        try:
            results.append(next(transcoders[idx]))
        except StopIteration:
            results.append("stop")
        except Exception as e:  # noqa: BLE001
            results.append(exc_info(e))
    return results, list(h.trace)


def run_isolated(jobs, schedule):
    per = {}
    for idx in range(len(jobs)):
        own = [i for i in schedule if i == idx]
        per[idx] = run_shared("live", jobs, own)[0]
    cursor = {i: 0 for i in range(len(jobs))}
    merged = []
    for i in schedule:
        merged.append(per[i][cursor[i]])
        cursor[i] += 1
    return merged


def part_shared():
    rng = random.Random(2023)
    sets = source_sets()
    multi = [s for s in sets if len(s) >= 2]
    n = 0
    for counts in ((3, 3), (2, 2, 2)):
        pool = [i for i, c in enumerate(counts) for _ in range(c)]
        orders = sorted(set(itertools.permutations(pool)))
        for trial in range(6):
            jobs = []
            for _ in counts:
                sources = rng.choice(multi if trial % 2 == 0 else sets)
                jobs.append((sources, dest_for(sources, rng)))
            for order in orders:
                a = run_shared("live", jobs, order)
                b = run_shared("orig", jobs, order)
                check(a == b, f"shared exhaustive {counts} {order}: live and original differ")
                check(a[0] == run_isolated(jobs, order), f"shared exhaustive {counts} {order}: differs from isolated")
                n += 1
    for _ in range(250):
        k = rng.randint(2, 4)
        jobs = []
        for _ in range(k):
            sources = rng.choice(sets)
            jobs.append((sources, dest_for(sources, rng)))
        schedule = [rng.randrange(k) for _ in range(rng.randint(2, 14))]
        a = run_shared("live", jobs, schedule)
        b = run_shared("orig", jobs, schedule)
        check(a == b, f"shared random {schedule}: live and original differ")
        check(a[0] == run_isolated(jobs, schedule), f"shared random {schedule}: differs from isolated")
        n += 1
    return n


def main():
    n1 = part_bad_args()
    n2 = part_access_order()
    n3 = part_structure()
    n4 = part_exports()
    n5 = part_shared()
    print(f"argument checks: {n1}, access orders: {n2}, structures: {n3}, "
          f"exports: {n4}, shared schedules: {n5}, checks: {CHECKS}")
    if FAILURES:
        print(f"{len(FAILURES)} mismatches")
        return 1
    print("all agree")
    return 0


if __name__ == "__main__":
    sys.exit(main())
