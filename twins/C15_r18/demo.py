"""Equivalence demo for r18: smpl_extract/transcoder.py resize_buffer (the
helper both PassthroughTranscoder.__next__ and decode_frame - i.e.
PipelineTranscoder.__next__ - use to cut a short last read down to whole
frames; on a truncated image this is what shapes the final block of PCM).

  * `if len(buffer) % frame_size != 0: num_frames = len(buffer) // frame_size;
    true_size = num_frames * frame_size; buffer = buffer[:true_size]`
    became
    `if (excess_size := len(buffer) % frame_size) != 0:
         buffer = buffer[:len(buffer) - excess_size]`

Part 1 pastes the ORIGINAL function and compares it with the live one on an
exhaustive grid (every length 0..130 x every frame size -9..40 incl. 0), on
random larger cases, on other buffer types (bytearray, memoryview, numpy
array, list, a length-counting bytes subclass) and on odd frame sizes (bool,
float, inf, nan, Fraction, Decimal, numpy ints, None, str): same value, same
type, same object identity when nothing is cut, same exception type and
message, same number of len() calls.

Part 2 runs make_transcoder end-to-end over complete / truncated sector
streams once with the live helper and once with the original patched into the
module, comparing the emitted blocks and the stream positions afterwards.
Exit 0 when everything agrees, 1 otherwise.
"""
from decimal import Decimal
from fractions import Fraction
from io import BytesIO
import random
import sys
import warnings

import numpy as np

from smpl_extract import transcoder as live
from smpl_extract.data_streams import DataStream
from smpl_extract.data_streams import Endianess
from smpl_extract.data_streams import StreamEncoding
from smpl_extract.util.fat import FileStream
from smpl_extract.util.sector import SectorStream


# --------------------------------------------------------------------------
# ORIGINAL implementation (verbatim copy)
# --------------------------------------------------------------------------
def resize_buffer_orig(buffer: bytes, frame_size: int) -> bytes:
    if len(buffer) % frame_size != 0:
        num_frames = len(buffer) // frame_size
        true_size = num_frames * frame_size
        buffer = buffer[:true_size]
    return buffer


rnd = random.Random(1815)
failures = 0
checks = 0
outcomes = {}


class CountingBytes(bytes):
    """bytes whose len() calls and slices are recorded."""
    def __new__(cls, data, log):
        self = super().__new__(cls, data)
        self.log = log
        return self

    def __len__(self):
        self.log.append("len")
        return super().__len__()

    def __getitem__(self, item):
        self.log.append(("getitem", repr(item)))
        return super().__getitem__(item)


def run(func, buffer, frame_size):
    try:
        res = func(buffer, frame_size)
    except BaseException as e:  # noqa
        return ("exc", type(e), str(e)), None
    if isinstance(res, np.ndarray):
        value = (res.dtype.str, res.shape, res.tobytes())
    elif isinstance(res, memoryview):
        value = res.tobytes()
    else:
        value = res
    return ("ok", type(res), value, res is buffer), res


def check(buffer_factory, frame_size, label):
    """buffer_factory() -> (buffer, log-or-None); called once per side so
    that each implementation gets a fresh, identical object."""
    global failures, checks
    buf_a, log_a = buffer_factory()
    buf_b, log_b = buffer_factory()
    a, _ = run(resize_buffer_orig, buf_a, frame_size)
    b, _ = run(live.resize_buffer, buf_b, frame_size)
    checks += 1
    key = a[0] if a[0] == "ok" else a[1].__name__
    outcomes[key] = outcomes.get(key, 0) + 1
    if a != b or log_a != log_b:
        failures += 1
        if failures <= 5:
            print("MISMATCH", label, "frame_size=", repr(frame_size))
            print("  original:", a, log_a)
            print("  current :", b, log_b)


def part1():
    blob = bytes(rnd.randrange(256) for _ in range(5000))

    # exhaustive grid on bytes
    for length in range(0, 131):
        data = blob[:length]
        for frame_size in range(-9, 41):
            check(lambda data=data: (data, None), frame_size,
                  f"bytes len={length}")

    # random larger cases
    for _ in range(3000):
        length = rnd.choice([0, 1, 4095, 4096, 4097, rnd.randrange(5000)])
        frame_size = rnd.choice(
            [1, 2, 3, 4, 6, 8, 12, 16, 24, 32, 4096, 4097, 10000,
             rnd.randrange(1, 64), -rnd.randrange(1, 64)])
        data = blob[:length]
        check(lambda data=data: (data, None), frame_size,
              f"bytes len={length}")

    # other buffer types
    for length in (0, 1, 2, 3, 7, 8, 9, 64, 65, 100):
        data = blob[:length]
        for frame_size in (1, 2, 3, 4, 6, 8, 16, 0, -3):
            check(lambda d=data: (bytearray(d), None), frame_size,
                  f"bytearray len={length}")
            check(lambda d=data: (memoryview(d), None), frame_size,
                  f"memoryview len={length}")
            check(lambda d=data: (np.frombuffer(d, dtype=np.uint8), None),
                  frame_size, f"ndarray len={length}")
            check(lambda d=data: (list(d), None), frame_size,
                  f"list len={length}")
            check(lambda d=data: (tuple(d), None), frame_size,
                  f"tuple len={length}")
            check(lambda d=data: (d.decode("latin-1"), None), frame_size,
                  f"str len={length}")

            def counting(d=data):
                log = []
                return CountingBytes(d, log), log
            check(counting, frame_size, f"CountingBytes len={length}")

    # things that have no len()
    for bad in (None, 5, 2.5, object()):
        for frame_size in (1, 2, 0):
            check(lambda bad=bad: (bad, None), frame_size,
                  f"no-len {type(bad).__name__}")

    # odd frame sizes
    odd_sizes = [True, False, 1.0, 2.0, 2.5, 0.3, 0.0, -2.0, float("inf"),
                 float("-inf"), float("nan"), Fraction(3, 2), Fraction(2, 1),
                 Fraction(-4, 3), Decimal(2), Decimal("1.5"), None, "2",
                 b"2", (2,), 2 + 0j, 10**30, -10**30,
                 np.int8(3), np.int16(4), np.int32(6), np.int64(8),
                 np.uint8(3), np.uint16(4), np.uint32(5), np.uint64(4),
                 np.int64(0), np.int64(-3), np.float64(2.0), np.float32(3.0),
                 np.bool_(True)]
    for length in (0, 1, 2, 3, 4, 5, 6, 7, 8, 9, 12, 63, 64, 65):
        data = blob[:length]
        for frame_size in odd_sizes:
            check(lambda data=data: (data, None), frame_size,
                  f"odd bytes len={length}")
            check(lambda d=data: (bytearray(d), None), frame_size,
                  f"odd bytearray len={length}")


# --------------------------------------------------------------------------
# Part 2: end to end through make_transcoder
# --------------------------------------------------------------------------
def make_streams(data, spec):
    """spec: list of (kind, encoding, args) -> fresh DataStreams on `data`."""
    streams = []
    for kind, encoding, args in spec:
        if kind == "file":
            sector, chain = args
            stream = FileStream(BytesIO(data), sector, list(chain))
        elif kind == "sector":
            size, sector = args
            stream = SectorStream(BytesIO(data), size, sector)
        else:
            stream = BytesIO(data[args[0]:args[1]])
        streams.append(DataStream(stream, encoding))
    return streams


def drain(data, spec, dest, resize_impl):
    saved = live.resize_buffer
    live.resize_buffer = resize_impl
    try:
        try:
            streams = make_streams(data, spec)
            coder = live.make_transcoder(streams, dest)
        except BaseException as e:  # noqa
            return ("make-exc", type(e), str(e))
        blocks = []
        try:
            for block in coder:
                blocks.append(bytes(block))
                if len(blocks) > 10000:
                    return ("endless",)
        except BaseException as e:  # noqa
            return ("iter-exc", type(e), str(e), blocks)
        # a second pull after exhaustion must behave the same as well
        try:
            again = next(coder)
        except BaseException as e:  # noqa
            again = ("exc", type(e))
        positions = [s.stream.tell() for s in streams]
        return ("ok", type(coder).__name__, blocks, again, positions)
    finally:
        live.resize_buffer = saved


def part2():
    global failures, checks
    full = bytes(rnd.randrange(256) for _ in range(3 * 4096 + 700))
    cuts = [len(full), 3 * 4096, 2 * 4096 + 1, 4096 + 511, 4096, 4095, 2049,
            1025, 1024, 1023, 513, 512, 511, 100, 33, 7, 3, 2, 1, 0]

    def enc(width, channels, endian=Endianess.LITTLE, signed=True):
        return StreamEncoding(endian, width, channels, signed)

    chain_a = [0, 2, 4, 6, 8, 10, 12, 14, 16, 18, 20, 22]
    chain_b = [1, 3, 5, 7, 9, 11, 13, 15, 17, 19, 21, 23]
    chain_c = [3, 2, 1, 0, 7, 6, 5, 4]
    scenarios = []
    for width, channels in ((1, 1), (2, 1), (2, 2), (4, 1), (1, 3), (2, 3),
                            (4, 2), (8, 1)):
        e = enc(width, channels)
        # passthrough (same encoding in and out)
        scenarios.append(([("file", e, (512, chain_a))], e))
        scenarios.append(([("file", e, (500, chain_c))], e))
        scenarios.append(([("sector", e, (9000, 512))], e))
        scenarios.append(([("plain", e, (0, 5001))], e))
        # pipeline (endianess differs)
        scenarios.append((
            [("file", enc(width, channels, Endianess.BIG), (512, chain_a))],
            e))
        scenarios.append((
            [("plain", enc(width, channels, Endianess.BIG), (10, 3333))], e))
    for width in (1, 2, 4):
        mono = enc(width, 1)
        # stereo from two mono chains (left / right halves cut differently)
        scenarios.append((
            [("file", mono, (512, chain_a)), ("file", mono, (512, chain_b))],
            enc(width, 2)))
        scenarios.append((
            [("file", enc(width, 1, Endianess.BIG), (512, chain_a)),
             ("file", mono, (1000, chain_c))],
            enc(width, 2, Endianess.BIG)))
        scenarios.append((
            [("file", mono, (500, chain_c)), ("plain", mono, (0, 2999)),
             ("sector", mono, (3001, 100))],
            enc(width, 3)))
        scenarios.append((
            [("file", enc(width, 2), (512, chain_a)),
             ("file", mono, (512, chain_b))],
            enc(width, 3)))
    # widths differ between source and destination
    scenarios.append(([("file", enc(1, 1, signed=False), (512, chain_a))],
                      enc(2, 1)))
    scenarios.append(([("file", enc(2, 2), (512, chain_b))], enc(4, 2)))
    # bad arguments
    scenarios.append(([], enc(2, 1)))
    scenarios.append(([("plain", enc(2, 1), (0, 100))], enc(2, 2)))

    kinds = {}
    for spec, dest in scenarios:
        for cut in cuts:
            data = full[:cut]
            a = drain(data, spec, dest, resize_buffer_orig)
            b = drain(data, spec, dest, live.resize_buffer)
            checks += 1
            kinds[a[0] + (":" + a[1] if a[0] == "ok" else "")] = \
                kinds.get(a[0] + (":" + a[1] if a[0] == "ok" else ""), 0) + 1
            if a != b:
                failures += 1
                if failures <= 5:
                    print("MISMATCH end-to-end cut=", cut, spec, dest)
                    print("  original:", str(a)[:300])
                    print("  current :", str(b)[:300])
    print("end-to-end outcome kinds:", kinds)
    return kinds


def main():
    warnings.simplefilter("ignore")  # numpy warns on % by a zero scalar
    part1()
    kinds = part2()
    print(f"{checks} comparisons, {failures} mismatches")
    print("unit outcomes:", dict(sorted(outcomes.items())))
    needed = {"ok", "ZeroDivisionError", "TypeError"}
    if not needed <= set(outcomes):
        print("demo did not reach all expected outcome kinds")
        return 1
    if not {"ok:PassthroughTranscoder", "ok:PipelineTranscoder"} <= set(kinds):
        print("demo did not exercise both transcoders")
        return 1
    return 1 if failures else 0


if __name__ == "__main__":
    sys.exit(main())
